#!/bin/bash
# runs every claimed check's quick (or $1) tier and prints a summary line each
TIER="${1:-quick}"
cd "$(dirname "$0")"
for id in $(python3 -c "import json;print(' '.join(c['property_id'] for c in json.load(open('MANIFEST.json'))['checks']))"); do
  s=$(date +%s)
  out=$(./check $id --tier $TIER 2>&1); rc=$?
  e=$(( $(date +%s) - s ))
  echo "$id rc=$rc ${e}s :: $(echo "$out" | tail -1)"
  if [ $rc -ne 0 ]; then echo "$out" | grep -E "VIOLATION|MACHINERY" | head -5; fi
done
