#!/usr/bin/env python3
"""Regenerates MANIFEST.json from the table below (kept in one place so that it stays valid)."""
import json, subprocess
CLAIMED = {
 "C02": {
  "level": "exploration",
  "technique": "bounded-exhaustive operand-tuple enumeration on the real code (all 256^2 pairs / 64^3..256^3 triples x 6 orders x thread configs; also through the edge-level entry points, after every reordering / add_vars / collection on a sparse live set, and in one session interleaved with node creation in a second manager), model-table oracle",
  "text": "Every operand tuple over the 256 three-variable functions is executed on the real library for every variable order and thread configuration and compared with a truth-table model through an independent interpreter of the stored diagram; this is a complete enumeration of the stated finite space, not a sample.",
  "note": "index backend only (pointer backend: C20); operands over >4 variables not enumerated; harness interpreter and builder trusted (cross-checked against each other and eval)",
  "ref": "3/C02"
 },
 "C04": {
  "level": "exploration",
  "technique": "bounded-exhaustive enumeration on the real code: all functions x all variable subsets / literal cubes / 13^3 replacement vectors x 6 orders, substitution-reuse histories, all ordered pairs of restrict/quantify requests on one cache, persistent variable sets and substitution objects while operands die and slots are recycled; truth-table oracle; loom exploration (all interleavings incl. weak-memory behaviours) of the substitution id generator, code derived from the source text at build time",
  "text": "All 256 functions x all 8 variable subsets (3 quantifiers), all 27 restriction cubes, all 8 inner operators x pairs for the combined forms and all 2197 replacement vectors are executed for every order with 1 and 2 workers; substitution objects are reused and alternated with gc in between. Complete enumeration of the n=3 space (n=4 unary block in thorough).",
  "note": "ZBDD: restrict only (the library offers nothing else); operands over >4 variables not enumerated",
  "ref": "3/C04"
 },
 "C09": {
  "level": "exploration",
  "technique": "bounded-exhaustive enumeration on the real code: all 256 families / 65536 pairs x 6 orders, make_node over all admissible (var,hi,lo), every set operation after every reordering, add_vars histories incl. the full-family operations around them; set-family model oracle",
  "text": "Every family over 3 variables (and every pair) is run through every set operation under every order; make_node is called for every admissible argument triple; variables are added twice and all old handles re-read as families and as Boolean functions over the larger domain.",
  "note": "families over >4 variables not enumerated",
  "ref": "3/C09"
 },
 "C13": {
  "level": "exploration",
  "technique": "bounded-exhaustive enumeration on the real code: 256 functions x 6 orders x all choice vectors x all 27 literal sets x 64 RNG seeds (exact stream replay), one count cache across reorderings, functions alone in their manager (n=3 all, n=4 every third); cube predicted from the truth-table model",
  "text": "For every function, order, per-level choice vector and literal set the exact expected cube is derived from the model (forced / don't-care / choice) and compared, the choice-closure protocol is recorded and checked, and uniform picking is replayed draw by draw against models-proportional branch probabilities.",
  "note": "uniformity is established by exact agreement with the model's branch probabilities, not by statistics; n<=4",
  "ref": "3/C13"
 },
 "C08": {
  "level": "model_checking",
  "technique": "bounded-exhaustive exploration of the real code: all source orders x all (partial) requests with all functions alive (n=3; n=4 totals), depth-bounded histories of reorderings mixed with operations/drops/gc, single swaps through level_down on dense and sparse live sets, the concurrent variant on real workers and - with the worker instances as controlled threads - under ALL schedules with <= 2 preemptions (cooperative scheduler over cfg(oxidd_verif) hooks, deadlock = lost notification detected); model oracle (tables, Kendall-tau minimum, minimal diagram size) + structural/ref-count audit; one process-isolated group per case",
  "text": "Every (source order, request) pair is executed on the real manager with every function alive and checked against the model (order established, minimal number of adjacent swaps by brute force, every table preserved, canonical, exact reference counts, minimal node counts); chains of reorderings interleaved with operations, drops and gc are enumerated to a depth bound and every state is audited and compared with a manager built directly in the final order.",
  "note": "sequential bubble sort only in this revision (the concurrent variant needs >= 65536 nodes; see DESIGN.md); MTBDD/TDD reordering not yet enumerated; orders on >4 variables not enumerated",
  "ref": "3/C08"
 },
 "C11": {
  "level": "exploration",
  "technique": "bounded-exhaustive operand-tuple enumeration on the real code (n=1: all 27^2 pairs and 27^3 triples; n=2: all 19683 functions x representative set, thorough all 19683^2 pairs; eval of every variable and variable pair on a 40-variable manager) against literal three-valued truth tables",
  "text": "Every operand tuple over the one-variable three-valued functions and (quick) every two-variable function against a 60-function set, in both orders, is executed and compared with tables typed in from the property statement; constants, var, not, cofactors and eval under all three-valued assignments included.",
  "note": "n<=2; ite for n=2 over representative sets; index backend",
  "ref": "3/C11"
 },
 "C01": {
  "level": "model_checking",
  "technique": "depth-bounded exhaustive exploration of operation histories on the real managers (13-action alphabet on 3 handle registers, 5 kinds, fresh manager per history, model in lock-step) + all-pairs comparison of two construction routes for all 256 functions x 6 orders + sweep over the whole operation alphabet with all 256 canonical handles alive (every result must be the live handle of the table it denotes)",
  "text": "Every history up to the depth bound is executed on the real code and after every step all live handle pairs are compared (== / Hash / Ord vs. model tables) and each handle is compared with a fresh bottom-up construction of the same function; independently all 65536 pairs of (route A, route B) handles are compared per kind and order.",
  "note": "depth 4 (quick) / 5 (thorough); histories are not pruned by abstract state; index backend; functions over >5 variables not enumerated",
  "ref": "3/C01"
 },
 "C03": {
  "level": "model_checking",
  "technique": "depth-bounded exhaustive history exploration on the real managers with a structural auditor (public API only) and a minimal-diagram-size oracle after every step, ample and tight (failing) node stores; sweep over the whole operation alphabet with the auditor over the entire store after every batch; single level swaps (level_down) and concurrent reorderings of sparse live sets",
  "text": "After every step of every explored history the whole stored graph is audited (order, reduction rules, duplicates, level bookkeeping, var/level maps) and node_count of every live handle must equal the size of the unique reduced diagram computed from the model table.",
  "note": "depth 4/5; DDDMP import and named variables are audited in C15/C16; index backend",
  "ref": "3/C03"
 },
 "C05": {
  "level": "model_checking",
  "technique": "depth-bounded exhaustive history exploration on the real managers with the reference-count equation, gc exactness, teardown and audited capacity-probe oracles after every step / history; extra configurations: F64 terminals, 4/6-entry terminal tables, every action nested in a session of a second manager, ZBDD set operations",
  "text": "For every explored history: after each step every stored node's ref_count equals live handles + stored parent edges (+ manager-held ZBDD chain); each gc leaves exactly the reachable nodes and returns the number it removed; after dropping everything the manager is back at its initial node count and a capacity probe shows no lost slot.",
  "note": "depth 4/5; background collector wake-up not driven (see C07); terminal reference counts only through num_terminals; index backend",
  "ref": "3/C05"
 },
 "C06": {
  "level": "model_checking",
  "technique": "depth-bounded exhaustive history exploration executed in lock-step on managers differing only in apply-cache capacity (1, 2, 16, 4096, warmed-up), differential + model oracle, every operation re-issued; terminal-heavy MTBDD and ZBDD set-operation alphabets on tiny terminal tables; request-pair differential (after a first request vs. on an emptied cache); every MTBDD operator on every ordered operand pair, the exchanged pair and the first pair again under 4 cache sizes; loom exploration of the substitution id generator",
  "text": "Every explored history runs on up to five managers; after each step all registers of all managers must denote the model's function with the model's minimal node count, and re-issuing an operation must return the identical handle; gc, reorderings and add_vars are part of the alphabet, so stale entries surviving them are reachable.",
  "note": "depth 4/5; alphabet of 5 operations per kind (different operators on the same operand registers); index backend",
  "ref": "3/C06"
 },
 "C10": {
  "level": "exploration",
  "technique": "bounded-exhaustive enumeration on the real code: all boundary scalar pairs for I64/F64, all 2401x96 (thorough 2401^2) value-table pairs for n=2 in both orders for 6 operators, ite/restrict/constant/var/eval, all 2-3 step operator histories on the same operands with cache capacities 1 and 4096; exact-integer / IEEE model",
  "text": "Scalar arithmetic is checked on every pair of boundary values against an exact integer model; diagram operations on every pair of value tables over a 7-value alphabet; operator sequences on identical operands expose cache-key confusion.",
  "note": "n<=3; 4-variable and random operands not enumerated; NaN absorption for min/max assumed as implemented by the NaN terminal shortcut",
  "ref": "3/C10"
 },
 "C12": {
  "level": "exploration",
  "technique": "bounded-exhaustive enumeration on the real code: all 256 functions x 6 orders x 3 kinds x 10 variable counts x 4 number types with shared/reused caches (drop+gc+rebuild for all 256x256 pairs, reorder, vars change); Natural: all pairs/triples of an 85-value boundary set, all shifts, conversions and 24 format templates; own Vec<u32> big-integer oracle; all thread schedules with <= 2 preemptions (C07's controlled scheduler on the real manager) of two scripts that count through a caller-owned cache while another thread collects",
  "text": "sat_count is compared with popcount * 2^(vars-n) for every function, order, variable count and number type under every cache-reuse history in the bound; Natural's +, <<, >>, comparisons, conversions and textual output are compared with an independent school-arithmetic implementation on a boundary grid.",
  "note": "n<=4; 512-bit random operands replaced by the boundary grid; NaN ordering/formatting not judged",
  "ref": "3/C12"
 },
 "C15": {
  "level": "fault_enumeration",
  "technique": "bounded-exhaustive round trips (all single roots, pairs, triples x full settings cross product x 6 orders x 4 kinds) and exhaustive fault enumeration (every proper prefix, every position x 11-byte alphabet, all 256 values on the first binary node bytes, hand-made oversized counts) of representative files, audit after every import",
  "text": "Every exported file in the bound is re-imported into the same and into fresh managers and compared (handles, tables, header fields, strict-mode verdicts); every enumerated mutant of 13 files is imported and must yield Err or a manager that passes the full audit, never a panic/abort/hang or a leaked reference.",
  "note": "n=3 (n=4 thorough); TDD export only; byte substitutions one position at a time",
  "ref": "3/C15"
 },
 "C16": {
  "level": "model_checking",
  "technique": "exhaustive enumeration of all call histories up to length 5 (thorough 6) over the name alphabet {'',a,b,c} on the real VarNameMap (no state pruning) and up to length 3/4 through the Manager API on 5 kinds, reference name model, table preservation check; explicit-state BFS over distinct name vectors executing every transition (and every out-of-range set_var_name under catch_unwind) on the real object",
  "text": "Every call history in the bound runs on a fresh real object; after every call the name bijection invariants, error contents and (manager level) level/var permutations and the tables of all pre-existing handles are checked against the model.",
  "note": "no reordering inside these histories; unicode/random names not enumerated; VarNameMap::clone is outside the property (observed as outcome)",
  "ref": "3/C16"
 },
 "C17": {
  "level": "model_checking",
  "technique": "explicit-state breadth-first search over the real RawTable with exact state de-duplication on the concrete slot array (verif_dump hook) to a fixed point for 6 keys under 4 adversarial hash assignments (thorough: 7-8 keys, 14 keys depth-bounded), BTreeSet reference model, invariants in every state",
  "text": "All reachable states of the table for the small key universes are enumerated to a fixed point with every transition executed on the real code; in every state find/get/iter/len/drain/into_iter/retain agree with the model, probing terminates, and the free/tombstone accounting that guarantees termination holds.",
  "note": "state = (slot array, len, free) via the cfg(oxidd_verif) hook; key type without Drop; 14-key universes only depth-bounded",
  "ref": "3/C17"
 },
 "C18": {
  "level": "exploration",
  "technique": "bounded-exhaustive enumeration: all circuits up to 2 gates x 3 literals / 3 gates x 2 literals over the full literal alphabet (2e8 quick, 4.5e9 thorough) against an own evaluator and the five normal-form conditions; all token sequences up to length 5/6 per format, every prefix and position x byte substitution of the crate's example inputs, all small AIGs in ASCII and binary",
  "text": "Circuit::simplify is run on every circuit in the bound and compared with an independent truth-table evaluator, cycle/unknown-input detection and the documented normal form; the parsers are run on every enumerated byte string and must return Ok or Err; ASCII and binary AIGER encodings of every small AIG must parse to equal problems that also match the harness's own model.",
  "note": "full 3x3x3 circuit bound not enumerable; dangling gate references (undocumented) not judged; header counts at MAX_CAPACITY are open known findings",
  "ref": "3/C18"
 },
 "C19": {
  "level": "model_checking",
  "technique": "exhaustive enumeration of C-API call sequences (depth 2 over 36-41 calls, depth 3 over a 24-call core; thorough 3/4) on a pool of 3 handles + INVALID, mirrored call-by-call on a Rust-API twin, whole-surface sweep of all exported entry points from every shallow state; ownership audited through exact node reference counts and the manager's strong count",
  "text": "After every C call the returned handle's validity and table are compared with the Rust twin, the reference count of every stored node and of the manager must match exactly the handles the harness owns under the documented ownership rules, and at the end of every sequence unref+gc leaves no node.",
  "note": "C API compiled unchanged as rlib through a shim package; manager strong count read from the Arc header (offset calibrated per manager); failing-allocation variant not enumerated (INVALID injected instead)",
  "ref": "3/C19"
 },
 "C14": {
  "level": "fault_enumeration",
  "technique": "exhaustive fault enumeration on the real code: for each of ~50 scripted operations (incl. all six MTBDD operators, MTBDD ite and MTBDD restrict by 12 literal cubes) a fresh manager for every inner-node (resp. terminal) capacity from 0 to 'everything fits', so every allocation point is the failing one in one run; model result oracle + structural/ref-count audit + retry after drop+gc; process-isolated groups for the operations that abort by design",
  "text": "Every capacity value in the sweep is executed; the outcome must be the model's result or OutOfMemory with an intact manager (exact reference counts, unchanged handles, gc exactness), after freeing the ballast the operation must succeed; aborts inside set_var_order/ZBDD add_vars are matched as open known findings (API cannot report an error).",
  "note": "index backend (the pointer backend has no capacity); multi-threaded runs are free-running; 4-variable operands",
  "ref": "3/C14"
 },
 "C07": {
  "level": "model_checking",
  "technique": "stateless exploration of ALL thread schedules of the real manager up to a preemption bound (cooperative scheduler over cfg(oxidd_verif) hooks at every lock / try-lock / gc phase / handle clone+drop / fork-join; blocking acquisitions carry a readiness predicate so deadlock is detected), 15 collision-forcing scripts x 3 kinds incl. OutOfMemory inside a forked join and the background collector thread adopted as a controlled daemon thread (schedule tree split into 16 disjoint parts), fresh manager per schedule; sequential-result + model + audit oracle; loom exploration (all interleavings incl. weak-memory behaviours, 2-3 threads) of the apply-cache bucket lock, code derived from the source text at build time",
  "text": "Every schedule with at most 2 preemptions (3 in the thorough tier for the two-thread scripts) of each script is executed on the real code; in every execution all results must denote the model's functions and equal the sequentially recomputed handles, no thread may panic or deadlock, and the final structural/reference-count audit and teardown must hold.",
  "note": "sequentially consistent interleavings at the instrumented points only (no weak-memory effects); background-GC condvar wake-up and rayon work stealing replaced by equivalent controlled forks; pointer backend not instrumented",
  "ref": "3/C07"
 },
 "C20": {
  "level": "model_checking",
  "technique": "differential replay of bounded-exhaustive workloads (all 64x64 operand pairs x 8 connectives x 6 orders x 3 kinds, all depth-3/4 histories over 12 actions, TDD n=1 all tuples) incl. one 65536-node diagram, restrict of all functions in both cube orders, all 7^3 sequences of variable/name bookkeeping calls, reorderings through the concurrent variant in multi-worker configurations and a count cache carried through every history, across 4 (thorough: 8) separately built feature configurations x 2-3 worker counts; transcript equality + truth-table model + structural/ref-count audit",
  "text": "The same recorder source is compiled per configuration; every observation (tables via the harness's interpreter, node counts, orders, gc effects, audit verdicts) of every enumerated operation and history step must equal the model and be identical in all builds.",
  "note": "MTBDD is index-backend only and therefore excluded; configurations are compared on the recorder's workloads (depth 3/4, n=3)",
  "ref": "3/C20"
 }
}
PENDING = {}
props=[json.loads(l) for l in open('/verif/properties.jsonl')]
checks=[]; na=[]
for p in props:
    i=p['id']
    if i in CLAIMED:
        c=CLAIMED[i]
        checks.append(dict(property_id=i, quick_cmd=f"./check {i} --tier quick", thorough_cmd=f"./check {i} --tier thorough",
            evidence_file=f"/verif/evidence/{i}.json", replay_cmd_template="./check replay {path}", engine="vcheck",
            level_claimed=dict(category=c['level'], text=c['text'], design_ref=c['ref']), level_note=c['note'], technique=c['technique']))
    else:
        na.append(dict(property_id=i, reason=PENDING.get(i,"check not built yet in this revision of /verif (planned, see DESIGN.md section 3); not claimed until its check exists")))
commits=subprocess.run(["git","-C","/repo","log","--format=%h %s","--grep=^verif-hook"],capture_output=True,text=True).stdout.strip().splitlines()
m=dict(version=1,
  setup_cmd="cd /verif && ./check build",
  hooks=dict(guard="oxidd_verif", enable='RUSTFLAGS="--cfg oxidd_verif --check-cfg=cfg(oxidd_verif)" (set in /verif/harness/.cargo/config.toml)',
             baseline_off_cmd="cd /repo && cargo nextest run --workspace --no-fail-fast --offline || cargo test --workspace --no-fail-fast --offline",
             source_commits=[c.split()[0] for c in commits], add_only=False),
  engines=[dict(name="vcheck", path="/verif/harness/vcheck", serves_properties=sorted(CLAIMED), kind_free_text="driver/worker bounded-exhaustive explorer over the real OxiDD code (Rust), reference models in model.rs")],
  checks=checks, not_applicable=na,
  notes="All checks: exit 0 = held on everything explored; exit 1 + VIOLATION line; exit 2 = machinery error. Known findings: /verif/known_findings.json.")
json.dump(m,open('/verif/MANIFEST.json','w'),indent=1)
print("claimed",len(checks),"not_applicable",len(na))
