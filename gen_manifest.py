#!/usr/bin/env python3
"""Regenerates MANIFEST.json from the table below (kept in one place so that it stays valid)."""
import json, subprocess
CLAIMED = {
 "C02": dict(level="exploration", technique="bounded-exhaustive operand-tuple enumeration on the real code (all 256^2 pairs / 64^3..256^3 triples x 6 orders x thread configs), model-table oracle",
             text="Every operand tuple over the 256 three-variable functions is executed on the real library for every variable order and thread configuration and compared with a truth-table model through an independent interpreter of the stored diagram; this is a complete enumeration of the stated finite space, not a sample.",
             note="index backend only (pointer backend: C20); operands over >4 variables not enumerated; harness interpreter and builder trusted (cross-checked against each other and eval)", ref="3/C02"),
 "C04": dict(level="exploration", technique="bounded-exhaustive enumeration on the real code: all functions x all variable subsets / literal cubes / 13^3 replacement vectors x 6 orders, substitution-reuse histories; truth-table oracle",
             text="All 256 functions x all 8 variable subsets (3 quantifiers), all 27 restriction cubes, all 8 inner operators x pairs for the combined forms and all 2197 replacement vectors are executed for every order with 1 and 2 workers; substitution objects are reused and alternated with gc in between. Complete enumeration of the n=3 space (n=4 unary block in thorough).",
             note="ZBDD: restrict only (the library offers nothing else); operands over >4 variables not enumerated", ref="3/C04"),
 "C09": dict(level="exploration", technique="bounded-exhaustive enumeration on the real code: all 256 families / 65536 pairs x 6 orders, make_node over all admissible (var,hi,lo), add_vars histories; set-family model oracle",
             text="Every family over 3 variables (and every pair) is run through every set operation under every order; make_node is called for every admissible argument triple; variables are added twice and all old handles re-read as families and as Boolean functions over the larger domain.",
             note="families over >4 variables not enumerated", ref="3/C09"),
 "C13": dict(level="exploration", technique="bounded-exhaustive enumeration on the real code: 256 functions x 6 orders x all choice vectors x all 27 literal sets x 64 RNG seeds (exact stream replay); cube predicted from the truth-table model",
             text="For every function, order, per-level choice vector and literal set the exact expected cube is derived from the model (forced / don't-care / choice) and compared, the choice-closure protocol is recorded and checked, and uniform picking is replayed draw by draw against models-proportional branch probabilities.",
             note="uniformity is established by exact agreement with the model's branch probabilities, not by statistics; n<=4", ref="3/C13"),
 "C08": dict(level="model_checking", technique="bounded-exhaustive exploration of the real code: all source orders x all (partial) requests with all functions alive (n=3; n=4 totals), depth-bounded histories of reorderings mixed with operations/drops/gc; model oracle (tables, Kendall-tau minimum, minimal diagram size) + structural/ref-count audit; one process-isolated group per case",
             text="Every (source order, request) pair is executed on the real manager with every function alive and checked against the model (order established, minimal number of adjacent swaps by brute force, every table preserved, canonical, exact reference counts, minimal node counts); chains of reorderings interleaved with operations, drops and gc are enumerated to a depth bound and every state is audited and compared with a manager built directly in the final order.",
             note="sequential bubble sort only in this revision (the concurrent variant needs >= 65536 nodes; see DESIGN.md); MTBDD/TDD reordering not yet enumerated; orders on >4 variables not enumerated", ref="3/C08"),
 "C11": dict(level="exploration", technique="bounded-exhaustive operand-tuple enumeration on the real code (n=1: all 27^2 pairs and 27^3 triples; n=2: all 19683 functions x representative set, thorough all 19683^2 pairs) against literal three-valued truth tables",
             text="Every operand tuple over the one-variable three-valued functions and (quick) every two-variable function against a 60-function set, in both orders, is executed and compared with tables typed in from the property statement; constants, var, not, cofactors and eval under all three-valued assignments included.",
             note="n<=2; ite for n=2 over representative sets; index backend", ref="3/C11"),
}
PENDING = {}
props=[json.loads(l) for l in open('/verif/properties.jsonl')]
checks=[]; na=[]
for p in props:
    i=p['id']
    if i in CLAIMED:
        c=CLAIMED[i]
        checks.append(dict(property_id=i, quick_cmd=f"./check {i} --tier quick", thorough_cmd=f"./check {i} --tier thorough",
            evidence_file=f"/verif/evidence/{i}.json", replay_cmd_template="./check replay {path}", engine="vcheck",
            level_claimed=dict(category=c['level'], text=c['text'], design_ref=c['ref']), level_note=c['note'], technique=c['technique']))
    else:
        na.append(dict(property_id=i, reason=PENDING.get(i,"check not built yet in this revision of /verif (planned, see DESIGN.md section 3); not claimed until its check exists")))
commits=subprocess.run(["git","-C","/repo","log","--format=%h %s","--grep=^verif-hook"],capture_output=True,text=True).stdout.strip().splitlines()
m=dict(version=1,
  setup_cmd="cd /verif && ./check build",
  hooks=dict(guard="oxidd_verif", enable='RUSTFLAGS="--cfg oxidd_verif --check-cfg=cfg(oxidd_verif)" (set in /verif/harness/.cargo/config.toml)',
             baseline_off_cmd="cd /repo && cargo nextest run --workspace --no-fail-fast --offline || cargo test --workspace --no-fail-fast --offline",
             source_commits=[c.split()[0] for c in commits], add_only=True),
  engines=[dict(name="vcheck", path="/verif/harness/vcheck", serves_properties=sorted(CLAIMED), kind_free_text="driver/worker bounded-exhaustive explorer over the real OxiDD code (Rust), reference models in model.rs")],
  checks=checks, not_applicable=na,
  notes="All checks: exit 0 = held on everything explored; exit 1 + VIOLATION line; exit 2 = machinery error. Known findings: /verif/known_findings.json.")
json.dump(m,open('/verif/MANIFEST.json','w'),indent=1)
print("claimed",len(checks),"not_applicable",len(na))
