//! Recorder for check C20: runs fixed, exhaustive-in-the-bound workloads through
//! the public API and prints a transcript (one line per block with a digest of
//! every observed result table / node count / order / gc effect / audit verdict).
//! The same source is compiled once per feature configuration of `oxidd`; the
//! driver requires all transcripts to be identical. Every result is also
//! compared with the truth-table model, deviations are printed as `MISMATCH`.

#[path = "../../vcheck/src/model.rs"]
mod model;
#[path = "../../vcheck/src/dd.rs"]
mod dd;

mod proto {
    pub fn num_threads() -> usize {
        let Ok(s) = std::fs::read_to_string("/proc/self/stat") else { return 0 };
        let Some(p) = s.rfind(')') else { return 0 };
        s[p + 1..].split_whitespace().nth(17).and_then(|x| x.parse().ok()).unwrap_or(0)
    }
    pub fn throttle_threads() {
        let mut spins = 0u32;
        while num_threads() > 48 {
            std::thread::sleep(std::time::Duration::from_micros(if spins < 50 { 100 } else { 2000 }));
            spins += 1;
            if spins > 20000 {
                break;
            }
        }
    }
}

use dd::{Bcdd, Bdd, BoolKind, MRefOf, Zbdd};
use model::{BINOPS, BinOp, Tab};
use oxidd::{BooleanFunction, Function, Manager, ManagerRef};

struct Dig(u64);
impl Dig {
    fn new() -> Dig {
        Dig(0xcbf29ce484222325)
    }
    fn add(&mut self, x: u64) {
        for b in x.to_le_bytes() {
            self.0 ^= b as u64;
            self.0 = self.0.wrapping_mul(0x100000001b3);
        }
    }
}

fn apply<F: BooleanFunction>(op: BinOp, f: &F, g: &F) -> oxidd::util::AllocResult<F> {
    match op {
        BinOp::And => f.and(g),
        BinOp::Or => f.or(g),
        BinOp::Xor => f.xor(g),
        BinOp::Equiv => f.equiv(g),
        BinOp::Nand => f.nand(g),
        BinOp::Nor => f.nor(g),
        BinOp::Imp => f.imp(g),
        BinOp::ImpStrict => f.imp_strict(g),
    }
}

fn record<K: BoolKind>(d: &mut Dig, what: &str, r: &oxidd::util::AllocResult<K::F>, expected: Tab, mism: &mut u64) {
    match r {
        Err(_) => {
            d.add(u64::MAX);
            println!("MISMATCH {} {what}: OutOfMemory", K::NAME);
            *mism += 1;
        }
        Ok(h) => match K::table(h) {
            Ok(t) => {
                d.add(t);
                d.add(h.node_count() as u64);
                if t != expected {
                    println!("MISMATCH {} {what}: table {t:#x}, model {expected:#x}", K::NAME);
                    *mism += 1;
                }
            }
            Err(e) => {
                d.add(u64::MAX - 1);
                println!("MISMATCH {} {what}: malformed: {e}", K::NAME);
                *mism += 1;
            }
        },
    }
}

/// one large diagram: the disjunction of x_i & x_{i+15} for i < 15 under the order x_0 .. x_29 (about
/// 2^16 nodes, i.e. more than one page / chunk of every node store): node count, model count and a few
/// evaluations are configuration-independent
fn big_suite<K: BoolKind>(threads: u32) {
    if K::NAME == "zbdd" {
        // a ZBDD variable is not a single node, so the bottom-up construction below is not constant
        // time per step there (and exponential without an apply cache)
        return;
    }
    let mref: MRefOf<K> = K::new_manager(1 << 18, 1 << 14, threads);
    mref.with_manager_exclusive(|m| {
        m.add_vars(30);
    });
    let x: Vec<K::F> = (0..30).map(|v| mref.with_manager_shared(|m| K::F::var(m, v).unwrap())).collect();
    // built bottom-up with ite(variable above both operands, .., ..) only, which takes constant time with
    // or without an apply cache: c[S] = OR of x_{15+j} for j in S, then level by level
    // f_i[S] = ite(x_i, f_{i+1}[S + i], f_{i+1}[S]) for S a subset of {0..i-1}
    let (t, bot) = mref.with_manager_shared(|m| (K::F::t(m), K::F::f(m)));
    let mut level: Vec<K::F> = Vec::with_capacity(1 << 15);
    level.push(bot);
    for s in 1usize..(1 << 15) {
        let j = s.trailing_zeros() as usize;
        let rest = level[s & (s - 1)].clone();
        level.push(x[15 + j].ite(&t, &rest).unwrap());
    }
    for i in (0..15usize).rev() {
        let next: Vec<K::F> = (0..(1usize << i)).map(|s| x[i].ite(&level[s | (1 << i)], &level[s]).unwrap()).collect();
        level = next;
    }
    let f = level.pop().unwrap();
    drop(level);
    let mut cache: oxidd::util::SatCountCache<oxidd::util::num::Saturating<u64>, std::hash::BuildHasherDefault<oxidd::util::FxHasher>> = oxidd::util::SatCountCache::default();
    let count = f.sat_count(30, &mut cache).0;
    let mut evals = 0u64;
    for k in 0..64u64 {
        let a = k.wrapping_mul(0x9e3779b97f4a7c15) >> 34;
        evals = (evals << 1) | f.eval((0..30).map(|v| (v, (a >> v) & 1 == 1))) as u64;
    }
    let g = f.not().unwrap();
    println!("big {} node_count {} sat_count {count} evals {evals:016x} not.node_count {} stored {}", K::NAME, f.node_count(), g.node_count(), mref.with_manager_shared(|m| m.num_inner_nodes()));
}

/// variable / name bookkeeping (both manager backends implement it separately): every sequence of three calls
/// out of a small menu, incl. rejected batches with a duplicate behind new names; everything observable is
/// written to the transcript
fn names_suite<K: BoolKind>(threads: u32) {
    let menu: Vec<(&str, Vec<&str>)> = vec![
        ("add_vars(1)", vec![]),
        ("add_named", vec!["a", "b"]),
        ("add_named", vec!["b", "c", "a", "d"]),
        ("add_named", vec!["", "e", "e"]),
        ("from_map", vec!["c", "a"]),
        ("set_name(0)", vec!["a"]),
        ("set_name(1)", vec![""]),
    ];
    let mut d = Dig::new();
    let mut lines = 0u64;
    for i in 0..menu.len() {
        for j in 0..menu.len() {
            for k in 0..menu.len() {
                let mref: MRefOf<K> = K::new_manager(64, 16, threads);
                let mut obs: Vec<String> = vec![];
                for &c in &[i, j, k] {
                    let (what, names) = &menu[c];
                    let r: String = mref.with_manager_exclusive(|m| match *what {
                        "add_vars(1)" => format!("{:?}", m.add_vars(1)),
                        "add_named" => format!("{:?}", m.add_named_vars(names.iter().map(|s| s.to_string())).map_err(|e| (e.name.clone(), e.present_var, e.added_vars.clone()))),
                        "from_map" => {
                            let mut map = oxidd_core::util::VarNameMap::new();
                            map.add_named(names.iter().map(|s| s.to_string())).unwrap();
                            format!("{:?}", m.add_named_vars_from_map(map).map_err(|e| (e.name.clone(), e.present_var, e.added_vars.clone())))
                        }
                        w => {
                            let v: u32 = if w == "set_name(0)" { 0 } else { 1 };
                            if v < m.num_vars() {
                                format!("{:?}", m.set_var_name(v, names[0]).map_err(|e| (e.name.clone(), e.present_var)))
                            } else {
                                "skipped".into()
                            }
                        }
                    });
                    let state: String = mref.with_manager_shared(|m| {
                        let nv = m.num_vars();
                        format!(
                            "vars={nv} levels={} named={} names={:?} lookup={:?}",
                            m.num_levels(),
                            m.num_named_vars(),
                            (0..nv).map(|v| m.var_name(v).to_string()).collect::<Vec<_>>(),
                            ["a", "b", "c", "d", "e"].iter().map(|n| m.name_to_var(n)).collect::<Vec<_>>()
                        )
                    });
                    obs.push(format!("{what}{names:?} -> {r}; {state}"));
                }
                // a variable of the final manager is usable
                let usable = mref.with_manager_shared(|m| (0..m.num_vars()).map(|v| K::F::var(m, v).is_ok()).collect::<Vec<_>>());
                let line = format!("{} | usable={usable:?}", obs.join(" | "));
                for b in line.bytes() {
                    d.add(b as u64);
                }
                lines += 1;
                if i == 2 && j == 0 {
                    println!("names {} [{i},{j},{k}] {line}", K::NAME);
                }
            }
        }
    }
    println!("names {} sequences {lines} digest {:016x}", K::NAME, d.0);
}

fn suites<K: Ext>(threads: u32, mism: &mut u64) {
    big_suite::<K>(threads);
    let n = 3;
    let tabs = model::subset3();
    for order in model::perms(3) {
        let o = model::order_str(&order);
        let mref = dd::fresh::<K>(n, &order, 1 << 14, 1024, threads);
        if threads > 1 {
            K::set_split_depth(&mref, Some(2));
        }
        let fns: Vec<K::F> = tabs.iter().map(|&t| K::build(&mref, t).unwrap()).collect();
        for op in BINOPS {
            let mut d = Dig::new();
            for (i, f) in fns.iter().enumerate() {
                for (j, g) in fns.iter().enumerate() {
                    let r = apply(op, f, g);
                    record::<K>(&mut d, &format!("order {o} {}({:#x},{:#x})", op.name(), tabs[i], tabs[j]), &r, op.apply(tabs[i], tabs[j], n), mism);
                }
            }
            println!("suite {} order {o} {} digest {:016x}", K::NAME, op.name(), d.0);
        }
        let mut d = Dig::new();
        let small: Vec<usize> = (0..tabs.len()).step_by(3).collect();
        for &i in &small {
            for &j in &small {
                for &k in &small {
                    let r = fns[i].ite(&fns[j], &fns[k]);
                    record::<K>(&mut d, &format!("order {o} ite({:#x},{:#x},{:#x})", tabs[i], tabs[j], tabs[k]), &r, model::ite(tabs[i], tabs[j], tabs[k], n), mism);
                }
            }
        }
        println!("suite {} order {o} ite digest {:016x}", K::NAME, d.0);
        let mut d = Dig::new();
        K::extra(&mref, &fns, &tabs, &o, &mut d, mism);
        println!("suite {} order {o} extended-api digest {:016x}", K::NAME, d.0);
        let mut d = Dig::new();
        for (i, f) in fns.iter().enumerate() {
            record::<K>(&mut d, &format!("order {o} not({:#x})", tabs[i]), &f.not(), model::not(tabs[i], n), mism);
            for a in 0..8u32 {
                d.add(f.eval((0..n).map(|v| (v, (a >> v) & 1 == 1))) as u64);
            }
        }
        let collected = mref.with_manager_shared(|m| m.gc());
        d.add(collected as u64);
        d.add(mref.with_manager_shared(|m| m.num_inner_nodes()) as u64);
        let live: Vec<&K::F> = fns.iter().collect();
        let info = K::audit(&mref, &live, true);
        d.add(info.errors.len() as u64);
        for e in info.errors.iter().take(3) {
            println!("MISMATCH {} order {o} audit: {e}", K::NAME);
            *mism += 1;
        }
        println!("suite {} order {o} unary+gc digest {:016x} (gc collected {collected}, nodes {})", K::NAME, d.0, info.inner_nodes);
    }
}

/// the rest of the Boolean API surface (the MT and non-MT function wrappers implement every
/// trait method separately, so each method is exercised in each build)
trait Ext: BoolKind {
    fn extra(mref: &MRefOf<Self>, fns: &[Self::F], tabs: &[Tab], o: &str, d: &mut Dig, mism: &mut u64);
}

fn quant_suite<K: BoolKind>(mref: &MRefOf<K>, fns: &[K::F], tabs: &[Tab], o: &str, d: &mut Dig, mism: &mut u64)
where
    K::F: oxidd::BooleanFunctionQuant + oxidd::FunctionSubst,
{
    use oxidd::{BooleanFunctionQuant, BooleanOperator, FunctionSubst, Subst};
    let n = 3;
    for vars in 0..8u32 {
        let cube = K::build(mref, model::cube_tab(vars, 0, n)).unwrap();
        for (i, f) in fns.iter().enumerate() {
            record::<K>(d, &format!("order {o} exists({:#x},{vars})", tabs[i]), &f.exists(&cube), model::exists(tabs[i], vars, n), mism);
            record::<K>(d, &format!("order {o} forall({:#x},{vars})", tabs[i]), &f.forall(&cube), model::forall(tabs[i], vars, n), mism);
            record::<K>(d, &format!("order {o} unique({:#x},{vars})", tabs[i]), &f.unique(&cube), model::unique(tabs[i], vars, n), mism);
            let j = (i * 7 + 3) % fns.len();
            record::<K>(d, &format!("order {o} apply_exists_and({:#x},{:#x},{vars})", tabs[i], tabs[j]), &f.apply_exists(BooleanOperator::And, &fns[j], &cube), model::exists(tabs[i] & tabs[j], vars, n), mism);
            record::<K>(d, &format!("order {o} apply_forall_or({:#x},{:#x},{vars})", tabs[i], tabs[j]), &f.apply_forall(BooleanOperator::Or, &fns[j], &cube), model::forall(tabs[i] | tabs[j], vars, n), mism);
            record::<K>(d, &format!("order {o} apply_unique_xor({:#x},{:#x},{vars})", tabs[i], tabs[j]), &f.apply_unique(BooleanOperator::Xor, &fns[j], &cube), model::unique(tabs[i] ^ tabs[j], vars, n), mism);
        }
    }
    // substitution: x0 := f_a, x2 := f_b for a few (a, b)
    for (a, b) in [(3usize, 11usize), (20, 5), (40, 41)] {
        // every substitution object is created by a short-lived thread of its own (a client thread's first one)
        let s = std::thread::scope(|sc| sc.spawn(|| Subst::new(vec![0u32, 2], vec![fns[a].clone(), fns[b].clone()])).join().unwrap());
        for (i, f) in fns.iter().enumerate() {
            let exp = model::substitute(tabs[i], &[Some(tabs[a]), None, Some(tabs[b])], n);
            record::<K>(d, &format!("order {o} substitute({:#x};{:#x},{:#x})", tabs[i], tabs[a], tabs[b]), &f.substitute(&s), exp, mism);
        }
    }
}

fn common_suite<K: BoolKind>(mref: &MRefOf<K>, fns: &[K::F], tabs: &[Tab], o: &str, d: &mut Dig, mism: &mut u64) {
    use oxidd::util::{OptBool, SatCountCache};
    let n = 3;
    let zb = K::NAME == "zbdd";
    for pos in 0..8u32 {
        for neg in 0..8u32 {
            if pos & neg != 0 {
                continue;
            }
            let cube = K::build(mref, model::cube_tab(pos, neg, n)).unwrap();
            for (i, f) in fns.iter().enumerate() {
                record::<K>(d, &format!("order {o} restrict({:#x},+{pos},-{neg})", tabs[i]), &f.restrict(&cube), model::restrict(tabs[i], pos, neg, n), mism);
                if i % 2 == 1 {
                    continue;
                }
                let r = f.pick_cube_dd_set(&cube);
                if let Ok(h) = &r {
                    let t = K::table(h).unwrap_or(u64::MAX);
                    d.add(t);
                    if (tabs[i] == 0) != (t == 0) || t & !tabs[i] != 0 {
                        println!("MISMATCH {} order {o} pick_cube_dd_set({:#x}) = {t:#x}", K::NAME, tabs[i]);
                        *mism += 1;
                    }
                }
            }
        }
    }
    // restrictions of ALL 256 functions, cubes in ascending and then in descending order (what an earlier
    // call left in the apply cache differs)
    {
        let all: Vec<K::F> = (0..256u64).map(|t| K::build(mref, t).unwrap()).collect();
        let mut cubes: Vec<(u32, u32)> = vec![];
        for pos in 0..8u32 {
            for neg in 0..8u32 {
                if pos & neg == 0 {
                    cubes.push((pos, neg));
                }
            }
        }
        let back: Vec<(u32, u32)> = cubes.iter().rev().copied().collect();
        for (pass, list) in [("asc", &cubes), ("desc", &back)] {
            for &(pos, neg) in list.iter() {
                let cube = &all[model::cube_tab(pos, neg, n) as usize];
                for (t, f) in all.iter().enumerate() {
                    record::<K>(d, &format!("order {o} restrict-{pass}({t:#x},+{pos},-{neg})"), &f.restrict(cube), model::restrict(t as Tab, pos, neg, n), mism);
                }
            }
        }
    }
    let mut cache: SatCountCache<oxidd::util::num::Saturating<u64>, std::hash::BuildHasherDefault<oxidd::util::FxHasher>> = SatCountCache::default();
    for (i, f) in fns.iter().enumerate() {
        let c = f.sat_count(3, &mut cache).0;
        d.add(c);
        if c != tabs[i].count_ones() as u64 {
            println!("MISMATCH {} order {o} sat_count({:#x}) = {c}", K::NAME, tabs[i]);
            *mism += 1;
        }
        for cv in [0u32, 5, 7] {
            let cube = f.pick_cube(|_, _, l| (cv >> l) & 1 == 1);
            match cube {
                None => d.add(99),
                Some(c) => {
                    for x in &c {
                        d.add(match x {
                            OptBool::None => 2,
                            OptBool::False => 0,
                            OptBool::True => 1,
                        });
                    }
                }
            }
            let r = f.pick_cube_dd(|_, _, l| (cv >> l) & 1 == 1);
            if let Ok(h) = &r {
                d.add(K::table(h).unwrap_or(u64::MAX));
            }
        }
        if let Some((a, b)) = f.cofactors() {
            d.add(K::table(&a).unwrap_or(u64::MAX));
            d.add(K::table(&b).unwrap_or(u64::MAX));
        }
        d.add(f.satisfiable() as u64 + 2 * f.valid() as u64);
    }
    let _ = zb;
}

impl Ext for Bdd {
    fn extra(mref: &MRefOf<Self>, fns: &[Self::F], tabs: &[Tab], o: &str, d: &mut Dig, mism: &mut u64) {
        quant_suite::<Bdd>(mref, fns, tabs, o, d, mism);
        common_suite::<Bdd>(mref, fns, tabs, o, d, mism);
    }
}
impl Ext for Bcdd {
    fn extra(mref: &MRefOf<Self>, fns: &[Self::F], tabs: &[Tab], o: &str, d: &mut Dig, mism: &mut u64) {
        quant_suite::<Bcdd>(mref, fns, tabs, o, d, mism);
        common_suite::<Bcdd>(mref, fns, tabs, o, d, mism);
    }
}
impl Ext for Zbdd {
    fn extra(mref: &MRefOf<Self>, fns: &[Self::F], tabs: &[Tab], o: &str, d: &mut Dig, mism: &mut u64) {
        use oxidd::BooleanVecSet;
        let n = 3;
        common_suite::<Zbdd>(mref, fns, tabs, o, d, mism);
        for (i, f) in fns.iter().enumerate() {
            for v in 0..n {
                record::<Zbdd>(d, &format!("order {o} subset0({:#x},{v})", tabs[i]), &f.subset0(v), model::fam_subset0(tabs[i], v, n), mism);
                record::<Zbdd>(d, &format!("order {o} subset1({:#x},{v})", tabs[i]), &f.subset1(v), model::fam_subset1(tabs[i], v, n), mism);
                record::<Zbdd>(d, &format!("order {o} change({:#x},{v})", tabs[i]), &f.change(v), model::fam_change(tabs[i], v, n), mism);
            }
            for (j, g) in fns.iter().enumerate().step_by(5) {
                record::<Zbdd>(d, &format!("order {o} union({:#x},{:#x})", tabs[i], tabs[j]), &f.union(g), tabs[i] | tabs[j], mism);
                record::<Zbdd>(d, &format!("order {o} intsec({:#x},{:#x})", tabs[i], tabs[j]), &f.intsec(g), tabs[i] & tabs[j], mism);
                record::<Zbdd>(d, &format!("order {o} diff({:#x},{:#x})", tabs[i], tabs[j]), &f.diff(g), tabs[i] & !tabs[j], mism);
            }
        }
        mref.with_manager_shared(|m| {
            for v in 0..n {
                record::<Zbdd>(d, &format!("order {o} singleton({v})"), &<Self as BoolKind>::F::singleton(m, v), 1 << (1 << v), mism);
            }
        });
    }
}

const NA: usize = 12;

fn histories<K: BoolKind>(threads: u32, depth: usize, mism: &mut u64) {
    for first in 0..NA {
        let mut d = Dig::new();
        let mut count = 0u64;
        for code in 0..NA.pow(depth as u32 - 1) {
            let mut acts = vec![first];
            let mut c = code;
            for _ in 1..depth {
                acts.push(c % NA);
                c /= NA;
            }
            // model + implementation
            let mut n = 3u32;
            let mut order: Vec<u32> = vec![0, 1, 2];
            proto::throttle_threads();
            let mref: MRefOf<K> = K::new_manager(64, 16, threads);
            // housekeeping collections while there is nothing to collect (no variable yet / no function yet)
            mref.with_manager_shared(|m| m.gc());
            mref.with_manager_exclusive(|m| {
                m.add_vars(3);
            });
            mref.with_manager_shared(|m| m.gc());
            if threads > 1 {
                K::set_split_depth(&mref, Some(2));
            }
            let mut tabs: [Option<Tab>; 3] = [Some(model::var_tab(0, 3)), Some(model::var_tab(1, 3)), Some(model::var_tab(2, 3))];
            let mut regs: [Option<K::F>; 3] = [None, None, None];
            for i in 0..3 {
                regs[i] = Some(K::build(&mref, tabs[i].unwrap()).unwrap());
            }
            let mut dead = false;
            // one model-count cache for the whole history (it must notice every gc and reordering itself)
            let mut sat_cache: oxidd::util::SatCountCache<oxidd::util::num::Saturating<u64>, std::hash::BuildHasherDefault<oxidd::util::FxHasher>> = oxidd::util::SatCountCache::default();
            for &a in &acts {
                let have = |r: usize| tabs[r].is_some();
                let enabled = match a {
                    0 | 2 => have(0) && have(1),
                    1 => have(0) && have(2),
                    3 => have(0) && have(1) && have(2),
                    4 | 5 | 6 => have(0),
                    7 => have(1),
                    9 => n < 5,
                    _ => true,
                };
                if !enabled {
                    dead = true;
                    break;
                }
                let full = model::full(n);
                match a {
                    0 => {
                        regs[0] = regs[0].as_ref().unwrap().and(regs[1].as_ref().unwrap()).ok();
                        tabs[0] = Some(tabs[0].unwrap() & tabs[1].unwrap());
                    }
                    1 => {
                        regs[1] = regs[0].as_ref().unwrap().xor(regs[2].as_ref().unwrap()).ok();
                        tabs[1] = Some(tabs[0].unwrap() ^ tabs[2].unwrap());
                    }
                    2 => {
                        regs[2] = regs[0].as_ref().unwrap().imp(regs[1].as_ref().unwrap()).ok();
                        tabs[2] = Some((!tabs[0].unwrap() | tabs[1].unwrap()) & full);
                    }
                    3 => {
                        regs[0] = regs[2].as_ref().unwrap().ite(regs[0].as_ref().unwrap(), regs[1].as_ref().unwrap()).ok();
                        tabs[0] = Some(model::ite(tabs[2].unwrap(), tabs[0].unwrap(), tabs[1].unwrap(), n));
                    }
                    4 => {
                        regs[0] = regs[0].as_ref().unwrap().not().ok();
                        tabs[0] = Some(!tabs[0].unwrap() & full);
                    }
                    5 => {
                        regs[2] = regs[0].clone();
                        tabs[2] = tabs[0];
                    }
                    6 => {
                        regs[0] = None;
                        tabs[0] = None;
                    }
                    7 => {
                        regs[1] = None;
                        tabs[1] = None;
                    }
                    8 => {
                        let c = mref.with_manager_shared(|m| m.gc());
                        d.add(c as u64);
                    }
                    9 => {
                        mref.with_manager_exclusive(|m| {
                            m.add_vars(1);
                        });
                        let zb = K::NAME == "zbdd";
                        for t in tabs.iter_mut().flatten() {
                            *t = if zb { *t } else { *t | (*t << (1u32 << n)) };
                        }
                        order.push(n);
                        n += 1;
                        regs[1] = mref.with_manager_shared(|m| K::F::var(m, n - 1).ok());
                        tabs[1] = Some(model::var_tab(n - 1, n));
                    }
                    10 => {
                        order.reverse();
                        K::set_order(&mref, &order);
                    }
                    _ => {
                        order.rotate_left(1);
                        K::set_order(&mref, &order);
                    }
                }
                // observations after the step
                let cur: Vec<u32> = mref.with_manager_shared(|m| (0..m.num_levels()).map(|l| m.level_to_var(l)).collect());
                for v in &cur {
                    d.add(*v as u64);
                }
                for r in 0..3 {
                    match (&regs[r], tabs[r]) {
                        (Some(f), Some(t)) => {
                            let got = K::table(f);
                            d.add(*got.as_ref().unwrap_or(&u64::MAX));
                            d.add(f.node_count() as u64);
                            if got != Ok(t) {
                                println!("MISMATCH {} history {acts:?} register {r}: {got:x?}, model {t:#x}", K::NAME);
                                *mism += 1;
                            }
                            let cnt = f.sat_count(n, &mut sat_cache).0;
                            d.add(cnt);
                            if cnt != t.count_ones() as u64 {
                                println!("MISMATCH {} history {acts:?} register {r}: sat_count with the history's cache = {cnt}, the table {t:#x} has {} models", K::NAME, t.count_ones());
                                *mism += 1;
                            }
                        }
                        (None, None) => d.add(7),
                        _ => {
                            println!("MISMATCH {} history {acts:?}: operation failed (OutOfMemory) on an ample manager", K::NAME);
                            *mism += 1;
                            tabs[r] = None;
                        }
                    }
                }
                let live: Vec<&K::F> = regs.iter().flatten().collect();
                let info = K::audit(&mref, &live, true);
                d.add(info.errors.len() as u64);
                d.add(info.reachable as u64);
                if let Some(e) = info.errors.first() {
                    println!("MISMATCH {} history {acts:?} audit: {e}", K::NAME);
                    *mism += 1;
                }
            }
            if !dead {
                count += 1;
                // teardown: gc leaves exactly the reachable nodes
                let c = mref.with_manager_shared(|m| {
                    m.gc();
                    m.num_inner_nodes()
                });
                d.add(c as u64);
            }
        }
        println!("hist {} first {first} depth {depth} histories {count} digest {:016x}", K::NAME, d.0);
    }
}

// ---- TDD (n = 1, all operand tuples) ---------------------------------------------

mod tddw {
    use oxidd::tdd::TDDFunction;
    use oxidd::{Function, HasLevel, InnerNode, Manager, ManagerRef, Node, TVLFunction};
    use oxidd_core::DiagramRules;
    use oxidd_rules_tdd::TDDTerminal;

    fn val(t: &TDDTerminal) -> u64 {
        match t {
            TDDTerminal::False => 0,
            TDDTerminal::Unknown => 1,
            TDDTerminal::True => 2,
        }
    }
    fn table<M: Manager<Terminal = TDDTerminal>>(m: &M, e: &M::Edge) -> u64
    where
        M::InnerNode: HasLevel,
    {
        use std::borrow::Borrow;
        // n = 1: three points; digits base 4
        let mut r = 0;
        for a in 0..3u64 {
            let v = match m.get_node(e) {
                Node::Terminal(t) => val(t.borrow()),
                Node::Inner(node) => {
                    let c = node.child((2 - a) as usize);
                    match m.get_node(&*c) {
                        Node::Terminal(t) => val(t.borrow()),
                        Node::Inner(_) => 3,
                    }
                }
            };
            r |= v << (2 * a);
        }
        r
    }
    pub fn run(threads: u32, mism: &mut u64) {
        let mref = oxidd::tdd::new_manager(256, 64, threads);
        mref.with_manager_exclusive(|m| {
            m.add_vars(1);
        });
        let mut fns: Vec<TDDFunction> = vec![];
        mref.with_manager_shared(|m| {
            for code in 0..27u32 {
                let d = [code % 3, (code / 3) % 3, code / 9];
                let term = |x: u32| m.get_terminal([TDDTerminal::False, TDDTerminal::Unknown, TDDTerminal::True][x as usize]).unwrap();
                // children order: true, unknown, false
                let e = <<<TDDFunction as Function>::Manager<'_> as Manager>::Rules as DiagramRules<_, _, _>>::reduce(m, 0, [term(d[2]), term(d[1]), term(d[0])]).then_insert(m, 0).unwrap();
                let f = TDDFunction::from_edge(m, e);
                let exp = (d[0] as u64) | ((d[1] as u64) << 2) | ((d[2] as u64) << 4);
                let got = table(m, f.as_edge(m));
                if got != exp {
                    println!("MISMATCH tdd build {code}: {got:#x} vs {exp:#x}");
                    *mism += 1;
                }
                fns.push(f);
            }
        });
        let mut d = super::Dig::new();
        for f in &fns {
            for g in &fns {
                for r in [f.and(g), f.or(g), f.xor(g), f.equiv(g), f.nand(g), f.nor(g), f.imp(g), f.imp_strict(g)] {
                    match r {
                        Ok(h) => {
                            d.add(h.with_manager_shared(|m, e| table(m, e)));
                            d.add(h.node_count() as u64);
                        }
                        Err(_) => d.add(u64::MAX),
                    }
                }
            }
        }
        println!("suite tdd n=1 binary digest {:016x}", d.0);
        let mut d = super::Dig::new();
        for f in &fns {
            for g in &fns {
                for h in &fns {
                    match f.ite(g, h) {
                        Ok(r) => d.add(r.with_manager_shared(|m, e| table(m, e))),
                        Err(_) => d.add(u64::MAX),
                    }
                }
            }
        }
        println!("suite tdd n=1 ite digest {:016x}", d.0);
    }
}

fn main() {
    let args: Vec<String> = std::env::args().collect();
    let threads: u32 = args.get(1).and_then(|s| s.parse().ok()).unwrap_or(1);
    let depth: usize = args.get(2).and_then(|s| s.parse().ok()).unwrap_or(3);
    let mut mism = 0u64;
    // reorderings go through the concurrent bubble sort / parallel level update wherever the build has one
    // (it is otherwise only selected from 65536 nodes on); the observable result must not depend on it
    oxidd_reorder::VERIF_FORCE_CONCURRENT.store(true, std::sync::atomic::Ordering::Relaxed);
    names_suite::<Bdd>(threads);
    names_suite::<Bcdd>(threads);
    names_suite::<Zbdd>(threads);
    suites::<Bdd>(threads, &mut mism);
    suites::<Bcdd>(threads, &mut mism);
    suites::<Zbdd>(threads, &mut mism);
    histories::<Bdd>(threads, depth, &mut mism);
    histories::<Bcdd>(threads, depth, &mut mism);
    histories::<Zbdd>(threads, depth, &mut mism);
    tddw::run(threads, &mut mism);
    println!("END mismatches {mism}");
}
