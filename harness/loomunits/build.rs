//! Derives loom-checkable copies of two units of /repo from their source text:
//!  * the spin lock guarding the apply-cache buckets (`oxidd-cache/src/util.rs`, struct `RawMutex`),
//!  * the generator of substitution ids (`oxidd-core/src/util/substitution.rs`, `new_substitution_id`).
//! Only what loom cannot express is rewritten (const initialisers, the lock_api trait wrapper, cfg
//! attributes); the bodies of lock / try_lock / unlock / new_substitution_id are copied verbatim.
//! If the expected anchors are not found the build fails (a machinery error, never a verdict).

use std::{env, fs, path::PathBuf};

fn between<'a>(s: &'a str, start: &str, end: &str) -> &'a str {
    let a = s.find(start).unwrap_or_else(|| panic!("loomunits: anchor {start:?} not found"));
    let rest = &s[a..];
    let b = rest.find(end).unwrap_or_else(|| panic!("loomunits: end anchor {end:?} not found"));
    &rest[..b]
}

/// remove `#[cfg(oxidd_verif)]` + the following item/statement/block
fn strip_verif(src: &str) -> String {
    let mut out = String::new();
    let mut lines = src.lines().peekable();
    while let Some(l) = lines.next() {
        if l.trim() == "#[cfg(oxidd_verif)]" {
            // drop the attribute and the statement that follows (up to the line that closes it)
            let first = lines.next().unwrap_or("");
            let mut depth: i32 = first.matches(['{', '(']).count() as i32 - first.matches(['}', ')']).count() as i32;
            let mut done = depth <= 0 && first.trim_end().ends_with(';');
            while !done {
                let Some(n) = lines.next() else { break };
                depth += n.matches(['{', '(']).count() as i32 - n.matches(['}', ')']).count() as i32;
                if depth <= 0 {
                    done = true;
                }
            }
            continue;
        }
        out.push_str(l);
        out.push('\n');
    }
    out
}

fn main() {
    let out = PathBuf::from(env::var("OUT_DIR").unwrap());
    let repo = env::var("LOOMUNITS_REPO").unwrap_or_else(|_| "/repo".into());

    // ---- spin lock --------------------------------------------------------------------------------
    let p = format!("{repo}/crates/oxidd-cache/src/util.rs");
    println!("cargo:rerun-if-changed={p}");
    let src = fs::read_to_string(&p).expect("loomunits: cannot read oxidd-cache/src/util.rs");
    let body = between(&src, "unsafe impl parking_lot::lock_api::RawMutex for RawMutex {", "\n}\n");
    let mut body = strip_verif(body);
    body = body.replace("unsafe impl parking_lot::lock_api::RawMutex for RawMutex {", "impl RawMutex {");
    // const initialiser and marker type of the trait: not expressible / not needed under loom
    let mut cleaned = String::new();
    let mut skip_next_const = false;
    for l in body.lines() {
        let t = l.trim();
        if t.starts_with("const INIT") || t.starts_with("type GuardMarker") || t.starts_with("#[allow(clippy::declare_interior_mutable_const)]") {
            skip_next_const = false;
            continue;
        }
        let _ = skip_next_const;
        cleaned.push_str(&l.replace("    fn lock(&self)", "    pub fn lock(&self)").replace("    fn try_lock(&self)", "    pub fn try_lock(&self)").replace("    unsafe fn unlock(&self)", "    pub unsafe fn unlock(&self)"));
        cleaned.push('\n');
    }
    let cleaned = cleaned.replace("std::hint::spin_loop()", "loom::thread::yield_now()");
    for needle in ["pub fn lock(&self)", "pub fn try_lock(&self)", "pub unsafe fn unlock(&self)"] {
        assert!(cleaned.contains(needle), "loomunits: {needle} not found after the rewrite");
    }
    // `lock()` spins until it succeeds. The C11 memory model (and therefore loom) allows the unlocking
    // store to stay invisible to the spinning read-modify-write for arbitrarily many iterations, so the
    // loop is unrolled a fixed number of times: `lock_bounded(n)` is the body of `lock()` with
    // `loop` -> `for _ in 0..n` and `return` -> `return true`, giving up (false) after n attempts.
    let lock_fn = between(&cleaned, "    pub fn lock(&self) {", "\n    }\n");
    let mut bounded = lock_fn.replace("    pub fn lock(&self) {", "    pub fn lock_bounded(&self, attempts: usize) -> bool {");
    assert!(bounded.contains("loop {") && bounded.contains("return;"), "loomunits: lock() is not the expected `loop {{ .. return; }}`");
    bounded = bounded.replace("loop {", "for _ in 0..attempts {").replace("return;", "return true;");
    bounded.push_str("\n        false\n    }\n");
    let text = format!(
        "use loom::sync::atomic::{{AtomicBool, Ordering}};\npub struct RawMutex(AtomicBool);\nimpl RawMutex {{ pub fn new() -> Self {{ Self(AtomicBool::new(false)) }} }}\n{cleaned}}}\nimpl RawMutex {{\n{bounded}}}\n"
    );
    fs::write(out.join("spinlock.rs"), text).unwrap();

    // ---- substitution ids ---------------------------------------------------------------------------
    let p = format!("{repo}/crates/oxidd-core/src/util/substitution.rs");
    println!("cargo:rerun-if-changed={p}");
    let src = fs::read_to_string(&p).expect("loomunits: cannot read substitution.rs");
    let f = between(&src, "pub fn new_substitution_id() -> u32 {", "\n}\n");
    // everything between the start of the file and the function that is not an import of the crate itself
    let head = &src[..src.find("/// Generate a new, globally unique substitution ID").unwrap_or_else(|| src.find("pub fn new_substitution_id").unwrap())];
    let mut prelude = String::new();
    for l in head.lines() {
        let t = l.trim();
        if t.starts_with("use std::sync::atomic") {
            prelude.push_str(&l.replace("std::sync::atomic", "loom::sync::atomic"));
            prelude.push('\n');
        } else if t.starts_with("use std::cell") {
            // thread-local state is plain (unshared) data under loom as well
            prelude.push_str(l);
            prelude.push('\n');
        } else if t.starts_with("use std::") || t.starts_with("use crate::") || t.is_empty() || t.starts_with("//") {
            // other imports are not needed by the id generator
        } else {
            // helper items in front of the function (e.g. thread-local state) are kept
            prelude.push_str(l);
            prelude.push('\n');
        }
    }
    // statics cannot be initialised with loom atomics in a const context
    let mut fun = String::new();
    for l in f.lines() {
        let t = l.trim();
        if t.starts_with("static ") && t.contains("Atomic") && t.contains("::new(") {
            // static ID: AtomicU64 = AtomicU64::new(0);  ->  loom::lazy_static! { static ref ID: AtomicU64 = AtomicU64::new(0); }
            let inner = t.trim_start_matches("static ");
            fun.push_str(&format!("    loom::lazy_static! {{ static ref {inner} }}\n"));
        } else {
            fun.push_str(l);
            fun.push('\n');
        }
    }
    // thread-local statics: loom's own macro (one instance per modelled thread); it has no `const { .. }` form
    let mut fun = fun.replace("thread_local!", "loom::thread_local!");
    if fun.contains("loom::thread_local!") {
        fun = fun.replace("= const { ", "= ").replace(") };", ");");
    }
    let text = format!("{prelude}\n{fun}}}\n");
    fs::write(out.join("subst_id.rs"), text).unwrap();
}
