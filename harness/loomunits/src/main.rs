//! `loomrun spinlock <styles: l|t per thread> <bound|none>` / `loomrun substid <threads> <ids per thread> <bound|none>`
//! / `loomrun src spinlock|substid`. Prints `OK <executions>` (exit 0) or `FAIL <message>` (exit 1).
//! A separate binary, so that a change of /repo's source text which the derivation in build.rs cannot digest
//! only takes away the loom shards (machinery error there) and not the whole harness.

use std::panic::{AssertUnwindSafe, catch_unwind};

fn bound(s: &str) -> Option<usize> {
    if s == "none" { None } else { Some(s.parse().expect("bound")) }
}

fn main() {
    let a: Vec<String> = std::env::args().skip(1).collect();
    let a: Vec<&str> = a.iter().map(|s| s.as_str()).collect();
    if a.len() == 2 && a[0] == "src" {
        print!("{}", if a[1] == "spinlock" { loomunits::SPINLOCK_SRC } else { loomunits::SUBST_ID_SRC });
        return;
    }
    let msg = std::sync::Arc::new(std::sync::Mutex::new(String::new()));
    let m2 = msg.clone();
    std::panic::set_hook(Box::new(move |info| {
        let s = if let Some(s) = info.payload().downcast_ref::<&str>() {
            s.to_string()
        } else if let Some(s) = info.payload().downcast_ref::<String>() {
            s.clone()
        } else {
            "<non-string panic payload>".into()
        };
        let loc = info.location().map(|l| format!("{}:{}", l.file(), l.line())).unwrap_or_default();
        let mut g = m2.lock().unwrap();
        if g.is_empty() {
            *g = format!("{loc}: {}", s.lines().next().unwrap_or(""));
        }
    }));
    let r = catch_unwind(AssertUnwindSafe(|| match a.as_slice() {
        ["spinlock", styles, b] => loomunits::check_spinlock(&styles.chars().map(|c| c == 't').collect::<Vec<_>>(), bound(b)),
        ["substid", t, k, b] => loomunits::check_subst_ids(t.parse().unwrap(), k.parse().unwrap(), bound(b)),
        _ => {
            eprintln!("usage: loomrun spinlock <styles> <bound|none> | substid <t> <k> <bound|none> | src <unit>");
            std::process::exit(2)
        }
    }));
    match r {
        Ok(n) => println!("OK {n}"),
        Err(_) => {
            println!("FAIL {}", msg.lock().unwrap());
            std::process::exit(1)
        }
    }
}
