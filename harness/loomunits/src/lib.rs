//! loom models (exhaustive over interleavings and the C11 memory model's weak behaviours) of two small
//! lock-free units whose code is derived from /repo's sources by build.rs.

use std::sync::atomic::{AtomicUsize, Ordering as StdOrdering};

pub mod spinlock {
    include!(concat!(env!("OUT_DIR"), "/spinlock.rs"));
}
#[allow(unused_imports, dead_code)]
pub mod subst_id {
    include!(concat!(env!("OUT_DIR"), "/subst_id.rs"));
}

/// the generated source texts (for the evidence / debugging)
pub const SPINLOCK_SRC: &str = include_str!(concat!(env!("OUT_DIR"), "/spinlock.rs"));
pub const SUBST_ID_SRC: &str = include_str!(concat!(env!("OUT_DIR"), "/subst_id.rs"));

fn builder(preemption_bound: Option<usize>) -> loom::model::Builder {
    let mut b = loom::model::Builder::new();
    b.preemption_bound = preemption_bound;
    b.max_branches = 100_000;
    b
}

/// Mutual exclusion of the apply-cache bucket lock: `threads` threads run the given mix of acquisition
/// styles (false = `lock()`, true = `try_lock()`, giving up if it fails) around a non-atomic counter in a
/// loom `UnsafeCell` (loom reports every concurrent access to it). Returns the number of executions.
pub fn check_spinlock(styles: &[bool], preemption_bound: Option<usize>) -> usize {
    use loom::cell::UnsafeCell;
    use loom::sync::Arc;
    let execs = std::sync::Arc::new(AtomicUsize::new(0));
    let e2 = execs.clone();
    let styles = styles.to_vec();
    builder(preemption_bound).check(move || {
        e2.fetch_add(1, StdOrdering::Relaxed);
        let lock = Arc::new(spinlock::RawMutex::new());
        let cell = Arc::new(UnsafeCell::new(0usize));
        let entered = Arc::new(loom::sync::atomic::AtomicUsize::new(0));
        let hs: Vec<_> = styles
            .iter()
            .map(|&try_style| {
                let (lock, cell, entered) = (lock.clone(), cell.clone(), entered.clone());
                loom::thread::spawn(move || {
                    // (lock(): at most two acquisition attempts, see build.rs)
                    let got = if try_style { lock.try_lock() } else { lock.lock_bounded(2) };
                    if got {
                        // SAFETY (of the model): exclusive access is exactly what is being checked
                        cell.with_mut(|p| unsafe { *p += 1 });
                        entered.fetch_add(1, loom::sync::atomic::Ordering::Relaxed);
                        unsafe { lock.unlock() };
                    }
                })
            })
            .collect();
        for h in hs {
            h.join().unwrap();
        }
        let n = cell.with(|p| unsafe { *p });
        assert_eq!(n, entered.load(loom::sync::atomic::Ordering::Relaxed), "an increment inside the critical section was lost");
    });
    execs.load(StdOrdering::Relaxed)
}

/// Uniqueness of substitution ids handed out to `threads` threads (`per_thread` ids each).
pub fn check_subst_ids(threads: usize, per_thread: usize, preemption_bound: Option<usize>) -> usize {
    let execs = std::sync::Arc::new(AtomicUsize::new(0));
    let e2 = execs.clone();
    builder(preemption_bound).check(move || {
        e2.fetch_add(1, StdOrdering::Relaxed);
        let hs: Vec<_> = (0..threads)
            .map(|_| loom::thread::spawn(move || (0..per_thread).map(|_| subst_id::new_substitution_id()).collect::<Vec<u32>>()))
            .collect();
        let mut all: Vec<u32> = vec![];
        for h in hs {
            all.extend(h.join().unwrap());
        }
        let n = all.len();
        all.sort();
        all.dedup();
        assert_eq!(all.len(), n, "two calls of new_substitution_id() returned the same id");
    });
    execs.load(StdOrdering::Relaxed)
}
