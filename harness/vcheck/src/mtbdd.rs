//! MTBDD adapter and reference model (C10).
//!
//! * Reference model (no dependency on the code under test for its answers):
//!   `Num` = exact integer (computed in `i128`) with +inf/-inf/NaN and my own
//!   implementation of the documented rules; `Fl` = host IEEE-754 `f64` with
//!   every NaN mapped to the canonical quiet NaN and -0.0 mapped to 0.0.
//! * Adapter: manager creation for `MTBDDFunction<I64>` / `MTBDDFunction<F64>`,
//!   a value-table -> diagram builder that goes through
//!   `DiagramRules::reduce(..).then_insert(..)` + `Manager::get_terminal` (not
//!   through the operators under test), my own interpreter (value table of a
//!   handle, read through `Manager::get_node` only) and the structural audit
//!   (`dd::audit_raw`).
//!
//! A value table over n variables is a `Vec<N>` of length 2^n; entry `a` is
//! the value under the assignment in which variable `v` has value
//! `(a >> v) & 1`.

#![allow(dead_code)]

use std::cmp::Ordering;
use std::fmt::Debug;
use std::hash::Hash;

use oxidd::mtbdd::terminal::{F64, I64};
use oxidd::mtbdd::{MTBDDFunction, MTBDDManagerRef};
use oxidd::{Edge, Function, HasLevel, InnerNode, LevelNo, Manager, ManagerRef, Node, PseudoBooleanFunction};
use oxidd_core::function::NumberBase;
use oxidd_core::util::AllocResult;
use oxidd_core::DiagramRules;

use crate::dd::{AKind, AuditInfo, RawEdge, audit_raw, raw_edge};

// ---------------------------------------------------------------------------
// reference model
// ---------------------------------------------------------------------------

/// A model number: the operations a terminal type has to implement, written
/// down independently of /repo.
pub trait MNum: Copy + Eq + Hash + Debug + Send + Sync + 'static {
    fn zero() -> Self;
    fn one() -> Self;
    fn nan() -> Self;
    fn add(self, o: Self) -> Self;
    fn sub(self, o: Self) -> Self;
    fn mul(self, o: Self) -> Self;
    fn div(self, o: Self) -> Self;
    /// `None` iff exactly one side is NaN (NaN == NaN, as documented for
    /// `NumberBase::nan`).
    fn pcmp(self, o: Self) -> Option<Ordering>;
    fn show(self) -> String;
    /// neither infinite nor NaN
    fn is_finite(self) -> bool;
    fn is_nan(self) -> bool {
        self == Self::nan()
    }
    /// point-wise minimum; NaN if either side is NaN
    fn mmin(self, o: Self) -> Self {
        match self.pcmp(o) {
            None => Self::nan(),
            Some(Ordering::Greater) => o,
            Some(_) => self,
        }
    }
    /// point-wise maximum; NaN if either side is NaN
    fn mmax(self, o: Self) -> Self {
        match self.pcmp(o) {
            None => Self::nan(),
            Some(Ordering::Less) => o,
            Some(_) => self,
        }
    }
}

/// Exact integer in the `i64` range, extended by +inf, -inf and NaN.
#[derive(Clone, Copy, PartialEq, Eq, Hash, Debug)]
pub enum Num {
    NaN,
    NegInf,
    Int(i64),
    PosInf,
}

impl Num {
    /// the exact result if representable, else the infinity of its sign
    fn clamp(x: i128) -> Num {
        if x > i64::MAX as i128 {
            Num::PosInf
        } else if x < i64::MIN as i128 {
            Num::NegInf
        } else {
            Num::Int(x as i64)
        }
    }
    /// -1, 0, 1 (not for NaN)
    fn sign(self) -> i32 {
        match self {
            Num::NaN => unreachable!(),
            Num::NegInf => -1,
            Num::PosInf => 1,
            Num::Int(i) => (i > 0) as i32 - (i < 0) as i32,
        }
    }
    fn inf_of_sign(s: i32) -> Num {
        match s {
            1 => Num::PosInf,
            -1 => Num::NegInf,
            _ => Num::NaN,
        }
    }
    fn neg(self) -> Num {
        match self {
            Num::NaN => Num::NaN,
            Num::NegInf => Num::PosInf,
            Num::PosInf => Num::NegInf,
            Num::Int(i) => Num::clamp(-(i as i128)),
        }
    }
}

impl MNum for Num {
    fn zero() -> Self {
        Num::Int(0)
    }
    fn one() -> Self {
        Num::Int(1)
    }
    fn nan() -> Self {
        Num::NaN
    }
    fn add(self, o: Self) -> Self {
        use Num::*;
        match (self, o) {
            (NaN, _) | (_, NaN) => NaN,
            (Int(a), Int(b)) => Num::clamp(a as i128 + b as i128),
            (PosInf, NegInf) | (NegInf, PosInf) => NaN, // inf - inf
            (PosInf, _) | (_, PosInf) => PosInf,
            (NegInf, _) | (_, NegInf) => NegInf,
        }
    }
    fn sub(self, o: Self) -> Self {
        use Num::*;
        match (self, o) {
            (NaN, _) | (_, NaN) => NaN,
            (Int(a), Int(b)) => Num::clamp(a as i128 - b as i128),
            (PosInf, PosInf) | (NegInf, NegInf) => NaN, // inf - inf
            (PosInf, _) | (_, NegInf) => PosInf,
            (NegInf, _) | (_, PosInf) => NegInf,
        }
    }
    fn mul(self, o: Self) -> Self {
        use Num::*;
        match (self, o) {
            (NaN, _) | (_, NaN) => NaN,
            (Int(a), Int(b)) => Num::clamp(a as i128 * b as i128),
            // at least one side infinite: 0 * inf = NaN, else inf by sign
            (a, b) => Num::inf_of_sign(a.sign() * b.sign()),
        }
    }
    fn div(self, o: Self) -> Self {
        use Num::*;
        match (self, o) {
            (NaN, _) | (_, NaN) => NaN,
            (Int(a), Int(0)) => Num::inf_of_sign(Int(a).sign()), // x/0 = +-inf by sign of x, 0/0 = NaN
            (Int(a), Int(b)) => Num::clamp(a as i128 / b as i128), // i128 `/` truncates toward zero
            (Int(_), PosInf | NegInf) => Int(0),
            (PosInf | NegInf, PosInf | NegInf) => NaN,
            (a, Int(0)) => a, // inf/0 = inf by the sign of the dividend
            (a, b) => Num::inf_of_sign(a.sign() * b.sign()),
        }
    }
    fn pcmp(self, o: Self) -> Option<Ordering> {
        use Num::*;
        fn rank(n: Num) -> i128 {
            match n {
                NaN => unreachable!(),
                NegInf => i64::MIN as i128 - 1,
                Int(i) => i as i128,
                PosInf => i64::MAX as i128 + 1,
            }
        }
        match (self, o) {
            (NaN, NaN) => Some(Ordering::Equal),
            (NaN, _) | (_, NaN) => None,
            (a, b) => Some(rank(a).cmp(&rank(b))),
        }
    }
    fn show(self) -> String {
        match self {
            Num::NaN => "NaN".into(),
            Num::NegInf => "-inf".into(),
            Num::PosInf => "+inf".into(),
            Num::Int(i) => i.to_string(),
        }
    }
    fn is_finite(self) -> bool {
        matches!(self, Num::Int(_))
    }
}

/// `f64` as bit pattern; every value produced by `Fl::norm` is normalised
/// (one NaN, no negative zero). `Fl::raw` keeps the pattern as is (used to
/// read back a value from the code under test without hiding a
/// non-normalised pattern).
#[derive(Clone, Copy, PartialEq, Eq, Hash)]
pub struct Fl(pub u64);

impl Fl {
    pub fn norm(x: f64) -> Fl {
        if x != x {
            Fl(f64::NAN.to_bits())
        } else if x == 0.0 {
            Fl(0)
        } else {
            Fl(x.to_bits())
        }
    }
    pub fn raw(x: f64) -> Fl {
        Fl(x.to_bits())
    }
    pub fn get(self) -> f64 {
        f64::from_bits(self.0)
    }
}
impl Debug for Fl {
    fn fmt(&self, f: &mut std::fmt::Formatter<'_>) -> std::fmt::Result {
        f.write_str(&self.show())
    }
}

impl MNum for Fl {
    fn zero() -> Self {
        Fl::norm(0.0)
    }
    fn one() -> Self {
        Fl::norm(1.0)
    }
    fn nan() -> Self {
        Fl::norm(f64::NAN)
    }
    fn add(self, o: Self) -> Self {
        Fl::norm(self.get() + o.get())
    }
    fn sub(self, o: Self) -> Self {
        Fl::norm(self.get() - o.get())
    }
    fn mul(self, o: Self) -> Self {
        Fl::norm(self.get() * o.get())
    }
    fn div(self, o: Self) -> Self {
        Fl::norm(self.get() / o.get())
    }
    fn pcmp(self, o: Self) -> Option<Ordering> {
        let (a, b) = (self.get(), o.get());
        match (a != a, b != b) {
            (true, true) => Some(Ordering::Equal),
            (true, false) | (false, true) => None,
            (false, false) => a.partial_cmp(&b),
        }
    }
    fn show(self) -> String {
        let x = self.get();
        if x != x {
            if self.0 == f64::NAN.to_bits() { "NaN".into() } else { format!("NaN(bits {:#x})", self.0) }
        } else if x == f64::INFINITY {
            "+inf".into()
        } else if x == f64::NEG_INFINITY {
            "-inf".into()
        } else {
            format!("{x:?}")
        }
    }
    fn is_finite(self) -> bool {
        self.get().is_finite()
    }
}

/// the binary operators of `PseudoBooleanFunction`
#[derive(Clone, Copy, PartialEq, Eq, Debug, Hash, PartialOrd, Ord)]
pub enum MOp {
    Add,
    Sub,
    Mul,
    Div,
    Min,
    Max,
}

pub const MOPS: [MOp; 6] = [MOp::Add, MOp::Sub, MOp::Mul, MOp::Div, MOp::Min, MOp::Max];

impl MOp {
    pub fn name(self) -> &'static str {
        match self {
            MOp::Add => "add",
            MOp::Sub => "sub",
            MOp::Mul => "mul",
            MOp::Div => "div",
            MOp::Min => "min",
            MOp::Max => "max",
        }
    }
    /// model: scalar
    pub fn model<N: MNum>(self, a: N, b: N) -> N {
        match self {
            MOp::Add => a.add(b),
            MOp::Sub => a.sub(b),
            MOp::Mul => a.mul(b),
            MOp::Div => a.div(b),
            MOp::Min => a.mmin(b),
            MOp::Max => a.mmax(b),
        }
    }
    /// model: point-wise lifting
    pub fn lift<N: MNum>(self, f: &[N], g: &[N]) -> Vec<N> {
        f.iter().zip(g).map(|(&a, &b)| self.model(a, b)).collect()
    }
    /// the real operator (public handle API)
    pub fn apply<F: PseudoBooleanFunction>(self, f: &F, g: &F) -> AllocResult<F> {
        match self {
            MOp::Add => PseudoBooleanFunction::add(f, g),
            MOp::Sub => PseudoBooleanFunction::sub(f, g),
            MOp::Mul => PseudoBooleanFunction::mul(f, g),
            MOp::Div => PseudoBooleanFunction::div(f, g),
            MOp::Min => PseudoBooleanFunction::min(f, g),
            MOp::Max => PseudoBooleanFunction::max(f, g),
        }
    }
}

// ---- value tables -----------------------------------------------------------

pub fn const_tab<N: MNum>(v: N, n: u32) -> Vec<N> {
    vec![v; 1usize << n]
}

/// 1 where the variable is true, 0 elsewhere
pub fn var_tab<N: MNum>(v: u32, n: u32) -> Vec<N> {
    (0..(1u32 << n)).map(|a| if (a >> v) & 1 == 1 { N::one() } else { N::zero() }).collect()
}

/// cofactor `v := val`, as a table over all n variables
pub fn cofactor<N: Copy>(t: &[N], v: u32, val: bool) -> Vec<N> {
    (0..t.len()).map(|a| t[if val { a | (1 << v) } else { a & !(1 << v) }]).collect()
}

pub fn is_const<N: MNum>(t: &[N]) -> bool {
    t.iter().all(|&x| x == t[0])
}

pub fn depends_on<N: MNum>(t: &[N], v: u32) -> bool {
    (0..t.len()).any(|a| t[a] != t[a ^ (1 << v)])
}

pub fn is_01<N: MNum>(t: &[N]) -> bool {
    t.iter().all(|&x| x == N::zero() || x == N::one())
}

/// `if c { t } else { e }` point-wise; `c` must be 0-1-valued
pub fn ite_tab<N: MNum>(c: &[N], t: &[N], e: &[N]) -> Vec<N> {
    assert!(is_01(c));
    (0..c.len()).map(|a| if c[a] == N::one() { t[a] } else { e[a] }).collect()
}

/// The cube (conjunction of literals, a 0-1-valued function): variables in
/// `pos` positive, in `neg` negative.
pub fn cube_tab<N: MNum>(pos: u32, neg: u32, n: u32) -> Vec<N> {
    (0..(1u32 << n)).map(|a| if a & pos == pos && a & neg == 0 { N::one() } else { N::zero() }).collect()
}

/// point-wise Shannon cofactor w.r.t. the partial assignment (pos, neg)
pub fn restrict_tab<N: MNum>(t: &[N], pos: u32, neg: u32) -> Vec<N> {
    (0..t.len()).map(|a| t[(a | pos as usize) & !(neg as usize)]).collect()
}

/// exchange the roles of variables i and j
pub fn swap_vars<N: Copy>(t: &[N], i: u32, j: u32) -> Vec<N> {
    (0..t.len())
        .map(|a| {
            let (bi, bj) = ((a >> i) & 1, (a >> j) & 1);
            let b = (a & !(1 << i) & !(1 << j)) | (bj << i) | (bi << j);
            t[b]
        })
        .collect()
}

pub fn show_tab<N: MNum>(t: &[N]) -> Vec<String> {
    t.iter().map(|x| x.show()).collect()
}

// ---------------------------------------------------------------------------
// adapter
// ---------------------------------------------------------------------------

fn reduce_insert<M: Manager>(m: &M, level: LevelNo, t: M::Edge, e: M::Edge) -> AllocResult<M::Edge> {
    <M::Rules as DiagramRules<_, _, _>>::reduce(m, level, [t, e]).then_insert(m, level)
}

/// route A: value table -> diagram, bottom-up through reduce/then_insert
pub fn mt_build<M, N, T>(m: &M, tab: &[N], n: u32, level: u32, conv: &dyn Fn(N) -> T) -> AllocResult<M::Edge>
where
    M: Manager<Terminal = T>,
    N: MNum,
{
    if is_const(tab) {
        return m.get_terminal(conv(tab[0]));
    }
    assert!(level < n, "harness: non-constant table below the last level");
    let v = m.level_to_var(level);
    let hi = mt_build(m, &cofactor(tab, v, true), n, level + 1, conv)?;
    let lo = match mt_build(m, &cofactor(tab, v, false), n, level + 1, conv) {
        Ok(e) => e,
        Err(err) => {
            m.drop_edge(hi);
            return Err(err);
        }
    };
    reduce_insert(m, level, hi, lo)
}

/// interpreter: the value table denoted by `e`, from the raw structure
pub fn mt_table<M, N, T>(m: &M, e: &M::Edge, n: u32, above: Option<u32>, conv: &dyn Fn(&T) -> N) -> Result<Vec<N>, String>
where
    M: Manager<Terminal = T>,
    M::InnerNode: HasLevel,
    N: MNum,
{
    if e.tag() != Default::default() {
        return Err("tagged edge in an MTBDD".into());
    }
    match m.get_node(e) {
        Node::Terminal(t) => {
            use std::borrow::Borrow;
            Ok(vec![conv(t.borrow()); 1usize << n])
        }
        Node::Inner(node) => {
            let l = node.level();
            if l >= n {
                return Err(format!("node level {l} out of range (num_levels {n})"));
            }
            if let Some(a) = above {
                if l <= a {
                    return Err(format!("child level {l} not below parent level {a}"));
                }
            }
            let v = m.level_to_var(l);
            let mut it = node.children();
            let (c0, c1) = (it.next(), it.next());
            if it.next().is_some() {
                return Err("node with more than two children".into());
            }
            let (Some(c0), Some(c1)) = (c0, c1) else {
                return Err("node with fewer than two children".into());
            };
            let hi = mt_table(m, &*c0, n, Some(l), conv)?;
            let lo = mt_table(m, &*c1, n, Some(l), conv)?;
            Ok((0..(1usize << n)).map(|a| if (a >> v) & 1 == 1 { hi[a] } else { lo[a] }).collect())
        }
    }
}

pub type MtRef<K> = <<K as MtKind>::F as Function>::ManagerRef;

pub trait MtKind: 'static {
    /// terminal type of the code under test
    type T: NumberBase + Debug + Send + Sync + 'static;
    /// model number
    type N: MNum;
    type F: PseudoBooleanFunction<Number = Self::T> + Clone + Eq + Hash + Send + Sync + 'static;
    const NAME: &'static str;
    fn to_t(n: Self::N) -> Self::T;
    /// exact read-back (no normalisation on the way)
    fn from_t(t: &Self::T) -> Self::N;
    /// `threads` must be 1 or 2 (0 = one thread per core)
    fn new_manager(nodes: usize, terminals: usize, cache: usize, threads: u32) -> MtRef<Self>;
    fn build(mref: &MtRef<Self>, tab: &[Self::N]) -> AllocResult<Self::F>;
    fn table(f: &Self::F) -> Result<Vec<Self::N>, String>;
    fn audit(mref: &MtRef<Self>, live: &[&Self::F], check_rc: bool) -> AuditInfo;
    fn set_order(mref: &MtRef<Self>, order: &[u32]);
    fn order(mref: &MtRef<Self>) -> Vec<u32>;
    fn raw(f: &Self::F) -> RawEdge;
    fn gc(mref: &MtRef<Self>) -> usize;
    fn constant(mref: &MtRef<Self>, v: Self::N) -> AllocResult<Self::F> {
        mref.with_manager_shared(|m| Self::F::constant(m, Self::to_t(v)))
    }
    fn var(mref: &MtRef<Self>, v: u32) -> AllocResult<Self::F> {
        mref.with_manager_shared(|m| Self::F::var(m, v))
    }
    /// library `eval` under assignment `a` (bit v = value of variable v)
    fn eval(f: &Self::F, a: u32, n: u32) -> Self::N {
        Self::from_t(&f.eval((0..n).map(|v| (v, (a >> v) & 1 == 1))))
    }
}

pub struct MtI64;
pub struct MtF64;

pub fn i64_to_t(n: Num) -> I64 {
    match n {
        Num::NaN => I64::NaN,
        Num::NegInf => I64::MinusInf,
        Num::PosInf => I64::PlusInf,
        Num::Int(i) => I64::Num(i),
    }
}
pub fn i64_from_t(t: &I64) -> Num {
    match *t {
        I64::NaN => Num::NaN,
        I64::MinusInf => Num::NegInf,
        I64::PlusInf => Num::PosInf,
        I64::Num(i) => Num::Int(i),
    }
}
pub fn f64_to_t(n: Fl) -> F64 {
    F64::from(n.get())
}
pub fn f64_from_t(t: &F64) -> Fl {
    Fl::raw(f64::from(*t))
}

macro_rules! mt_kind {
    ($k:ident, $t:ty, $n:ty, $name:literal, $to:path, $from:path) => {
        impl MtKind for $k {
            type T = $t;
            type N = $n;
            type F = MTBDDFunction<$t>;
            const NAME: &'static str = $name;
            fn to_t(n: $n) -> $t {
                $to(n)
            }
            fn from_t(t: &$t) -> $n {
                $from(t)
            }
            fn new_manager(nodes: usize, terminals: usize, cache: usize, threads: u32) -> MTBDDManagerRef<$t> {
                assert!(threads >= 1, "harness: threads = 0 would start one thread per core");
                oxidd::mtbdd::new_manager::<$t>(nodes, terminals, cache, threads)
            }
            fn build(mref: &MTBDDManagerRef<$t>, tab: &[$n]) -> AllocResult<MTBDDFunction<$t>> {
                mref.with_manager_shared(|m| {
                    let n = m.num_levels();
                    assert_eq!(tab.len(), 1usize << n, "harness: table length");
                    Ok(MTBDDFunction::<$t>::from_edge(m, mt_build(m, tab, n, 0, &$to)?))
                })
            }
            fn table(f: &MTBDDFunction<$t>) -> Result<Vec<$n>, String> {
                f.with_manager_shared(|m, e| mt_table(m, e, m.num_levels(), None, &$from))
            }
            fn audit(mref: &MTBDDManagerRef<$t>, live: &[&MTBDDFunction<$t>], check_rc: bool) -> AuditInfo {
                mref.with_manager_shared(|m| {
                    let roots: Vec<RawEdge> = live.iter().map(|f| raw_edge(m, f.as_edge(m))).collect();
                    audit_raw(m, AKind::Mtbdd, &roots, None, None, check_rc)
                })
            }
            fn set_order(mref: &MTBDDManagerRef<$t>, order: &[u32]) {
                mref.with_manager_exclusive(|m| oxidd_reorder::set_var_order(m, order))
            }
            fn order(mref: &MTBDDManagerRef<$t>) -> Vec<u32> {
                mref.with_manager_shared(|m| (0..m.num_levels()).map(|l| m.level_to_var(l)).collect())
            }
            fn raw(f: &MTBDDFunction<$t>) -> RawEdge {
                f.with_manager_shared(|m, e| raw_edge(m, e))
            }
            fn gc(mref: &MTBDDManagerRef<$t>) -> usize {
                mref.with_manager_shared(|m| m.gc())
            }
        }
    };
}

mt_kind!(MtI64, I64, Num, "mtbdd_i64", i64_to_t, i64_from_t);
mt_kind!(MtF64, F64, Fl, "mtbdd_f64", f64_to_t, f64_from_t);

/// Manager with `n` variables in the given order (`order[level] = var`). As
/// in `dd::fresh`, the order is established on the empty manager, so that
/// the check does not depend on the node-moving code of reordering.
pub fn fresh<K: MtKind>(n: u32, order: &[u32], nodes: usize, terminals: usize, cache: usize, threads: u32) -> MtRef<K> {
    let mref = K::new_manager(nodes, terminals, cache, threads);
    mref.with_manager_exclusive(|m| {
        m.add_vars(n);
    });
    let ident: Vec<u32> = (0..n).collect();
    if order != ident.as_slice() {
        K::set_order(&mref, order);
    }
    assert_eq!(K::order(&mref), order, "harness: initial order could not be established");
    mref
}
