//! TDD (three-valued logic) support for C11:
//!
//! * `m3` — the reference model. Nothing in there depends on /repo: a function
//!   of n <= 2 three-valued variables is a table of 3^n values in {F,U,T}; the
//!   connectives are literal 3x3 truth tables typed in from the property
//!   statement (Kleene strong tables for not/and/or, nand/nor their negations,
//!   Lukasiewicz for imp and equiv, xor = not equiv,
//!   imp_strict(a,b) = not imp(b,a), the stated ite rule).
//! * the adapter over `oxidd::tdd::{TDDFunction, new_manager}`: manager
//!   creation (threads 1 or 2, never 0), a table -> diagram builder that goes
//!   through `DiagramRules::reduce(..).then_insert(..)` with the three children
//!   in the documented order (true, unknown, false), an own interpreter over
//!   `Manager::get_node` that yields the 3^n-entry table of a handle, and the
//!   structural audit (`dd::audit_raw` with `AKind::Tdd`).

#![allow(dead_code)]

use std::borrow::Borrow;

use oxidd::tdd::{TDDFunction, TDDManagerRef};
use oxidd::{Edge, Function, HasLevel, InnerNode, LevelNo, Manager, ManagerRef, Node, TVLFunction};
use oxidd_core::DiagramRules;
use oxidd_core::util::AllocResult;
use oxidd_rules_tdd::TDDTerminal;

use crate::dd::{AKind, AuditInfo, RawEdge, audit_raw, raw_edge};

// ---------------------------------------------------------------------------
// reference model (independent of /repo)
// ---------------------------------------------------------------------------

pub mod m3 {
    //! Three-valued tables. A value is `F = 0`, `U = 1`, `T = 2`. An
    //! assignment of n variables is the index `a = sum_v value(x_v) * 3^v`
    //! (x0 is the fastest-running digit). A function is the code
    //! `sum_a f(a) * 3^a` (`Tab3`), i.e. a base-3 number with 3^n digits.

    pub type Tab3 = u32;
    pub type Val = u8;
    pub const F: Val = 0;
    pub const U: Val = 1;
    pub const T: Val = 2;

    pub const MAXN: u32 = 2;
    pub const MAXPTS: usize = 9;

    pub const POW3: [u32; 10] = [1, 3, 9, 27, 81, 243, 729, 2187, 6561, 19683];

    /// number of assignments of n variables
    #[inline]
    pub fn npts(n: u32) -> usize {
        POW3[n as usize] as usize
    }
    /// number of functions of n variables
    #[inline]
    pub fn nfun(n: u32) -> u32 {
        POW3[npts(n)]
    }

    #[inline]
    pub fn val_of(a: usize, v: u32) -> Val {
        ((a as u32 / POW3[v as usize]) % 3) as Val
    }
    /// assignment `a` with variable v set to `val`
    #[inline]
    pub fn with_val(a: usize, v: u32, val: Val) -> usize {
        let p = POW3[v as usize] as usize;
        a - (val_of(a, v) as usize) * p + (val as usize) * p
    }

    #[inline]
    pub fn digits(t: Tab3, n: u32) -> [Val; MAXPTS] {
        let mut d = [0u8; MAXPTS];
        let mut x = t;
        for slot in d.iter_mut().take(npts(n)) {
            *slot = (x % 3) as Val;
            x /= 3;
        }
        debug_assert!(x == 0, "table code out of range");
        d
    }
    #[inline]
    pub fn encode(d: &[Val; MAXPTS], n: u32) -> Tab3 {
        let mut t = 0u32;
        for a in (0..npts(n)).rev() {
            t = t * 3 + d[a] as u32;
        }
        t
    }
    #[inline]
    pub fn at(t: Tab3, a: usize) -> Val {
        ((t / POW3[a]) % 3) as Val
    }

    pub fn val_char(v: Val) -> char {
        match v {
            F => 'F',
            U => 'U',
            T => 'T',
            _ => '?',
        }
    }
    /// human-readable table: values for a = 0, 1, .. (x0 runs fastest; blocks
    /// of three separated by '|' are the rows x1 = F, U, T)
    pub fn tab_str(t: Tab3, n: u32) -> String {
        let d = digits(t, n);
        let mut s = String::new();
        for a in 0..npts(n) {
            if a > 0 && a % 3 == 0 {
                s.push('|');
            }
            s.push(val_char(d[a]));
        }
        s
    }
    pub fn val_opt(v: Val) -> Option<bool> {
        match v {
            F => Some(false),
            U => None,
            T => Some(true),
            _ => unreachable!(),
        }
    }
    pub fn opt_val(o: Option<bool>) -> Val {
        match o {
            Some(false) => F,
            None => U,
            Some(true) => T,
        }
    }

    pub fn konst(val: Val, n: u32) -> Tab3 {
        encode(&[val; MAXPTS], n)
    }
    pub fn var_tab(v: u32, n: u32) -> Tab3 {
        let mut d = [0u8; MAXPTS];
        for a in 0..npts(n) {
            d[a] = val_of(a, v);
        }
        encode(&d, n)
    }
    /// one-variable function of x_v given by its values at (F, U, T), as a
    /// function of n variables
    pub fn unary_of(v: u32, at_f: Val, at_u: Val, at_t: Val, n: u32) -> Tab3 {
        let mut d = [0u8; MAXPTS];
        for a in 0..npts(n) {
            d[a] = [at_f, at_u, at_t][val_of(a, v) as usize];
        }
        encode(&d, n)
    }

    // ---- the literal truth tables of the property statement ---------------
    // index order: [a][b] with a, b in (F, U, T)

    /// Kleene strong negation
    pub const NOT: [Val; 3] = [T, U, F];
    /// Kleene strong conjunction
    pub const AND: [[Val; 3]; 3] = [
        [F, F, F], // a = F
        [F, U, U], // a = U
        [F, U, T], // a = T
    ];
    /// Kleene strong disjunction
    pub const OR: [[Val; 3]; 3] = [
        [F, U, T], //
        [U, U, T], //
        [T, T, T], //
    ];
    /// not and
    pub const NAND: [[Val; 3]; 3] = [
        [T, T, T], //
        [T, U, U], //
        [T, U, F], //
    ];
    /// not or
    pub const NOR: [[Val; 3]; 3] = [
        [T, U, F], //
        [U, U, F], //
        [F, F, F], //
    ];
    /// Lukasiewicz implication a -> b  (min(1, 1 - a + b))
    pub const IMP: [[Val; 3]; 3] = [
        [T, T, T], // F -> b
        [U, T, T], // U -> b
        [F, U, T], // T -> b
    ];
    /// Lukasiewicz equivalence (1 - |a - b|)
    pub const EQUIV: [[Val; 3]; 3] = [
        [T, U, F], //
        [U, T, U], //
        [F, U, T], //
    ];
    /// xor = not equiv
    pub const XOR: [[Val; 3]; 3] = [
        [F, U, T], //
        [U, F, U], //
        [T, U, F], //
    ];
    /// imp_strict(a, b) = not imp(b, a)
    pub const IMP_STRICT: [[Val; 3]; 3] = [
        [F, U, T], // a = F
        [F, F, U], // a = U
        [F, F, F], // a = T
    ];

    /// the stated ite rule on values
    pub fn ite_val(a: Val, b: Val, c: Val) -> Val {
        if b == c || a == T {
            b
        } else if a == F {
            c
        } else {
            // a is unknown
            if a == b {
                OR[a as usize][c as usize]
            } else if a == c {
                AND[a as usize][b as usize]
            } else {
                U
            }
        }
    }

    #[derive(Clone, Copy, PartialEq, Eq, Debug, Hash, PartialOrd, Ord)]
    pub enum Op3 {
        And,
        Or,
        Nand,
        Nor,
        Xor,
        Equiv,
        Imp,
        ImpStrict,
    }
    pub const OPS3: [Op3; 8] =
        [Op3::And, Op3::Or, Op3::Nand, Op3::Nor, Op3::Xor, Op3::Equiv, Op3::Imp, Op3::ImpStrict];

    impl Op3 {
        pub fn name(self) -> &'static str {
            match self {
                Op3::And => "and",
                Op3::Or => "or",
                Op3::Nand => "nand",
                Op3::Nor => "nor",
                Op3::Xor => "xor",
                Op3::Equiv => "equiv",
                Op3::Imp => "imp",
                Op3::ImpStrict => "imp_strict",
            }
        }
        pub fn truth(self) -> &'static [[Val; 3]; 3] {
            match self {
                Op3::And => &AND,
                Op3::Or => &OR,
                Op3::Nand => &NAND,
                Op3::Nor => &NOR,
                Op3::Xor => &XOR,
                Op3::Equiv => &EQUIV,
                Op3::Imp => &IMP,
                Op3::ImpStrict => &IMP_STRICT,
            }
        }
        /// pointwise lifting
        pub fn apply(self, f: Tab3, g: Tab3, n: u32) -> Tab3 {
            let (df, dg) = (digits(f, n), digits(g, n));
            let tt = self.truth();
            let mut r = [0u8; MAXPTS];
            for a in 0..npts(n) {
                r[a] = tt[df[a] as usize][dg[a] as usize];
            }
            encode(&r, n)
        }
    }

    pub fn not(f: Tab3, n: u32) -> Tab3 {
        let d = digits(f, n);
        let mut r = [0u8; MAXPTS];
        for a in 0..npts(n) {
            r[a] = NOT[d[a] as usize];
        }
        encode(&r, n)
    }
    pub fn ite(f: Tab3, g: Tab3, h: Tab3, n: u32) -> Tab3 {
        let (df, dg, dh) = (digits(f, n), digits(g, n), digits(h, n));
        let mut r = [0u8; MAXPTS];
        for a in 0..npts(n) {
            r[a] = ite_val(df[a], dg[a], dh[a]);
        }
        encode(&r, n)
    }
    /// f with x_v := val, as a function of all n variables
    pub fn cofactor(t: Tab3, v: u32, val: Val, n: u32) -> Tab3 {
        let d = digits(t, n);
        let mut r = [0u8; MAXPTS];
        for a in 0..npts(n) {
            r[a] = d[with_val(a, v, val)];
        }
        encode(&r, n)
    }
    pub fn depends_on(t: Tab3, v: u32, n: u32) -> bool {
        let c = cofactor(t, v, F, n);
        c != cofactor(t, v, U, n) || c != cofactor(t, v, T, n)
    }
    pub fn is_const(t: Tab3, n: u32) -> Option<Val> {
        let d = digits(t, n);
        if (1..npts(n)).all(|a| d[a] == d[0]) { Some(d[0]) } else { None }
    }
    /// first variable in `order` (order[level] = var) the table depends on:
    /// the variable of the root node of the reduced ordered TDD
    pub fn top_var(t: Tab3, n: u32, order: &[u32]) -> Option<u32> {
        order.iter().copied().find(|&v| depends_on(t, v, n))
    }

    /// Consistency of the typed-in tables with the relations spelled out in the
    /// statement (guards against typos in the oracle itself). Returns a list
    /// of complaints; empty = fine.
    pub fn selfcheck() -> Vec<String> {
        let mut e = vec![];
        let num = |v: Val| v as i32; // F=0, U=1, T=2 (i.e. 2 * {0, 1/2, 1})
        for a in 0..3u8 {
            if num(NOT[a as usize]) != 2 - num(a) {
                e.push(format!("NOT[{a}]"));
            }
            for b in 0..3u8 {
                let (ai, bi) = (a as usize, b as usize);
                if AND[ai][bi] != a.min(b) {
                    e.push(format!("AND[{a}][{b}]"));
                }
                if OR[ai][bi] != a.max(b) {
                    e.push(format!("OR[{a}][{b}]"));
                }
                if NAND[ai][bi] != NOT[AND[ai][bi] as usize] {
                    e.push(format!("NAND[{a}][{b}]"));
                }
                if NOR[ai][bi] != NOT[OR[ai][bi] as usize] {
                    e.push(format!("NOR[{a}][{b}]"));
                }
                if num(IMP[ai][bi]) != (2 - num(a) + num(b)).min(2) {
                    e.push(format!("IMP[{a}][{b}]"));
                }
                if num(EQUIV[ai][bi]) != 2 - (num(a) - num(b)).abs() {
                    e.push(format!("EQUIV[{a}][{b}]"));
                }
                if XOR[ai][bi] != NOT[EQUIV[ai][bi] as usize] {
                    e.push(format!("XOR[{a}][{b}]"));
                }
                if IMP_STRICT[ai][bi] != NOT[IMP[bi][ai] as usize] {
                    e.push(format!("IMP_STRICT[{a}][{b}]"));
                }
            }
        }
        // encode/decode round trip
        for n in 0..=MAXN {
            for t in [0, 1, 5, nfun(n) - 1] {
                if t < nfun(n) && encode(&digits(t, n), n) != t {
                    e.push(format!("encode/digits n={n} t={t}"));
                }
            }
        }
        e
    }
}

use m3::{Tab3, Val};

// ---------------------------------------------------------------------------
// adapter
// ---------------------------------------------------------------------------

pub type TddRef = TDDManagerRef;
pub type TddF = TDDFunction;

/// `threads` must be 1 or 2 (0 would mean "auto")
pub fn new_manager(nodes: usize, cache: usize, threads: u32) -> TddRef {
    assert!(threads == 1 || threads == 2, "harness: threads must be 1 or 2");
    oxidd::tdd::new_manager(nodes, cache, threads)
}

/// Manager with `n` variables in the given order (`order[level] = var`). The
/// order is established on the empty manager (add_vars, then
/// `oxidd_reorder::set_var_order`), before any node exists.
pub fn fresh(n: u32, order: &[u32], nodes: usize, cache: usize, threads: u32) -> TddRef {
    assert!(n <= m3::MAXN && order.len() == n as usize);
    let mref = new_manager(nodes, cache, threads);
    mref.with_manager_exclusive(|m| {
        m.add_vars(n);
    });
    let ident: Vec<u32> = (0..n).collect();
    if order != ident.as_slice() {
        mref.with_manager_exclusive(|m| oxidd_reorder::set_var_order(m, order));
    }
    let got: Vec<u32> = mref.with_manager_shared(|m| (0..n).map(|l| m.level_to_var(l)).collect());
    assert_eq!(got, order, "harness: initial order could not be established");
    mref
}

fn term_val(t: TDDTerminal) -> Val {
    match t {
        TDDTerminal::False => m3::F,
        TDDTerminal::Unknown => m3::U,
        TDDTerminal::True => m3::T,
    }
}
fn val_term(v: Val) -> TDDTerminal {
    match v {
        m3::F => TDDTerminal::False,
        m3::U => TDDTerminal::Unknown,
        m3::T => TDDTerminal::True,
        _ => unreachable!(),
    }
}

/// Interpreter: the table denoted by edge `e` (n = number of variables),
/// reading the stored structure only. Child 0 is followed when the node's
/// variable is true, child 1 when it is unknown, child 2 when it is false.
pub fn tdd_digits<M>(m: &M, e: &M::Edge, n: u32, above: Option<u32>) -> Result<[Val; m3::MAXPTS], String>
where
    M: Manager<Terminal = TDDTerminal>,
    M::InnerNode: HasLevel,
{
    if e.tag() != Default::default() {
        return Err("edge carries a non-default tag".into());
    }
    match m.get_node(e) {
        Node::Terminal(t) => Ok([term_val(*t.borrow()); m3::MAXPTS]),
        Node::Inner(node) => {
            let l = node.level();
            if l >= n {
                return Err(format!("node level {l} out of range (num_levels {n})"));
            }
            if let Some(a) = above {
                if l <= a {
                    return Err(format!("child level {l} not below parent level {a}"));
                }
            }
            let v = m.level_to_var(l);
            if v >= n {
                return Err(format!("level_to_var({l}) = {v} out of range"));
            }
            let mut tabs: Vec<[Val; m3::MAXPTS]> = Vec::with_capacity(3);
            for c in node.children() {
                tabs.push(tdd_digits(m, &*c, n, Some(l))?);
            }
            if tabs.len() != 3 {
                return Err(format!("node with {} children", tabs.len()));
            }
            let mut r = [0u8; m3::MAXPTS];
            for a in 0..m3::npts(n) {
                r[a] = match m3::val_of(a, v) {
                    m3::T => tabs[0][a],
                    m3::U => tabs[1][a],
                    _ => tabs[2][a],
                };
            }
            Ok(r)
        }
    }
}

pub fn tdd_table<M>(m: &M, e: &M::Edge) -> Result<Tab3, String>
where
    M: Manager<Terminal = TDDTerminal>,
    M::InnerNode: HasLevel,
{
    let n = m.num_levels();
    if n > m3::MAXN {
        return Err(format!("harness interpreter supports n <= {} (manager has {n})", m3::MAXN));
    }
    Ok(m3::encode(&tdd_digits(m, e, n, None)?, n))
}

/// Route A: table -> diagram, bottom-up through `reduce` + `then_insert`,
/// children in the order (x := true, x := unknown, x := false).
pub fn tdd_build<M>(m: &M, t: Tab3, n: u32, level: u32) -> AllocResult<M::Edge>
where
    M: Manager<Terminal = TDDTerminal>,
{
    if let Some(c) = m3::is_const(t, n) {
        return m.get_terminal(val_term(c));
    }
    assert!(level < n, "harness: non-constant table below the last level");
    let v = m.level_to_var(level);
    let ct = tdd_build(m, m3::cofactor(t, v, m3::T, n), n, level + 1)?;
    let cu = match tdd_build(m, m3::cofactor(t, v, m3::U, n), n, level + 1) {
        Ok(e) => e,
        Err(err) => {
            m.drop_edge(ct);
            return Err(err);
        }
    };
    let cf = match tdd_build(m, m3::cofactor(t, v, m3::F, n), n, level + 1) {
        Ok(e) => e,
        Err(err) => {
            m.drop_edge(ct);
            m.drop_edge(cu);
            return Err(err);
        }
    };
    <M::Rules as DiagramRules<_, _, _>>::reduce(m, level as LevelNo, [ct, cu, cf]).then_insert(m, level as LevelNo)
}

pub fn build(mref: &TddRef, t: Tab3) -> AllocResult<TddF> {
    mref.with_manager_shared(|m| {
        let n = m.num_levels();
        assert!(n <= m3::MAXN && t < m3::nfun(n));
        Ok(TddF::from_edge(m, tdd_build(m, t, n, 0)?))
    })
}

pub fn table(f: &TddF) -> Result<Tab3, String> {
    f.with_manager_shared(|m, e| tdd_table(m, e))
}

pub fn raw(f: &TddF) -> RawEdge {
    f.with_manager_shared(|m, e| raw_edge(m, e))
}

pub fn audit(mref: &TddRef, live: &[&TddF], check_rc: bool) -> AuditInfo {
    mref.with_manager_shared(|m| {
        let roots: Vec<RawEdge> = live.iter().map(|f| raw_edge(m, f.as_edge(m))).collect();
        audit_raw(m, AKind::Tdd, &roots, None, None, check_rc)
    })
}

pub fn gc(mref: &TddRef) -> usize {
    mref.with_manager_shared(|m| m.gc())
}

pub fn apply_bin(op: m3::Op3, f: &TddF, g: &TddF) -> AllocResult<TddF> {
    use m3::Op3::*;
    match op {
        And => f.and(g),
        Or => f.or(g),
        Nand => f.nand(g),
        Nor => f.nor(g),
        Xor => f.xor(g),
        Equiv => f.equiv(g),
        Imp => f.imp(g),
        ImpStrict => f.imp_strict(g),
    }
}

/// library `eval` under the total assignment `a` (argument order: x0, x1, ..)
pub fn eval_total(f: &TddF, a: usize, n: u32) -> Val {
    m3::opt_val(f.eval((0..n).map(|v| (v, m3::val_opt(m3::val_of(a, v))))))
}
