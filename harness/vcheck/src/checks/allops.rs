//! E-INPUT sweep over the whole operation alphabet of the Boolean kinds with a
//! model-free oracle: all 256 three-variable functions are alive as canonical
//! handles (`fns[t]` denotes table `t`); every result `h` of every operation is
//! read back with the harness's interpreter (`t = table(h)`) and
//!  * C01: `h` must be the very handle `fns[t]` (==, Hash),
//!  * C03: `node_count(h)` must be the size of the unique reduced diagram of `t`
//!    and, after every batch (before any collection), the structural auditor
//!    must accept everything that is stored in the manager.
//! What the operation should have computed is the business of C02/C04/C09/C13.

use oxidd::zbdd::ZBDDFunction;
use oxidd::{BooleanFunction, BooleanVecSet, Function, Subst};
use oxidd_core::util::AllocResult;
use serde_json::json;

use super::boolops::*;
use super::c04::QuantKind;
use crate::dd::{Bcdd, Bdd, BoolKind, MRefOf, Zbdd};
use crate::model::{self, BINOPS, Tab};
use crate::proto::{Ctx, attrs};

pub fn shards(_tier: &str) -> Vec<String> {
    let mut v = vec![];
    for k in ["bdd", "bcdd", "zbdd"] {
        for o in model::perms(3) {
            v.push(format!("allops:{k}:{}", model::order_str(&o)));
        }
    }
    v
}

fn hash_of<T: std::hash::Hash>(x: &T) -> u64 {
    use std::hash::Hasher;
    let mut h = std::collections::hash_map::DefaultHasher::new();
    x.hash(&mut h);
    h.finish()
}

struct Sink<'a, K: BoolKind> {
    c01: bool,
    n: u32,
    order: Vec<u32>,
    mref: &'a MRefOf<K>,
    fns: &'a [K::F],
}

impl<'a, K: BoolKind> Sink<'a, K> {
    fn case(&self, op: &str, operands: &[Tab], got: &str) -> serde_json::Value {
        json!({"kind": K::NAME, "n": self.n, "order": model::order_str(&self.order), "op": op, "operands": operands, "got": got})
    }

    fn res(&self, ctx: &mut Ctx, op: &str, operands: &[Tab], r: AllocResult<K::F>) {
        ctx.count("evaluations", 1);
        ctx.count("transitions", 1);
        let m = model::full(self.n);
        if operands.iter().all(|&t| t != 0 && t != m) {
            ctx.count("nontrivial", 1);
        }
        let ostr = model::order_str(&self.order);
        let h = match r {
            Ok(h) => h,
            Err(_) => {
                ctx.viol(
                    attrs(&[("kind", K::NAME), ("op", op), ("class", "unexpected_oom"), ("last_action", "allops")]),
                    self.case(op, operands, "OutOfMemory"),
                    &format!("{} order {ostr} {op}{operands:x?}: OutOfMemory on a manager with ample capacity", K::NAME),
                );
                return;
            }
        };
        let t = match K::table(&h) {
            Ok(t) => t,
            Err(e) => {
                ctx.viol(
                    attrs(&[("kind", K::NAME), ("op", op), ("class", "malformed"), ("last_action", "allops")]),
                    self.case(op, operands, &e),
                    &format!("{} order {ostr} {op}{operands:x?}: result diagram malformed: {e}", K::NAME),
                );
                return;
            }
        };
        if self.c01 {
            let canon = &self.fns[t as usize];
            if h != *canon {
                ctx.viol(
                    attrs(&[("kind", K::NAME), ("op", op), ("class", "eq_iff_same_function"), ("last_action", "allops")]),
                    self.case(op, operands, &format!("{t:#x}")),
                    &format!("{} order {ostr} {op}{operands:x?}: the result denotes {t:#x} but is not equal to the live handle of {t:#x}", K::NAME),
                );
            } else if hash_of(&h) != hash_of(canon) {
                ctx.viol(
                    attrs(&[("kind", K::NAME), ("op", op), ("class", "hash_inconsistent"), ("last_action", "allops")]),
                    self.case(op, operands, &format!("{t:#x}")),
                    &format!("{} order {ostr} {op}{operands:x?}: equal handles of {t:#x} hash differently", K::NAME),
                );
            }
        } else {
            let want = model::min_size(K::BK, t, self.n, &self.order);
            let got = h.node_count();
            if got != want {
                ctx.viol(
                    attrs(&[("kind", K::NAME), ("op", op), ("class", "node_count"), ("last_action", "allops")]),
                    self.case(op, operands, &format!("{t:#x} with {got} nodes")),
                    &format!("{} order {ostr} {op}{operands:x?}: node_count of the result ({t:#x}) = {got}, the unique reduced diagram has {want} nodes", K::NAME),
                );
            }
        }
    }

    /// everything stored in the manager (results are dead but not yet collected) must be well-formed
    fn fence(&self, ctx: &mut Ctx, after: &str) {
        if self.c01 {
            return;
        }
        ctx.count("states", 1);
        let live: Vec<&K::F> = self.fns.iter().collect();
        let info = K::audit(self.mref, &live, false);
        for e in info.errors.iter().take(3) {
            ctx.viol(
                attrs(&[("kind", K::NAME), ("op", after), ("class", "audit"), ("last_action", "allops")]),
                self.case(after, &[], e),
                &format!("{} order {}: after the {after} sweep: {e}", K::NAME, model::order_str(&self.order)),
            );
        }
    }
}

fn common<K: BoolKind>(ctx: &mut Ctx, s: &Sink<K>) {
    let n = s.n;
    let fns = s.fns;
    let tabs: Vec<Tab> = if ctx.thorough() { (0..256).collect() } else { model::subset3() };
    for (t, f) in fns.iter().enumerate() {
        let t = t as Tab;
        s.res(ctx, "not", &[t], f.not());
        if let Some(c) = f.cofactor_true() {
            s.res(ctx, "cofactor_true", &[t], Ok(c));
        }
        if let Some(c) = f.cofactor_false() {
            s.res(ctx, "cofactor_false", &[t], Ok(c));
        }
    }
    s.fence(ctx, "not/cofactor");
    for op in BINOPS {
        for &a in &tabs {
            for &b in &tabs {
                s.res(ctx, op.name(), &[a, b], apply_bin(op, &fns[a as usize], &fns[b as usize]));
            }
        }
        s.fence(ctx, op.name());
    }
    let small: Vec<Tab> = tabs.iter().copied().step_by(if ctx.thorough() { 4 } else { 3 }).collect();
    for &a in &small {
        for &b in &small {
            for &c in &small {
                s.res(ctx, "ite", &[a, b, c], fns[a as usize].ite(&fns[b as usize], &fns[c as usize]));
            }
        }
    }
    s.fence(ctx, "ite");
    for pos in 0..8u32 {
        for neg in 0..8u32 {
            if pos & neg != 0 {
                continue;
            }
            let cube = model::cube_tab(pos, neg, n);
            for (t, f) in fns.iter().enumerate() {
                s.res(ctx, "restrict", &[t as Tab, cube], f.restrict(&fns[cube as usize]));
                s.res(ctx, "pick_cube_dd_set", &[t as Tab, cube], f.pick_cube_dd_set(&fns[cube as usize]));
            }
        }
    }
    s.fence(ctx, "restrict/pick_cube_dd_set");
    for cv in 0..8u32 {
        for (t, f) in fns.iter().enumerate() {
            s.res(ctx, "pick_cube_dd", &[t as Tab, cv as Tab], f.pick_cube_dd(|_m, _e, lvl| (cv >> lvl) & 1 == 1));
        }
    }
    s.fence(ctx, "pick_cube_dd");
}

fn quant<K: QuantKind>(ctx: &mut Ctx, s: &Sink<K>) {
    let n = s.n;
    let fns = s.fns;
    for vars in 0..8u32 {
        let cube = &fns[model::cube_tab(vars, 0, n) as usize];
        for which in 0..3u8 {
            for (t, f) in fns.iter().enumerate() {
                s.res(ctx, ["exists", "forall", "unique"][which as usize], &[t as Tab, vars as Tab], K::q(which, f, cube));
            }
        }
    }
    s.fence(ctx, "quantifier");
    let tabs: Vec<Tab> = model::subset3().into_iter().step_by(if ctx.thorough() { 1 } else { 2 }).collect();
    for op in BINOPS {
        for which in 0..3u8 {
            for vars in 1..8u32 {
                let cube = &fns[model::cube_tab(vars, 0, n) as usize];
                for &a in &tabs {
                    for &b in &tabs {
                        s.res(ctx, ["apply_exists", "apply_forall", "apply_unique"][which as usize], &[a, b, vars as Tab], K::aq(which, op, &fns[a as usize], &fns[b as usize], cube));
                    }
                }
            }
        }
        s.fence(ctx, &format!("apply_quant-{}", op.name()));
    }
    // substitution: every variable unlisted or replaced by one of 6 functions
    let x: Vec<Tab> = (0..3).map(|v| model::var_tab(v, 3)).collect();
    let rs: Vec<Option<Tab>> = vec![None, Some(0), Some(x[1]), Some(!x[2] & 0xff), Some(x[0] & x[2]), Some(x[0] ^ x[1]), Some(0xe8)];
    for r0 in &rs {
        for r1 in &rs {
            for r2 in &rs {
                let repl = [*r0, *r1, *r2];
                let mut vars = vec![];
                let mut reps = vec![];
                for (v, r) in repl.iter().enumerate() {
                    if let Some(rt) = r {
                        vars.push(v as u32);
                        reps.push(fns[*rt as usize].clone());
                    }
                }
                let sb = Subst::new(vars, reps);
                let code: Vec<Tab> = repl.iter().map(|r| r.map(|t| t + 1).unwrap_or(0)).collect();
                for (t, f) in fns.iter().enumerate() {
                    s.res(ctx, "substitute", &[t as Tab, code[0], code[1], code[2]], K::subst(f, &sb));
                }
            }
        }
        s.fence(ctx, "substitute");
    }
}

fn sets(ctx: &mut Ctx, s: &Sink<Zbdd>) {
    let fns = s.fns;
    for (t, f) in fns.iter().enumerate() {
        for v in 0..s.n {
            s.res(ctx, "subset0", &[t as Tab, v as Tab], f.subset0(v));
            s.res(ctx, "subset1", &[t as Tab, v as Tab], f.subset1(v));
            s.res(ctx, "change", &[t as Tab, v as Tab], f.change(v));
        }
    }
    s.fence(ctx, "subset/change");
    let tabs: Vec<Tab> = if ctx.thorough() { (0..256).collect() } else { model::subset3() };
    for (name, which) in [("union", 0), ("intsec", 1), ("diff", 2)] {
        for &a in &tabs {
            for &b in &tabs {
                let (f, g): (&ZBDDFunction, &ZBDDFunction) = (&fns[a as usize], &fns[b as usize]);
                let r = match which {
                    0 => f.union(g),
                    1 => f.intsec(g),
                    _ => f.diff(g),
                };
                s.res(ctx, name, &[a, b], r);
            }
        }
        s.fence(ctx, name);
    }
}

/// `prop` is "C01" or "C03"; the shard is "allops:<kind>:<order>"
pub fn run(ctx: &mut Ctx, prop: &str) {
    let shard = ctx.shard.clone();
    let p: Vec<&str> = shard.split(':').collect();
    let order = model::parse_order(p[2]);
    let c01 = prop == "C01";
    let n = 3u32;
    let tc = ThreadCfg { threads: 1, split: None };
    let kind = p[1].to_string();
    ctx.group(&format!("all operations, {}", if c01 { "result is the canonical handle" } else { "result and store reduced" }), |ctx| {
        ctx.count("executions", 1);
        match kind.as_str() {
            "bdd" => {
                let (mref, fns) = all_functions::<Bdd>(n, &order, 1 << 14, tc);
                let s = Sink::<Bdd> { c01, n, order: order.clone(), mref: &mref, fns: &fns };
                common(ctx, &s);
                quant(ctx, &s);
            }
            "bcdd" => {
                let (mref, fns) = all_functions::<Bcdd>(n, &order, 1 << 14, tc);
                let s = Sink::<Bcdd> { c01, n, order: order.clone(), mref: &mref, fns: &fns };
                common(ctx, &s);
                quant(ctx, &s);
            }
            _ => {
                let (mref, fns) = all_functions::<Zbdd>(n, &order, 1 << 14, tc);
                let s = Sink::<Zbdd> { c01, n, order: order.clone(), mref: &mref, fns: &fns };
                common(ctx, &s);
                sets(ctx, &s);
            }
        }
        ctx.distinct(256);
        ctx.sample(|| json!({"kind": kind, "order": model::order_str(&order), "op": "restrict", "operands": [0x01, 0x50]}));
    });
}
