//! C09 — ZBDD set-family operations match set semantics (E-INPUT, exhaustive
//! for n = 3 under all 6 orders; add_vars histories; n = 4 unary in thorough).

use oxidd::zbdd::ZBDDFunction;
use oxidd::{BooleanFunction, BooleanVecSet, Function, Manager, ManagerRef};
use serde_json::json;

use super::boolops::*;
use crate::dd::{BoolKind, Zbdd};
use crate::driver::Meta;
use crate::model::{self, Tab};
use crate::proto::{Ctx, attrs};

pub fn meta() -> Meta {
    Meta {
        level: "exploration",
        rule: "`wide`: 300 variables, 4 families over {0,1,2,256,257,258}: subset0/subset1/change for every ordered pair of those variables back to back, handle must equal the model family built with make_node+union. Exhaustive: n=3, all 6 variable orders: empty/base/singleton(v); subset0/subset1/change for all 256 families x 3 variables; union/intsec/diff for all 65536 pairs; make_node(var, hi, lo) for every variable and every (hi, lo) pair of families that mention only variables below var's level; Boolean view (eval over all manager variables = membership); every ordered pair of distinct orders: families built under the first order (all 256, and a sparse live set), set_var_order to the second, then family / subset0 / subset1 / change / union / intsec / diff / singleton; then add_vars(1) (twice): every old handle keeps its family, its Boolean view is false whenever a new variable is true, and operations between old and new handles still agree with the model on n+1 variables. Before the first add_vars the full family is used in diff/intsec/not on every handle (results dropped), afterwards every family 'all sets over the variables from level l downwards' is combined with every old handle. thorough: n=4 all 65536 families for the unary operations under 3 orders. Non-trivial: operand families are neither empty nor {∅} and distinct.",
        assumptions: vec![
            "operand families are built through reduce/then_insert; results are read by the harness's own family interpreter".into(),
            "random families over 5..8 variables not enumerated".into(),
        ],
        hang_is_violation: false,
        shard_timeout: (600, 3600),
    }
}

pub fn shards(tier: &str) -> Vec<String> {
    let mut v = vec![];
    for o in model::perms(3) {
        for part in ["unary", "union", "intsec", "diff", "mknode", "addvars"] {
            v.push(format!("{}:{part}", model::order_str(&o)));
        }
    }
    // set operations on families that lived through a reordering (a sparse live set: level swaps then really
    // free and create nodes), every ordered pair of distinct orders
    for o1 in model::perms(3) {
        for o2 in model::perms(3) {
            if o1 != o2 {
                v.push(format!("{}:re{}", model::order_str(&o1), model::order_str(&o2)));
            }
        }
    }
    // variable numbers beyond 8 bits: a cache key or table that truncates the variable is hit here
    v.push("012:wide".into());
    if tier == "thorough" {
        for o in ["0123", "3210", "1302"] {
            for p in 0..8 {
                v.push(format!("{o}:n4p{p}"));
            }
        }
    }
    v
}

fn case(n: u32, order: &[u32], op: &str, operands: &[Tab], expected: Tab, got: &str) -> serde_json::Value {
    json!({"kind": "zbdd", "n": n, "order": model::order_str(order), "op": op, "operands": operands, "expected": expected, "got": got})
}

fn check(ctx: &mut Ctx, n: u32, order: &[u32], op: &str, operands: &[Tab], expected: Tab, res: oxidd_core::util::AllocResult<ZBDDFunction>, nontriv: bool) {
    ctx.count("evaluations", 1);
    if nontriv {
        ctx.count("nontrivial", 1);
    }
    let got = match res {
        Err(_) => Err("OutOfMemory".to_string()),
        Ok(h) => Zbdd::table(&h),
    };
    if got != Ok(expected) {
        let class = match &got {
            Ok(_) => "wrong_value",
            Err(e) if e == "OutOfMemory" => "unexpected_oom",
            Err(_) => "malformed",
        };
        ctx.viol(
            attrs(&[("kind", "zbdd"), ("op", op), ("class", class)]),
            case(n, order, op, operands, expected, &format!("{got:x?}")),
            &format!("zbdd order {} {op}{operands:x?}: expected family {expected:#x}, got {got:x?}", model::order_str(order)),
        );
    }
}

fn nt(t: Tab) -> bool {
    t > 1
}

/// 300 variables, families over the variables {0, 1, 2, 256, 257, 258}: subset0 / subset1 / change for every
/// ordered pair (v, w) of those variables, back to back on the same family (no collection in between); every
/// answer must be the handle of the model family (families are built with make_node + union only).
fn run_wide(ctx: &mut Ctx) {
    use std::collections::BTreeSet;
    type Fam = BTreeSet<BTreeSet<u32>>;
    ctx.group("300 variables: subset0/subset1/change on variables that agree modulo 256", |ctx| {
        let mref = oxidd::zbdd::new_manager(1 << 14, 1 << 12, 1);
        mref.with_manager_exclusive(|m| {
            m.add_vars(300);
        });
        let build = |fam: &Fam| -> ZBDDFunction {
            mref.with_manager_shared(|m| {
                let mut acc = ZBDDFunction::empty(m);
                for s in fam {
                    let mut c = ZBDDFunction::base(m);
                    for &v in s.iter().rev() {
                        let var = ZBDDFunction::singleton(m, v).expect("harness: singleton");
                        let hi = m.clone_edge(c.as_edge(m));
                        let lo = m.clone_edge(ZBDDFunction::empty(m).as_edge(m));
                        c = ZBDDFunction::from_edge(m, oxidd::zbdd::make_node(m, var.as_edge(m), hi, lo).expect("harness: make_node"));
                    }
                    acc = acc.union(&c).expect("harness: union");
                }
                acc
            })
        };
        let w = [0u32, 1, 2, 256, 257, 258];
        let set = |v: &[u32]| -> BTreeSet<u32> { v.iter().copied().collect() };
        let fams: Vec<Fam> = vec![
            [set(&[0, 1, 257])].into_iter().collect(),
            [set(&[0, 1, 257]), set(&[1, 256]), set(&[2, 258]), set(&[0])].into_iter().collect(),
            [set(&[1, 257]), set(&[257]), set(&[1]), set(&[])].into_iter().collect(),
            [set(&[0, 2, 256, 258]), set(&[0, 1, 2, 256, 257, 258]), set(&[2, 258])].into_iter().collect(),
        ];
        for fam in &fams {
            let f = build(fam);
            for op in ["subset0", "subset1", "change"] {
                for &a in &w {
                    for &b in &w {
                        for v in [a, b] {
                            ctx.count("evaluations", 1);
                            ctx.count("nontrivial", 1);
                            let exp: Fam = match op {
                                "subset0" => fam.iter().filter(|s| !s.contains(&v)).cloned().collect(),
                                "subset1" => fam.iter().filter(|s| s.contains(&v)).map(|s| { let mut t = s.clone(); t.remove(&v); t }).collect(),
                                _ => fam.iter().map(|s| { let mut t = s.clone(); if !t.remove(&v) { t.insert(v); } t }).collect(),
                            };
                            let got = match op {
                                "subset0" => f.subset0(v),
                                "subset1" => f.subset1(v),
                                _ => f.change(v),
                            };
                            let ok = matches!(&got, Ok(g) if *g == build(&exp));
                            if !ok {
                                ctx.viol(
                                    attrs(&[("kind", "zbdd"), ("op", op), ("class", "wide_variable")]),
                                    json!({"kind": "zbdd", "vars": 300, "family": format!("{fam:?}"), "op": op, "var": v, "after_pair": [a, b]}),
                                    &format!("zbdd with 300 variables: {op}({fam:?}, {v}) (request pair {a}, {b}) is not the family {exp:?}"),
                                );
                            }
                        }
                    }
                }
            }
        }
    });
}

pub fn run(ctx: &mut Ctx) {
    let shard = ctx.shard.clone();
    let (o, part) = shard.split_once(':').unwrap();
    let order = model::parse_order(o);
    let tc = ThreadCfg { threads: 1, split: None };
    if part == "wide" {
        return run_wide(ctx);
    }
    if let Some(p) = part.strip_prefix("n4p") {
        return run_n4(ctx, &order, p.parse().unwrap());
    }
    if let Some(o2) = part.strip_prefix("re") {
        let o2 = model::parse_order(o2);
        let n = 3u32;
        let label = format!("reorder {}>{}", model::order_str(&order), model::order_str(&o2));
        ctx.group(&label, |ctx| {
            // two live sets: all 256 families, and a sparse one
            for sparse in [false, true] {
                let tabs: Vec<Tab> = if sparse { model::subset3().into_iter().step_by(3).chain([0x16u64, 0x68, 0x81, 0x42]).collect() } else { (0..256).collect() };
                let (mref, fns) = functions_of::<Zbdd>(n, &order, 1024, tc, &tabs);
                Zbdd::set_order(&mref, &o2);
                for (f, &t) in fns.iter().zip(&tabs) {
                    check(ctx, n, &o2, "family_after_reorder", &[t], t, Ok(f.clone()), nt(t));
                    for v in 0..n {
                        check(ctx, n, &o2, "subset0", &[t, v as Tab], model::fam_subset0(t, v, n), f.subset0(v), nt(t));
                        check(ctx, n, &o2, "subset1", &[t, v as Tab], model::fam_subset1(t, v, n), f.subset1(v), nt(t));
                        check(ctx, n, &o2, "change", &[t, v as Tab], model::fam_change(t, v, n), f.change(v), nt(t));
                    }
                }
                let step = if sparse { 1 } else { 5 };
                for (f, &a) in fns.iter().zip(&tabs).step_by(step) {
                    for (g, &b) in fns.iter().zip(&tabs).step_by(step) {
                        check(ctx, n, &o2, "union", &[a, b], a | b, f.union(g), nt(a) && nt(b) && a != b);
                        check(ctx, n, &o2, "intsec", &[a, b], a & b, f.intsec(g), nt(a) && nt(b) && a != b);
                        check(ctx, n, &o2, "diff", &[a, b], a & !b & 0xff, f.diff(g), nt(a) && nt(b) && a != b);
                    }
                }
                mref.with_manager_shared(|m| {
                    for v in 0..n {
                        check(ctx, n, &o2, "singleton", &[v as Tab], 1 << (1 << v), ZBDDFunction::singleton(m, v), true);
                    }
                });
            }
            ctx.sample(|| case(n, &o2, "union", &[0x16, 0x68], 0x7e, &label));
        });
        return;
    }
    let n = 3u32;
    match part {
        "unary" => ctx.group("unary", |ctx| {
            let (mref, fns) = all_functions::<Zbdd>(n, &order, 1024, tc);
            mref.with_manager_shared(|m| {
                check(ctx, n, &order, "empty", &[], 0, Ok(ZBDDFunction::empty(m)), false);
                check(ctx, n, &order, "base", &[], 1, Ok(ZBDDFunction::base(m)), false);
                for v in 0..n {
                    check(ctx, n, &order, "singleton", &[v as Tab], 1 << (1 << v), ZBDDFunction::singleton(m, v), true);
                }
            });
            for (t, f) in fns.iter().enumerate() {
                let t = t as Tab;
                for v in 0..n {
                    check(ctx, n, &order, "subset0", &[t, v as Tab], model::fam_subset0(t, v, n), f.subset0(v), nt(t));
                    check(ctx, n, &order, "subset1", &[t, v as Tab], model::fam_subset1(t, v, n), f.subset1(v), nt(t));
                    check(ctx, n, &order, "change", &[t, v as Tab], model::fam_change(t, v, n), f.change(v), nt(t));
                }
                // Boolean view: eval over all variables = membership
                for a in 0..(1u32 << n) {
                    ctx.count("evaluations", 1);
                    let got = f.eval((0..n).map(|v| (v, (a >> v) & 1 == 1)));
                    if got != model::bit(t, a) {
                        ctx.viol(
                            attrs(&[("kind", "zbdd"), ("op", "eval_membership"), ("class", "wrong_value")]),
                            case(n, &order, "eval", &[t, a as Tab], model::bit(t, a) as Tab, &got.to_string()),
                            &format!("zbdd eval of family {t:#x} on set {a:#b} = {got}"),
                        );
                    }
                }
            }
            // Boolean view with argument lists that mention variables repeatedly (the last value counts)
            for (seq, a) in super::c02::arg_lists(n, if ctx.thorough() { 6 } else { 5 }) {
                for (t, f) in fns.iter().enumerate() {
                    let t = t as Tab;
                    ctx.count("evaluations", 1);
                    if nt(t) {
                        ctx.count("nontrivial", 1);
                    }
                    let got = f.eval(seq.iter().copied());
                    if got != model::bit(t, a) {
                        ctx.viol(
                            attrs(&[("kind", "zbdd"), ("op", "eval_args"), ("class", "wrong_value")]),
                            case(n, &order, "eval_args", &[t, a as Tab], model::bit(t, a) as Tab, &format!("{seq:?} -> {got}")),
                            &format!("zbdd eval of family {t:#x} with arguments {seq:?} (last value counts: set {a:#b}) = {got}"),
                        );
                    }
                }
            }
            ctx.sample(|| case(n, &order, "change", &[0x16, 1], model::fam_change(0x16, 1, n), "-"));
        }),
        "union" | "intsec" | "diff" => {
            let part = part.to_string();
            ctx.group(&part.clone(), |ctx| {
                let (mref, fns) = all_functions::<Zbdd>(n, &order, 1024, tc);
                for (a, f) in fns.iter().enumerate() {
                    for (b, g) in fns.iter().enumerate() {
                        let (a, b) = (a as Tab, b as Tab);
                        let (exp, res) = match part.as_str() {
                            "union" => (a | b, f.union(g)),
                            "intsec" => (a & b, f.intsec(g)),
                            _ => (a & !b, f.diff(g)),
                        };
                        check(ctx, n, &order, &part, &[a, b], exp, res, nt(a) && nt(b) && a != b);
                    }
                    if a % 64 == 63 {
                        mref.with_manager_shared(|m| m.gc());
                    }
                }
                ctx.sample(|| case(n, &order, &part, &[0x16, 0x68], 0, "-"));
            })
        }
        "mknode" => ctx.group("mknode", |ctx| {
            let (mref, fns) = all_functions::<Zbdd>(n, &order, 1024, tc);
            for (lvl, &v) in order.iter().enumerate() {
                // families mentioning only variables strictly below level lvl
                let below: u32 = order[lvl + 1..].iter().map(|&w| 1u32 << w).sum();
                let allowed: Vec<Tab> = (0..256u64)
                    .filter(|&t| (0..8u32).all(|s| !model::bit(t, s) || s & !below == 0))
                    .collect();
                let var = mref.with_manager_shared(|m| ZBDDFunction::singleton(m, v).unwrap());
                for &hi in &allowed {
                    for &lo in &allowed {
                        let exp = model::fam_node(v, hi, lo, n);
                        let res = mref.with_manager_shared(|m| {
                            let h = m.clone_edge(fns[hi as usize].as_edge(m));
                            let l = m.clone_edge(fns[lo as usize].as_edge(m));
                            oxidd::zbdd::make_node(m, var.as_edge(m), h, l).map(|e| ZBDDFunction::from_edge(m, e))
                        });
                        check(ctx, n, &order, "make_node", &[v as Tab, hi, lo], exp, res, hi != 0);
                    }
                }
            }
            // reference counts must still be exact (make_node takes ownership of hi/lo)
            let live: Vec<&ZBDDFunction> = fns.iter().collect();
            let info = Zbdd::audit(&mref, &live, true);
            ctx.count("evaluations", 1);
            if let Some(e) = info.errors.first() {
                ctx.viol(
                    attrs(&[("kind", "zbdd"), ("op", "make_node"), ("class", "audit")]),
                    case(n, &order, "make_node:audit", &[], 0, e),
                    &format!("zbdd audit after make_node sweep: {e}"),
                );
            }
        }),
        "addvars" => ctx.group("addvars", |ctx| {
            let (mref, fns) = all_functions::<Zbdd>(n, &order, 1024, tc);
            let mut nn = n;
            for round in 0..2 {
                // fill the apply cache with operations against the family of all sets over the current variables
                // (and its complement-like uses); the results are temporaries
                if nn == n {
                    let all = mref.with_manager_shared(|m| ZBDDFunction::t(m));
                    for f in fns.iter() {
                        let _ = all.diff(f);
                        let _ = all.intsec(f);
                        let _ = f.not();
                    }
                }
                mref.with_manager_exclusive(|m| {
                    m.add_vars(1);
                });
                nn += 1;
                let cur: Vec<u32> = mref.with_manager_shared(|m| (0..nn).map(|l| m.level_to_var(l)).collect());
                for (t, f) in fns.iter().enumerate() {
                    let t = t as Tab;
                    ctx.count("evaluations", 1);
                    if nt(t) {
                        ctx.count("nontrivial", 1);
                    }
                    let got = Zbdd::table(f);
                    if got != Ok(t) {
                        ctx.viol(
                            attrs(&[("kind", "zbdd"), ("op", "add_vars"), ("class", "family_changed")]),
                            case(nn, &cur, "add_vars", &[t], t, &format!("{got:x?}")),
                            &format!("zbdd family {t:#x} reads as {got:x?} after add_vars round {round}"),
                        );
                    }
                    // Boolean view over n+1 variables
                    for a in 0..(1u32 << nn) {
                        ctx.count("evaluations", 1);
                        let g = f.eval((0..nn).map(|v| (v, (a >> v) & 1 == 1)));
                        let exp = model::bit(t, a) && a < 8;
                        if g != exp {
                            ctx.viol(
                                attrs(&[("kind", "zbdd"), ("op", "add_vars"), ("class", "boolean_view")]),
                                case(nn, &cur, "eval_after_add_vars", &[t, a as Tab], exp as Tab, &g.to_string()),
                                &format!("zbdd Boolean view of family {t:#x} after add_vars: eval({a:#b}) = {g}, expected {exp}"),
                            );
                        }
                    }
                }
                // the families "all sets over the variables from level l downwards" (what the manager keeps
                // internally for the full family) against every old handle
                if nn <= 4 {
                    for l in 0..nn {
                        let vars_below: u32 = (l..nn).map(|lv| 1u32 << cur[lv as usize]).sum();
                        let xt: Tab = (0..(1u32 << nn)).filter(|s| s & !vars_below == 0).map(|s| 1u64 << s).sum();
                        let xf = Zbdd::build(&mref, xt).unwrap();
                        for (t, f) in fns.iter().enumerate() {
                            let t = t as Tab;
                            check(ctx, nn, &cur, "diff_all_below", &[xt, t], xt & !t, xf.diff(f), nt(t));
                            check(ctx, nn, &cur, "intsec_all_below", &[xt, t], xt & t, xf.intsec(f), nt(t));
                        }
                    }
                }
                // operations between old handles and handles that mention the new variable
                let newv = nn - 1;
                let s_new = mref.with_manager_shared(|m| ZBDDFunction::singleton(m, newv).unwrap());
                let x_new = mref.with_manager_shared(|m| ZBDDFunction::var(m, newv).unwrap());
                let s_tab: Tab = 1 << (1u32 << newv);
                let x_tab = model::var_tab(newv, nn);
                for (t, f) in fns.iter().enumerate() {
                    let t = t as Tab;
                    check(ctx, nn, &cur, "union_new", &[t, s_tab], t | s_tab, f.union(&s_new), nt(t));
                    check(ctx, nn, &cur, "change_new", &[t, newv as Tab], model::fam_change(t, newv, nn), f.change(newv), nt(t));
                    check(ctx, nn, &cur, "intsec_xnew", &[t, x_tab], t & x_tab, f.intsec(&x_new), nt(t));
                    check(ctx, nn, &cur, "or_xnew", &[t, x_tab], t | x_tab, f.or(&x_new), nt(t));
                    check(ctx, nn, &cur, "not_after_add", &[t], model::not(t, nn), f.not(), nt(t));
                    let g = f.change(newv);
                    if let Ok(g) = g {
                        check(ctx, nn, &cur, "subset1_new", &[model::fam_change(t, newv, nn), newv as Tab], t, g.subset1(newv), nt(t));
                        check(ctx, nn, &cur, "diff_mixed", &[model::fam_change(t, newv, nn), t], model::fam_change(t, newv, nn) & !t, g.diff(f), nt(t));
                    }
                }
            }
        }),
        _ => panic!("bad part"),
    }
}

fn run_n4(ctx: &mut Ctx, order: &[u32], part: u64) {
    let n = 4u32;
    let order = order.to_vec();
    ctx.group(&format!("n4 part {part}"), |ctx| {
        let mref = crate::dd::fresh::<Zbdd>(n, &order, 1 << 20, 4096, 1);
        for t in part * 8192..(part + 1) * 8192 {
            let f = Zbdd::build(&mref, t).unwrap();
            for v in 0..n {
                check(ctx, n, &order, "subset0", &[t, v as Tab], model::fam_subset0(t, v, n), f.subset0(v), nt(t));
                check(ctx, n, &order, "subset1", &[t, v as Tab], model::fam_subset1(t, v, n), f.subset1(v), nt(t));
                check(ctx, n, &order, "change", &[t, v as Tab], model::fam_change(t, v, n), f.change(v), nt(t));
            }
            let u = (t.wrapping_mul(0x9e37) ^ 0x5a5a) & 0xffff;
            let g = Zbdd::build(&mref, u).unwrap();
            check(ctx, n, &order, "union", &[t, u], t | u, f.union(&g), nt(t) && nt(u));
            check(ctx, n, &order, "intsec", &[t, u], t & u, f.intsec(&g), nt(t) && nt(u));
            check(ctx, n, &order, "diff", &[t, u], t & !u, f.diff(&g), nt(t) && nt(u));
            if t % 512 == 511 {
                mref.with_manager_shared(|m| m.gc());
            }
        }
    });
}
