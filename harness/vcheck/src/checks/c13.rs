//! C13 — cube picking (E-INPUT exhaustive: 256 functions x 6 orders x all choice
//! vectors x all 27 literal sets x 64 RNG seeds; BDD, BCDD, ZBDD).

use oxidd::util::{OptBool, Rng, SatCountCache};
use oxidd::{BooleanFunction, Function, HasLevel, Manager, ManagerRef, Node};
use serde_json::json;

use super::boolops::*;
use crate::dd::{Bcdd, Bdd, BoolKind, Zbdd};
use crate::driver::Meta;
use crate::model::{self, BKind, Tab};
use crate::proto::{Ctx, attrs};

pub fn meta() -> Meta {
    Meta {
        level: "exploration",
        rule: "exhaustive for n=3: all 256 functions x all 6 orders x kinds {bdd,bcdd,zbdd}: pick_cube and pick_cube_dd under all 8 per-level choice vectors (closure calls recorded), pick_cube_dd_set under all 27 literal sets, pick_cube_uniform for RNG seeds 0..64 with exact replay of the WyRand stream against model branch probabilities, with a fresh count cache per call, with one cache (cache_all) shared by all functions across two reorderings, and (n=3 all functions, n=4 every third function under 2 orders) for a function that is alone in its manager with cache_all off and on. The expected cube is derived from the truth-table/family model alone (forced <=> other cofactor unsatisfiable; independent/hi==lo <=> don't care; ZBDD skipped level <=> false). thorough: n=4, 2 orders, 16 choice vectors, 81 literal sets. Non-trivial: the function is satisfiable and not a tautology.",
        assumptions: vec![
            "nanorand::WyRand (oxidd::util::Rng) is deterministic for a given seed; the harness clones the generator to predict draws".into(),
            "statistical uniformity is not sampled; it follows from exact agreement with the model's models-proportional branch probabilities".into(),
        ],
        hang_is_violation: false,
        shard_timeout: (600, 3600),
    }
}

pub fn shards(tier: &str) -> Vec<String> {
    let mut v = vec![];
    for k in ["bdd", "bcdd", "zbdd"] {
        for o in model::perms(3) {
            v.push(format!("{k}:{}", model::order_str(&o)));
        }
    }
    // four variables, the function alone in its manager (every third table)
    for k in ["bdd", "bcdd", "zbdd"] {
        for o in ["0123", "2310"] {
            v.push(format!("{k}:{o}:alone"));
        }
    }
    if tier == "thorough" {
        for k in ["bdd", "bcdd", "zbdd"] {
            for o in ["0123", "2310"] {
                for p in 0..8 {
                    v.push(format!("{k}:{o}:{p}"));
                }
            }
        }
    }
    v
}

pub fn run(ctx: &mut Ctx) {
    let shard = ctx.shard.clone();
    let p: Vec<&str> = shard.split(':').collect();
    let order = model::parse_order(p[1]);
    if p.get(2) == Some(&"alone") {
        return match p[0] {
            "bdd" => alone_group::<Bdd>(ctx, 4, &order, 3),
            "bcdd" => alone_group::<Bcdd>(ctx, 4, &order, 3),
            _ => alone_group::<Zbdd>(ctx, 4, &order, 3),
        };
    }
    let part: Option<u64> = p.get(2).map(|s| s.parse().unwrap());
    match p[0] {
        "bdd" => run_k::<Bdd>(ctx, &order, part),
        "bcdd" => run_k::<Bcdd>(ctx, &order, part),
        "zbdd" => run_k::<Zbdd>(ctx, &order, part),
        _ => panic!(),
    }
}

/// Uniform picking of a function that is ALONE in its manager (each of its inner nodes has one parent unless the
/// function itself shares it), with a fresh cache, cache_all off and on: every `step`-th table; the previous
/// function is dropped and collected before the next one is built.
fn alone_group<K: BoolKind>(ctx: &mut Ctx, n: u32, order: &[u32], step: u64) {
    use oxidd::{Manager, ManagerRef};
    let zbdd = K::BK == BKind::Zbdd;
    ctx.group(&format!("pick_cube_uniform n={n}, function alone in its manager"), |ctx| {
        let mref = crate::dd::fresh::<K>(n, order, 1024, 64, 1);
        let mut t = 1u64;
        while t < (1u64 << (1 << n)) {
            let f = K::build(&mref, t).unwrap();
            for cache_all in [false, true] {
                for seed in 0..8u64 {
                    ctx.count("evaluations", 1);
                    ctx.count("nontrivial", 1);
                    let mut rng = Rng::new_seed(seed);
                    let mut shadow = rng.clone();
                    let mut cache: SatCountCache<oxidd::util::num::F64, std::hash::BuildHasherDefault<rustc_hash::FxHasher>> = SatCountCache::default();
                    cache.cache_all = cache_all;
                    let got = f.pick_cube_uniform(&mut cache, &mut rng).map(|c| ob(&c));
                    let (exp, _) = expected_cube(zbdd, t, n, order, |_, g1, g0| {
                        use nanorand::Rng as _;
                        let r: f64 = shadow.generate::<f64>();
                        let a = g1.count_ones() as f64;
                        let b = g0.count_ones() as f64;
                        r < a / (a + b)
                    });
                    if got.as_ref() != Some(&exp) {
                        ctx.viol(
                            attrs(&[("kind", K::NAME), ("op", "pick_cube_uniform"), ("class", "biased_branch_alone")]),
                            case::<K>(n, order, "pick_cube_uniform", t, json!({"seed": seed, "cache_all": cache_all, "alone_in_manager": true}), &format!("{exp:?}"), &format!("{got:?}")),
                            &format!("{} order {} pick_cube_uniform of {t:#x} (the only function of its manager, cache_all = {cache_all}) seed {seed}: {got:?}, but models-proportional branching with the same random draws gives {exp:?}", K::NAME, model::order_str(order)),
                        );
                    }
                }
            }
            drop(f);
            mref.with_manager_shared(|m| m.gc());
            t += step;
        }
    });
}

#[derive(Clone, Copy, PartialEq, Eq, Debug)]
enum Step {
    DontCare,
    Forced(bool),
    Choice,
    Done,
}

/// What the model says about the variable at `level` given the current
/// sub-function/sub-family `g`; returns (step, g1, g0).
fn step(zbdd: bool, g: Tab, v: u32, n: u32) -> (Step, Tab, Tab) {
    if zbdd {
        let g1 = model::fam_subset1(g, v, n);
        let g0 = model::fam_subset0(g, v, n);
        if g1 == g0 {
            (Step::DontCare, g1, g0)
        } else if g1 == 0 {
            (Step::Forced(false), g1, g0)
        } else if g0 == 0 {
            (Step::Forced(true), g1, g0)
        } else {
            (Step::Choice, g1, g0)
        }
    } else {
        if g == model::full(n) {
            return (Step::Done, g, g);
        }
        let g1 = model::cofactor(g, v, true, n);
        let g0 = model::cofactor(g, v, false, n);
        if g1 == g0 {
            (Step::DontCare, g1, g0)
        } else if g1 == 0 {
            (Step::Forced(false), g1, g0)
        } else if g0 == 0 {
            (Step::Forced(true), g1, g0)
        } else {
            (Step::Choice, g1, g0)
        }
    }
}

/// Expected cube (per variable: None / Some(bool)) for a per-level choice
/// function; also returns the levels at which the choice function must have
/// been consulted.
fn expected_cube(zbdd: bool, f: Tab, n: u32, order: &[u32], mut choice: impl FnMut(u32, Tab, Tab) -> bool) -> (Vec<Option<bool>>, Vec<u32>) {
    let mut cube = vec![None; n as usize];
    let mut asked = vec![];
    let mut g = f;
    for (lvl, &v) in order.iter().enumerate() {
        let (s, g1, g0) = step(zbdd, g, v, n);
        match s {
            Step::Done => break,
            Step::DontCare => {
                cube[v as usize] = None;
                g = g1;
            }
            Step::Forced(b) => {
                cube[v as usize] = Some(b);
                g = if b { g1 } else { g0 };
            }
            Step::Choice => {
                let b = choice(lvl as u32, g1, g0);
                asked.push(lvl as u32);
                cube[v as usize] = Some(b);
                g = if b { g1 } else { g0 };
            }
        }
    }
    (cube, asked)
}

fn cube_to_tab(cube: &[Option<bool>], n: u32) -> Tab {
    let mut pos = 0;
    let mut neg = 0;
    for (v, c) in cube.iter().enumerate() {
        match c {
            Some(true) => pos |= 1 << v,
            Some(false) => neg |= 1 << v,
            None => {}
        }
    }
    model::cube_tab(pos, neg, n)
}

fn ob(c: &[OptBool]) -> Vec<Option<bool>> {
    c.iter()
        .map(|x| match x {
            OptBool::None => None,
            OptBool::False => Some(false),
            OptBool::True => Some(true),
        })
        .collect()
}

/// decode a table that is a conjunction of literals into per-variable values
fn tab_to_cube(t: Tab, n: u32) -> Option<Vec<Option<bool>>> {
    if t == 0 {
        return None;
    }
    let mut cube = vec![None; n as usize];
    for v in 0..n {
        let c1 = model::cofactor(t, v, true, n);
        let c0 = model::cofactor(t, v, false, n);
        if c1 == c0 {
        } else if c0 == 0 {
            cube[v as usize] = Some(true);
        } else if c1 == 0 {
            cube[v as usize] = Some(false);
        } else {
            return None;
        }
    }
    if cube_to_tab(&cube, n) == t { Some(cube) } else { None }
}

fn case<K: BoolKind>(n: u32, order: &[u32], op: &str, f: Tab, extra: serde_json::Value, expected: &str, got: &str) -> serde_json::Value {
    json!({"kind": K::NAME, "n": n, "order": model::order_str(order), "op": op, "f": f, "extra": extra, "expected": expected, "got": got})
}

fn run_k<K: BoolKind>(ctx: &mut Ctx, order: &[u32], part: Option<u64>)
where
    for<'id> <<K::F as Function>::Manager<'id> as Manager>::InnerNode: HasLevel,
{
    let n = order.len() as u32;
    let zbdd = K::BK == BKind::Zbdd;
    let order = order.to_vec();
    let tc = ThreadCfg { threads: 1, split: None };
    let (lo, hi, seeds) = match part {
        None => (0u64, 256u64, 64u64),
        Some(p) => (p * 8192, p * 8192 + 8192, 4),
    };
    let label = format!("pick n={n} {lo}..{hi}");
    ctx.group(&label, |ctx| {
        let mref = crate::dd::fresh::<K>(n, &order, 1 << 18, 1024, tc.threads);
        // all literal sets
        let mut lits = vec![];
        for pos in 0..(1u32 << n) {
            for neg in 0..(1u32 << n) {
                if pos & neg == 0 {
                    lits.push((pos, neg, K::build(&mref, model::cube_tab(pos, neg, n)).unwrap()));
                }
            }
        }
        let lit_stride = if n == 4 { 1 } else { 1 };
        for t in lo..hi {
            let f = K::build(&mref, t).unwrap();
            let nontriv = t != 0 && t != model::full(n);
            // ---- pick_cube / pick_cube_dd under every choice vector
            for cv in 0..(1u32 << n) {
                ctx.count("evaluations", 2);
                if nontriv {
                    ctx.count("nontrivial", 1);
                }
                let (exp, exp_asked) = expected_cube(zbdd, t, n, &order, |lvl, _, _| (cv >> lvl) & 1 == 1);
                let mut calls: Vec<(u32, bool)> = vec![]; // (level, edge is inner node at that level)
                let got = f.pick_cube(|m, e, lvl| {
                    let ok = match m.get_node(e) {
                        Node::Inner(nd) => nd.level() == lvl,
                        _ => false,
                    };
                    calls.push((lvl, ok));
                    (cv >> lvl) & 1 == 1
                });
                let mut calls_dd: Vec<(u32, bool)> = vec![];
                let got_dd = f.pick_cube_dd(|m, e, lvl| {
                    let ok = match m.get_node(e) {
                        Node::Inner(nd) => nd.level() == lvl,
                        _ => false,
                    };
                    calls_dd.push((lvl, ok));
                    (cv >> lvl) & 1 == 1
                });
                let extra = json!({"choice_vector_by_level": cv});
                if t == 0 {
                    let dd_tab = got_dd.as_ref().map(|h| K::table(h));
                    if got.is_some() || !matches!(dd_tab, Ok(Ok(0))) {
                        ctx.viol(
                            attrs(&[("kind", K::NAME), ("op", "pick_cube"), ("class", "unsat_not_none")]),
                            case::<K>(n, &order, "pick_cube", t, extra, "None / false", &format!("{got:?} / {dd_tab:x?}")),
                            &format!("{} pick_cube/pick_cube_dd of the unsatisfiable function: {got:?} / {dd_tab:x?}", K::NAME),
                        );
                    }
                    continue;
                }
                // protocol of the choice closure
                for (which, cs) in [("pick_cube", &calls), ("pick_cube_dd", &calls_dd)] {
                    let mut lv: Vec<u32> = cs.iter().map(|c| c.0).collect();
                    lv.sort();
                    let dupl = lv.windows(2).any(|w| w[0] == w[1]);
                    let bad_edge = cs.iter().any(|c| !c.1);
                    if dupl || bad_edge {
                        ctx.viol(
                            attrs(&[("kind", K::NAME), ("op", which), ("class", "choice_protocol")]),
                            case::<K>(n, &order, which, t, extra.clone(), "each level at most once, edge = inner node of that level", &format!("{cs:?}")),
                            &format!("{} {which} of {t:#x}: choice closure calls {cs:?} (level, edge-ok)", K::NAME),
                        );
                    }
                    let mut ea = exp_asked.clone();
                    ea.sort();
                    if lv != ea {
                        ctx.viol(
                            attrs(&[("kind", K::NAME), ("op", which), ("class", "choice_levels")]),
                            case::<K>(n, &order, which, t, extra.clone(), &format!("{ea:?}"), &format!("{lv:?}")),
                            &format!("{} order {} {which} of {t:#x}: choice consulted at levels {lv:?}, but the unforced levels on the path are {ea:?}", K::NAME, model::order_str(&order)),
                        );
                    }
                }
                match &got {
                    None => ctx.viol(
                        attrs(&[("kind", K::NAME), ("op", "pick_cube"), ("class", "none_for_sat")]),
                        case::<K>(n, &order, "pick_cube", t, extra.clone(), &format!("{exp:?}"), "None"),
                        &format!("{} pick_cube of satisfiable {t:#x} returned None", K::NAME),
                    ),
                    Some(c) => {
                        let c = ob(c);
                        let ct = if c.len() == n as usize { cube_to_tab(&c, n) } else { 0 };
                        if c.len() != n as usize || ct & !t != 0 || ct == 0 {
                            ctx.viol(
                                attrs(&[("kind", K::NAME), ("op", "pick_cube"), ("class", "not_implicant")]),
                                case::<K>(n, &order, "pick_cube", t, extra.clone(), &format!("{exp:?}"), &format!("{c:?}")),
                                &format!("{} order {} pick_cube of {t:#x} (choices {cv:#b}) = {c:?} does not imply the function", K::NAME, model::order_str(&order)),
                            );
                        } else if c != exp {
                            ctx.viol(
                                attrs(&[("kind", K::NAME), ("op", "pick_cube"), ("class", "choice_or_dontcare")]),
                                case::<K>(n, &order, "pick_cube", t, extra.clone(), &format!("{exp:?}"), &format!("{c:?}")),
                                &format!("{} order {} pick_cube of {t:#x} (choices by level {cv:#b}) = {c:?}, expected {exp:?}", K::NAME, model::order_str(&order)),
                            );
                        }
                        // same cube from pick_cube_dd
                        let ddt = got_dd.as_ref().map(|h| K::table(h));
                        let same = matches!(&ddt, Ok(Ok(x)) if *x == ct);
                        if !same {
                            ctx.viol(
                                attrs(&[("kind", K::NAME), ("op", "pick_cube_dd"), ("class", "differs_from_pick_cube")]),
                                case::<K>(n, &order, "pick_cube_dd", t, extra.clone(), &format!("{ct:#x}"), &format!("{ddt:x?}")),
                                &format!("{} order {} pick_cube_dd of {t:#x} (choices {cv:#b}) = {ddt:x?} but pick_cube describes {ct:#x}", K::NAME, model::order_str(&order)),
                            );
                        }
                    }
                }
            }
            // ---- pick_cube_dd_set
            for (pos, neg, lit) in lits.iter().step_by(lit_stride) {
                ctx.count("evaluations", 1);
                if nontriv && (pos | neg) != 0 {
                    ctx.count("nontrivial", 1);
                }
                let extra = json!({"literals_pos": pos, "literals_neg": neg});
                let r = f.pick_cube_dd_set(lit).map(|h| K::table(&h));
                let rt = match r {
                    Ok(Ok(x)) => x,
                    other => {
                        ctx.viol(
                            attrs(&[("kind", K::NAME), ("op", "pick_cube_dd_set"), ("class", "malformed")]),
                            case::<K>(n, &order, "pick_cube_dd_set", t, extra, "a cube", &format!("{other:x?}")),
                            &format!("{} pick_cube_dd_set of {t:#x}: {other:x?}", K::NAME),
                        );
                        continue;
                    }
                };
                if t == 0 {
                    if rt != 0 {
                        ctx.viol(
                            attrs(&[("kind", K::NAME), ("op", "pick_cube_dd_set"), ("class", "unsat_not_none")]),
                            case::<K>(n, &order, "pick_cube_dd_set", t, extra, "0", &format!("{rt:#x}")),
                            &format!("{} pick_cube_dd_set of false = {rt:#x}", K::NAME),
                        );
                    }
                    continue;
                }
                let Some(cube) = tab_to_cube(rt, n) else {
                    ctx.viol(
                        attrs(&[("kind", K::NAME), ("op", "pick_cube_dd_set"), ("class", "not_a_cube")]),
                        case::<K>(n, &order, "pick_cube_dd_set", t, extra, "a conjunction of literals", &format!("{rt:#x}")),
                        &format!("{} pick_cube_dd_set of {t:#x} with literals +{pos:#b} -{neg:#b} = {rt:#x}, not a cube", K::NAME),
                    );
                    continue;
                };
                if rt & !t != 0 {
                    ctx.viol(
                        attrs(&[("kind", K::NAME), ("op", "pick_cube_dd_set"), ("class", "not_implicant")]),
                        case::<K>(n, &order, "pick_cube_dd_set", t, extra, "implies f", &format!("{rt:#x}")),
                        &format!("{} pick_cube_dd_set of {t:#x} with literals +{pos:#b} -{neg:#b} = {rt:#x} does not imply the function", K::NAME),
                    );
                    continue;
                }
                // follow the returned cube through the model; at every real choice whose
                // variable occurs in the literal set the polarity must be the literal's
                let mut g = t;
                let mut bad: Option<String> = None;
                for &v in order.iter() {
                    let (s, g1, g0) = step(zbdd, g, v, n);
                    match s {
                        Step::Done => break,
                        Step::DontCare => {
                            // a ZBDD has a node with two equal children here: there is a choice, and a
                            // literal of the set decides it (BDD/BCDD have no node on this level at all)
                            if zbdd {
                                let want = if (pos >> v) & 1 == 1 {
                                    Some(true)
                                } else if (neg >> v) & 1 == 1 {
                                    Some(false)
                                } else {
                                    None
                                };
                                if let Some(w) = want {
                                    if cube[v as usize] != Some(w) {
                                        bad = Some(format!("variable {v} is free at a node with equal children and occurs {} in the literal set but the cube has {:?}", if w { "positively" } else { "negatively" }, cube[v as usize]));
                                        break;
                                    }
                                }
                            }
                            g = g1;
                        }
                        Step::Forced(b) => {
                            g = if b { g1 } else { g0 };
                        }
                        Step::Choice => {
                            let Some(b) = cube[v as usize] else { break };
                            let want = if (pos >> v) & 1 == 1 {
                                Some(true)
                            } else if (neg >> v) & 1 == 1 {
                                Some(false)
                            } else {
                                None
                            };
                            if let Some(w) = want {
                                if w != b {
                                    bad = Some(format!("variable {v} had a real choice and occurs {} in the literal set but was set to {b}", if w { "positively" } else { "negatively" }));
                                    break;
                                }
                            }
                            g = if b { g1 } else { g0 };
                        }
                    }
                }
                if let Some(b) = bad {
                    ctx.viol(
                        attrs(&[("kind", K::NAME), ("op", "pick_cube_dd_set"), ("class", "literal_polarity_ignored")]),
                        case::<K>(n, &order, "pick_cube_dd_set", t, extra, "literal polarity honoured", &format!("{cube:?}")),
                        &format!("{} order {} pick_cube_dd_set of {t:#x} with literals +{pos:#b} -{neg:#b} = {cube:?}: {b}", K::NAME, model::order_str(&order)),
                    );
                }
            }
            // ---- pick_cube_uniform: exact replay of the RNG stream
            for seed in 0..seeds {
                ctx.count("evaluations", 1);
                if nontriv {
                    ctx.count("nontrivial", 1);
                }
                let mut rng = Rng::new_seed(seed);
                let mut shadow = rng.clone();
                let mut cache: SatCountCache<oxidd::util::num::F64, std::hash::BuildHasherDefault<rustc_hash::FxHasher>> = SatCountCache::default();
                let got = f.pick_cube_uniform(&mut cache, &mut rng).map(|c| ob(&c));
                let extra = json!({"seed": seed});
                if t == 0 {
                    if got.is_some() {
                        ctx.viol(
                            attrs(&[("kind", K::NAME), ("op", "pick_cube_uniform"), ("class", "unsat_not_none")]),
                            case::<K>(n, &order, "pick_cube_uniform", t, extra, "None", &format!("{got:?}")),
                            &format!("{} pick_cube_uniform of false = {got:?}", K::NAME),
                        );
                    }
                    continue;
                }
                let (exp, _) = expected_cube(zbdd, t, n, &order, |_, g1, g0| {
                    use nanorand::Rng as _;
                    let r: f64 = shadow.generate::<f64>();
                    let a = g1.count_ones() as f64;
                    let b = g0.count_ones() as f64;
                    r < a / (a + b)
                });
                match got {
                    Some(c) if c == exp => {}
                    Some(c) => {
                        let ct = if c.len() == n as usize { cube_to_tab(&c, n) } else { 0 };
                        let class = if ct == 0 || ct & !t != 0 { "not_implicant" } else { "biased_branch" };
                        ctx.viol(
                            attrs(&[("kind", K::NAME), ("op", "pick_cube_uniform"), ("class", class)]),
                            case::<K>(n, &order, "pick_cube_uniform", t, extra, &format!("{exp:?}"), &format!("{c:?}")),
                            &format!("{} order {} pick_cube_uniform of {t:#x} seed {seed}: {c:?}, but models-proportional branching with the same random draws gives {exp:?}", K::NAME, model::order_str(&order)),
                        );
                    }
                    None => ctx.viol(
                        attrs(&[("kind", K::NAME), ("op", "pick_cube_uniform"), ("class", "none_for_sat")]),
                        case::<K>(n, &order, "pick_cube_uniform", t, extra, &format!("{exp:?}"), "None"),
                        &format!("{} pick_cube_uniform of satisfiable {t:#x} returned None", K::NAME),
                    ),
                }
            }
            if t % 64 == 63 {
                mref.with_manager_shared(|m| m.gc());
            }
        }
        ctx.sample(|| case::<K>(n, &order, "pick_cube", 0xe8, json!({"choice_vector_by_level": 5}), "-", "-"));
    });
    if part.is_none() {
        alone_group::<K>(ctx, n, &order, 1);
    }
    // uniform picking with ONE caller-owned count cache for all functions, used before and after a
    // reordering (every node counted): the branch probabilities must be those of the current diagram
    if part.is_none() {
        ctx.group(&format!("pick_cube_uniform n={n}, one cache across a reordering"), |ctx| {
            // (a sparse live set: with all 256 functions alive no node ever dies in a level swap)
            let live_tabs: Vec<Tab> = model::subset3().into_iter().step_by(5).chain([0xe8u64, 0x96, 0xca, 0x1b, 0x6a]).collect();
            let (mref, fns0) = functions_of::<K>(n, &order, 1024, tc, &live_tabs);
            let fns: Vec<(Tab, K::F)> = live_tabs.iter().copied().zip(fns0).collect();
            let mut cache: SatCountCache<oxidd::util::num::F64, std::hash::BuildHasherDefault<rustc_hash::FxHasher>> = SatCountCache::default();
            cache.cache_all = true;
            let mut cur = order.clone();
            for phase in 0..3 {
                if phase > 0 {
                    cur.rotate_left(1);
                    K::set_order(&mref, &cur);
                    // new functions (their nodes may reuse slots that the reordering freed)
                    let _h: Vec<_> = [0x3cu64, 0xa0, 0x5a, 0xc0].iter().map(|&t| K::build(&mref, t ^ phase as u64)).collect();
                }
                for (t, f) in fns.iter() {
                    let t = *t;
                    if t == 0 {
                        continue;
                    }
                    for seed in 0..8u64 {
                        ctx.count("evaluations", 1);
                        ctx.count("nontrivial", 1);
                        let mut rng = Rng::new_seed(seed);
                        let mut shadow = rng.clone();
                        let got = f.pick_cube_uniform(&mut cache, &mut rng).map(|c| ob(&c));
                        let (exp, _) = expected_cube(zbdd, t, n, &cur, |_, g1, g0| {
                            use nanorand::Rng as _;
                            let r: f64 = shadow.generate::<f64>();
                            let a = g1.count_ones() as f64;
                            let b = g0.count_ones() as f64;
                            r < a / (a + b)
                        });
                        if got.as_ref() != Some(&exp) {
                            ctx.viol(
                                attrs(&[("kind", K::NAME), ("op", "pick_cube_uniform"), ("class", "biased_branch"), ("cache", "reused_across_reordering")]),
                                case::<K>(n, &cur, "pick_cube_uniform", t, json!({"seed": seed, "reorderings_before": phase, "cache": "one SatCountCache for all functions, cache_all"}), &format!("{exp:?}"), &format!("{got:?}")),
                                &format!("{} order {} (after {phase} reorderings, one reused count cache) pick_cube_uniform of {t:#x} seed {seed}: {got:?}, but models-proportional branching with the same random draws gives {exp:?}", K::NAME, model::order_str(&cur)),
                            );
                        }
                    }
                }
            }
        });
    }
}
