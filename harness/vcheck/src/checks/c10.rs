//! C10 — MTBDD arithmetic is the point-wise lifting of exact terminal
//! arithmetic. E-INPUT, bounded exhaustive.
//!
//! Layers (see `meta().rule` for the bounds):
//!  1. scalars: every ordered pair of the boundary set x {add, sub, mul, div,
//!     partial_cmp, ==, hash} for `I64` (exact-integer model) and `F64` (IEEE
//!     with NaN / -0 normalised);
//!  2. diagrams: n = 2 (both orders), value tables over a 7-letter alphabet:
//!     add/sub/mul/div/min/max on all pairs of the 91 one-variable tables and
//!     all 2401 x 96 pairs with a 96-table set closed under variable swap in
//!     both operand positions (thorough: all 2401 x 2401 pairs), ite for all
//!     16 0-1-valued conditions,
//!     restrict for all 9 cubes on all 2401 tables, constant, var, eval;
//!     one manager per operator, so that a finding of this layer never depends
//!     on what another operator left in the apply cache; small n = 1 and
//!     n = 3 blocks;
//!  3. histories: every sequence of 2 or 3 different operators on the SAME
//!     operand pair, fresh manager per history, apply-cache capacity 1 / 4096.
//!
//! Oracle: model value table (`mtbdd::Num` / `mtbdd::Fl`) vs. the table my own
//! interpreter reads from the stored diagram.

use std::collections::BTreeMap;
use std::hash::{Hash, Hasher};

use oxidd::PseudoBooleanFunction;
use oxidd::mtbdd::terminal::F64;
use oxidd_core::function::NumberBase;
use oxidd_core::util::AllocResult;
use serde_json::{Value, json};

use crate::driver::Meta;
use crate::model;
use crate::mtbdd::{self as mt, Fl, MNum, MOPS, MOp, MtF64, MtI64, MtKind, MtRef, Num};
use crate::proto::{Ctx, attrs};

pub fn meta() -> Meta {
    Meta {
        level: "exploration",
        rule: "bounded exhaustive enumeration. Scalars: every ordered pair of {0,1,-1,2,3,-7,MIN,MIN+1,MAX,MAX-1,+inf,-inf,NaN} (I64) resp. {+-0,+-1,0.5,-7,f64::MAX,MIN_POSITIVE,+-inf,NaN,-NaN,NaN with payload} (F64) x {add,sub,mul,div,partial_cmp,==,hash}. Diagrams, per terminal type and variable order: n=2 value tables over the alphabet {0,1,-1,3,i64::MAX,+inf,NaN} (F64: {0,1,-1,0.5,f64::MAX,+inf,NaN}): add/sub/mul/div/min/max on all ordered pairs of the 91 one-variable tables and on all 2401 x 96 pairs with a 96-table set closed under variable swap, in both operand positions (thorough: all 2401 x 2401 ordered pairs), ite for all 16 0-1-valued conditions x all ordered (then, else) pairs of the 91 one-variable tables and of the 96-set (thorough: 91 x 91 and all 2401 x 96 in both positions), restrict for all 9 literal cubes x all 2401 tables, constant, var, build and eval on all assignments for all 2401 tables; n=1: everything on all 49 tables; n=3 (3 orders): all pairs of a 179-table set (the 133 one-variable tables at each variable, majority/parity/and/or, and 14 rotation triples of tables that depend on all three variables). Histories: every sequence of 2 or 3 pairwise different operators of {add,sub,mul,div,min,max} on the same operand pair, all ordered pairs of a 37-table set (thorough: of a 109-table set = the 96-set plus 13 one-variable tables, which contains the 37-set), apply-cache capacity 1 and 4096; every history starts on a manager that holds only its two operands and an empty apply cache (all handles dropped and gc() between histories, the first failures of a group are re-run on a manager of their own); a failing step is re-run alone and after each single earlier operator (attributes `dependence`, `after`). A diagram case is non-trivial when all operands are non-constant and pairwise distinct (no terminal or equality short-cut at the root; for restrict: non-constant function and non-empty cube); a scalar case is non-trivial when an operand or the expected result is infinite or NaN. n=3: build / eval / constant / var / restrict on a 179-table set under all six orders. Every enumerated case is distinct.",
        assumptions: vec![
            "operands are built through DiagramRules::reduce + then_insert + get_terminal, results are read back by the harness's own interpreter over Manager::get_node; eval is compared against the model separately".into(),
            "min/max: a NaN operand value yields NaN (NaN absorption as for the arithmetic operators; this is the only reading under which the library's terminal short-cut `min(NaN-terminal, g) = NaN` is a point-wise operation)".into(),
            "finite/infinity = 0 and infinity/0 = infinity of the dividend's sign (IEEE reading of 'x/0 = +-infinity by the sign of x')".into(),
            "NaN == NaN and partial_cmp(NaN, NaN) = Equal (documented at NumberBase::nan and tested by the library's own unit tests); partial_cmp with exactly one NaN is None".into(),
            "F64 model = the host's IEEE-754 double arithmetic, every NaN mapped to f64::NAN and -0.0 to 0.0".into(),
            "ite is only called with 0-1-valued conditions; restrict only with conjunctions of literals (positive literal = var, negative = 1 - var), as documented".into(),
            "index-based manager with threads = 1 (MTBDDs have no multi-threaded apply); canonicity of result handles is left to C01".into(),
            "functions over 4 variables and random operands are not enumerated".into(),
        ],
        hang_is_violation: false,
        shard_timeout: (300, 1800),
    }
}

pub fn shards(tier: &str) -> Vec<String> {
    let thorough = tier == "thorough";
    let mut v = vec![];
    // operator histories whose results are bare terminals, on a 4-entry terminal table (terminal values are
    // created, die and their slots are recycled within a history): lock-step with the model on managers of
    // several cache capacities (the engine of C06)
    v.extend(crate::hist::shards_for(&["mtbddk"], &["n64c0t1k4"], 1).into_iter().map(|s| format!("khist:{s}")));
    for k in ["i64", "f64"] {
        v.push(format!("{k}:scalars"));
        v.push(format!("{k}:n1:0:all"));
        for o in ["01", "10"] {
            v.push(format!("{k}:n2:{o}:basic"));
            v.push(format!("{k}:n2:{o}:iteu"));
            if !thorough {
                // every quick-tier case of these shards is contained in the
                // thorough-tier shards below
                v.push(format!("{k}:n2:{o}:binu"));
                for p in 0..BINALL_PARTS {
                    v.push(format!("{k}:n2:{o}:binall:p{p}"));
                }
                v.push(format!("{k}:n2:{o}:ites"));
                for c in [1, 4096] {
                    v.push(format!("{k}:n2:{o}:hist:c{c}"));
                }
            } else {
                for p in 0..BINFULL_PARTS {
                    v.push(format!("{k}:n2:{o}:binfull:p{p}"));
                }
                for p in 0..ITEFULL_PARTS {
                    v.push(format!("{k}:n2:{o}:itefull:p{p}"));
                }
                for c in [1, 4096] {
                    for p in 0..HISTFULL_PARTS {
                        v.push(format!("{k}:n2:{o}:histfull:c{c}:p{p}"));
                    }
                }
            }
        }
        for o in ["012", "210", "120"] {
            v.push(format!("{k}:n3:{o}:bin"));
        }
        // build / eval / constant / var / restrict on three variables under every order (two of them are
        // 3-cycles: level and variable number differ in both directions)
        for o in ["012", "021", "102", "120", "201", "210"] {
            v.push(format!("{k}:n3:{o}:eval"));
        }
    }
    v
}

const BINALL_PARTS: usize = 2;
const BINFULL_PARTS: usize = 16;
const ITEFULL_PARTS: usize = 8;
const HISTFULL_PARTS: usize = 8;

pub fn run(ctx: &mut Ctx) {
    let shard = ctx.shard.clone();
    if let Some(rest) = shard.strip_prefix("khist:") {
        ctx.shard = rest.to_string();
        return crate::hist::run_shard(ctx, crate::hist::Prop::C06, if ctx.thorough() { 5 } else { 4 });
    }
    match shard.split(':').next().unwrap() {
        "i64" => run_k::<MtI64>(ctx, &shard),
        "f64" => run_k::<MtF64>(ctx, &shard),
        _ => panic!("bad shard"),
    }
}

// ---------------------------------------------------------------------------
// per-kind data
// ---------------------------------------------------------------------------

const A: usize = 7; // alphabet size

trait C10Kind: MtKind {
    fn alphabet() -> [Self::N; A];
    /// (label, value in the code under test, model value)
    fn scalar_set() -> Vec<(String, Self::T, Self::N)>;
    /// value class used as root-cause attribute
    fn class(v: Self::N) -> &'static str;
    /// kind-specific extras of the scalar layer
    fn scalar_extras(ctx: &mut Ctx);
}

impl C10Kind for MtI64 {
    fn alphabet() -> [Num; A] {
        [Num::Int(0), Num::Int(1), Num::Int(-1), Num::Int(3), Num::Int(i64::MAX), Num::PosInf, Num::NaN]
    }
    fn scalar_set() -> Vec<(String, Self::T, Num)> {
        let ints = [0, 1, -1, 2, 3, -7, i64::MIN, i64::MIN + 1, i64::MAX, i64::MAX - 1];
        let mut v: Vec<Num> = ints.iter().map(|&i| Num::Int(i)).collect();
        v.extend([Num::PosInf, Num::NegInf, Num::NaN]);
        v.into_iter().map(|n| (n.show(), mt::i64_to_t(n), n)).collect()
    }
    fn class(v: Num) -> &'static str {
        match v {
            Num::NaN => "nan",
            Num::PosInf => "+inf",
            Num::NegInf => "-inf",
            Num::Int(0) => "zero",
            Num::Int(i) if i > 0 => "pos",
            Num::Int(_) => "neg",
        }
    }
    fn scalar_extras(_ctx: &mut Ctx) {}
}

impl C10Kind for MtF64 {
    fn alphabet() -> [Fl; A] {
        [Fl::norm(0.0), Fl::norm(1.0), Fl::norm(-1.0), Fl::norm(0.5), Fl::norm(f64::MAX), Fl::norm(f64::INFINITY), Fl::norm(f64::NAN)]
    }
    fn scalar_set() -> Vec<(String, F64, Fl)> {
        let raws: [(&str, f64); 13] = [
            ("0.0", 0.0),
            ("-0.0", -0.0),
            ("1.0", 1.0),
            ("-1.0", -1.0),
            ("0.5", 0.5),
            ("-7.0", -7.0),
            ("f64::MAX", f64::MAX),
            ("f64::MIN_POSITIVE", f64::MIN_POSITIVE),
            ("+inf", f64::INFINITY),
            ("-inf", f64::NEG_INFINITY),
            ("NaN", f64::NAN),
            ("-NaN", f64::from_bits(f64::NAN.to_bits() | (1 << 63))),
            ("NaN(payload 1)", f64::from_bits(f64::NAN.to_bits() | 1)),
        ];
        raws.iter().map(|&(l, x)| (l.to_string(), F64::from(x), Fl::norm(x))).collect()
    }
    fn class(v: Fl) -> &'static str {
        let x = v.get();
        if x != x {
            "nan"
        } else if x == f64::INFINITY {
            "+inf"
        } else if x == f64::NEG_INFINITY {
            "-inf"
        } else if x == 0.0 {
            "zero"
        } else if x > 0.0 {
            "pos"
        } else {
            "neg"
        }
    }
    fn scalar_extras(ctx: &mut Ctx) {
        // The type documents that every F64 is normalised ("all NaN values are
        // normalized to f64::NAN and -0.0 is normalized to 0.0"), which is what
        // Eq/Hash (bit-wise) rely on. Values can also enter through
        // `ParseTagged::parse` (terminals in DDDMP files).
        ctx.group("scalar parse normalised", |ctx| {
            for s in ["0", "-0", "-0.0", "-0e0", "0.5", "nan", "NaN", "-nan", "+nan", "-NaN", "inf", "-inf", "+inf", "1e400", "-1e400", "1e-400", "-1e-400"] {
                let a = attrs(&[("kind", MtF64::NAME), ("layer", "scalar"), ("op", "parse"), ("class", "not_normalised")]);
                let case = json!({"kind": MtF64::NAME, "layer": "scalar", "op": "ParseTagged::parse", "input": s});
                let c2 = case.clone();
                let r = ctx.guarded(&a, move || c2, || <F64 as oxidd_dump::ParseTagged<()>>::parse(s));
                ctx.count("evaluations", 1);
                if let Some(Some((v, ()))) = r {
                    let got = mt::f64_from_t(&v);
                    let want = Fl::norm(got.get());
                    ctx.outcome(&format!("parse:{}", MtF64::class(want)));
                    if !want.is_finite() || want == Fl::norm(0.0) {
                        ctx.count("nontrivial", 1);
                    }
                    let eq_ok = v == F64::from(got.get()) && hash_of(&v) == hash_of(&F64::from(got.get()));
                    if got != want || !eq_ok {
                        ctx.viol(
                            a,
                            case,
                            &format!("F64 parsed from {s:?} holds the bit pattern {:#x} ({}), not the normalised {:#x}; it compares {} to F64::from of the same number", got.0, got.show(), want.0, if eq_ok { "equal" } else { "unequal / hashes differently" }),
                        );
                    }
                }
            }
        });
    }
}

fn hash_of<T: Hash>(t: &T) -> u64 {
    let mut h = std::collections::hash_map::DefaultHasher::new();
    t.hash(&mut h);
    h.finish()
}

// ---------------------------------------------------------------------------
// table enumeration: a table over n variables is a number in base 7
// ---------------------------------------------------------------------------

fn pow7(e: u32) -> usize {
    A.pow(e)
}

fn digits(idx: usize, n: u32) -> Vec<usize> {
    (0..(1u32 << n)).map(|a| (idx / pow7(a)) % A).collect()
}

fn undigits(d: &[usize]) -> usize {
    d.iter().enumerate().map(|(a, &x)| x * pow7(a as u32)).sum()
}

fn tab_of<K: C10Kind>(idx: usize, n: u32) -> Vec<K::N> {
    let al = K::alphabet();
    digits(idx, n).into_iter().map(|d| al[d]).collect()
}

/// all one-variable tables (lo, hi) embedded at every variable; sorted, no duplicates
fn one_var_tables(n: u32) -> Vec<usize> {
    let mut v = vec![];
    for var in 0..n {
        for lo in 0..A {
            for hi in 0..A {
                let d: Vec<usize> = (0..(1u32 << n)).map(|a| if (a >> var) & 1 == 1 { hi } else { lo }).collect();
                v.push(undigits(&d));
            }
        }
    }
    v.sort();
    v.dedup();
    v
}

fn dep_all(idx: usize, n: u32) -> bool {
    let d = digits(idx, n);
    (0..n).all(|v| (0..d.len()).any(|a| d[a] != d[a ^ (1 << v)]))
}

/// n = 2: 96 tables that depend on both variables, closed under variable
/// swap: the ten 0-1-valued ones, then a fixed-stride walk through all 2401.
fn set96() -> Vec<usize> {
    let n = 2;
    let mut v: Vec<usize> = vec![];
    let add = |v: &mut Vec<usize>, idx: usize| {
        if !dep_all(idx, n) || v.contains(&idx) {
            return;
        }
        let sw = undigits(&mt::swap_vars(&digits(idx, n), 0, 1));
        if sw == idx {
            if v.len() < 96 {
                v.push(idx);
            }
        } else if v.len() + 2 <= 96 {
            v.push(idx);
            v.push(sw);
        }
    };
    for idx in 0..pow7(4) {
        if digits(idx, n).iter().all(|&d| d < 2) {
            add(&mut v, idx);
        }
    }
    let mut idx = 0usize;
    for _ in 0..pow7(4) {
        idx = (idx + 911) % pow7(4); // 911 is coprime to 7^4: the walk visits every table once
        add(&mut v, idx);
        if v.len() == 96 {
            break;
        }
    }
    assert_eq!(v.len(), 96, "harness: set96");
    for &i in &v {
        assert!(v.contains(&undigits(&mt::swap_vars(&digits(i, n), 0, 1))), "harness: set96 not closed under swap");
    }
    v
}

/// n = 2: operand set of the quick history layer: every 4th table of the
/// 96-set and every 7th one-variable table (37 tables, constants included)
fn hist_set() -> Vec<usize> {
    let mut v: Vec<usize> = set96().into_iter().step_by(4).collect();
    v.extend(one_var_tables(2).into_iter().step_by(7));
    v.sort();
    v.dedup();
    v
}

/// n = 2: operand set of the thorough history layer: the 96-set and every
/// 7th one-variable table (109 tables; contains `hist_set`)
fn hist_set_full() -> Vec<usize> {
    let mut v: Vec<usize> = set96();
    v.extend(one_var_tables(2).into_iter().step_by(7));
    v.sort();
    v.dedup();
    v
}

/// n = 3: one-variable tables at each variable (133) + 46 tables depending on
/// all three variables (4 symmetric ones and 14 rotation triples)
fn set_n3() -> Vec<usize> {
    let n = 3;
    let mut v = one_var_tables(n);
    let rot = |idx: usize| -> usize {
        // 0 -> 1 -> 2 -> 0
        let d = digits(idx, n);
        let e: Vec<usize> = (0..8usize).map(|a| d[((a >> 1) | ((a & 1) << 2)) & 7]).collect();
        undigits(&e)
    };
    let mut extra: Vec<usize> = vec![];
    let mut idx = 0usize;
    let total = pow7(8);
    // 0-1-valued seeds: majority, parity, and, or
    for bits in [0xe8u32, 0x96, 0x80, 0xfe] {
        let d: Vec<usize> = (0..8).map(|a| ((bits >> a) & 1) as usize).collect();
        extra.push(undigits(&d));
    }
    while extra.len() < 48 {
        idx = (idx + 1_234_577) % total; // coprime to 7
        if !dep_all(idx, n) || extra.contains(&idx) {
            continue;
        }
        let (r1, r2) = (rot(idx), rot(rot(idx)));
        if r1 == idx {
            continue;
        }
        if extra.len() + 3 <= 48 {
            extra.extend([idx, r1, r2]);
        } else {
            break;
        }
    }
    extra.sort();
    extra.dedup();
    v.extend(extra);
    v
}

// ---------------------------------------------------------------------------
// shared checking code
// ---------------------------------------------------------------------------

#[derive(Clone)]
struct Cfg {
    n: u32,
    order: Vec<u32>,
    cache: usize,
}

impl Cfg {
    fn fresh<K: MtKind>(&self) -> MtRef<K> {
        mt::fresh::<K>(self.n, &self.order, 1 << 16, 1 << 10, self.cache, 1)
    }
}

fn opclass<K: C10Kind>(t: &[K::N]) -> String {
    if mt::is_const(t) { format!("const({})", K::class(t[0])) } else { "node".into() }
}

fn case<K: C10Kind>(cfg: &Cfg, layer: &str, op: &str, operands: &[&[K::N]], expected: &[K::N], got: &str) -> Value {
    json!({"kind": K::NAME, "layer": layer, "n": cfg.n, "order": model::order_str(&cfg.order), "apply_cache": cfg.cache, "threads": 1,
           "op": op, "operands": operands.iter().map(|t| mt::show_tab(t)).collect::<Vec<_>>(),
           "table_index": "entry a = value under the assignment with variable v = (a >> v) & 1",
           "expected": mt::show_tab(expected), "got": got})
}

fn nontrivial<N: MNum>(ops: &[&[N]]) -> bool {
    for (i, a) in ops.iter().enumerate() {
        if mt::is_const(a) {
            return false;
        }
        for b in &ops[..i] {
            if a == b {
                return false;
            }
        }
    }
    true
}

/// compare a result handle with the model table; returns whether it matched
fn check_result<K: C10Kind>(
    ctx: &mut Ctx,
    cfg: &Cfg,
    layer: &str,
    op: &str,
    operands: &[&[K::N]],
    expected: &[K::N],
    res: &AllocResult<K::F>,
    extra: &[(&str, &str)],
    nontriv: bool,
) -> bool {
    ctx.count("evaluations", 1);
    if nontriv {
        ctx.count("nontrivial", 1);
    }
    let mk = |class: &str| {
        let mut a = attrs(&[("kind", K::NAME), ("layer", layer), ("op", op), ("class", class)]);
        for (i, t) in operands.iter().enumerate().take(3) {
            a.insert(["lhs", "rhs", "third"][i].to_string(), opclass::<K>(t));
        }
        for (k, v) in extra {
            a.insert(k.to_string(), v.to_string());
        }
        a
    };
    let what = || format!("{} n={} order {} cache {} {op}({})", K::NAME, cfg.n, model::order_str(&cfg.order), cfg.cache, operands.iter().map(|t| format!("{:?}", mt::show_tab(t))).collect::<Vec<_>>().join(", "));
    match res {
        Err(_) => {
            ctx.viol(mk("unexpected_oom"), case::<K>(cfg, layer, op, operands, expected, "OutOfMemory"), &format!("{}: OutOfMemory on a manager with ample capacity", what()));
            false
        }
        Ok(h) => match K::table(h) {
            Err(e) => {
                ctx.viol(mk("malformed"), case::<K>(cfg, layer, op, operands, expected, &e), &format!("{}: result diagram malformed: {e}", what()));
                false
            }
            Ok(t) => {
                if t != expected {
                    ctx.viol(
                        mk("wrong_value"),
                        case::<K>(cfg, layer, op, operands, expected, &format!("{:?}", mt::show_tab(&t))),
                        &format!("{}: expected value table {:?}, got {:?}", what(), mt::show_tab(expected), mt::show_tab(&t)),
                    );
                    false
                } else {
                    true
                }
            }
        },
    }
}

fn audit_group<K: C10Kind>(ctx: &mut Ctx, cfg: &Cfg, mref: &MtRef<K>, live: &[&K::F], what: &str) {
    let info = K::audit(mref, live, true);
    ctx.count("evaluations", 1);
    if !info.errors.is_empty() {
        ctx.viol(
            attrs(&[("kind", K::NAME), ("layer", "diagram"), ("op", what), ("class", "audit")]),
            json!({"kind": K::NAME, "n": cfg.n, "order": model::order_str(&cfg.order), "apply_cache": cfg.cache, "after": what, "errors": info.errors.iter().take(5).collect::<Vec<_>>()}),
            &format!("{} structural audit after {what}: {}", K::NAME, info.errors[0]),
        );
    }
}

fn build_all<K: C10Kind>(cfg: &Cfg, idxs: &[usize]) -> (MtRef<K>, Vec<Vec<K::N>>, Vec<K::F>) {
    let mref = cfg.fresh::<K>();
    let tabs: Vec<Vec<K::N>> = idxs.iter().map(|&i| tab_of::<K>(i, cfg.n)).collect();
    let fns: Vec<K::F> = tabs.iter().map(|t| K::build(&mref, t).expect("harness: out of memory while building operands")).collect();
    (mref, tabs, fns)
}

/// All ordered pairs lhs x rhs for one operator in one manager; with
/// `both_positions` also rhs x lhs (pairs that are already in lhs x rhs are
/// not repeated).
fn bin_pairs<K: C10Kind>(ctx: &mut Ctx, cfg: &Cfg, op: MOp, lhs: &[usize], rhs: &[usize], both_positions: bool) {
    let mut all: Vec<usize> = lhs.iter().chain(rhs.iter()).copied().collect();
    all.sort();
    all.dedup();
    let (mref, tabs, fns) = build_all::<K>(cfg, &all);
    let pos: BTreeMap<usize, usize> = all.iter().enumerate().map(|(p, &i)| (i, p)).collect();
    let in_lhs: std::collections::BTreeSet<usize> = lhs.iter().copied().collect();
    let in_rhs: std::collections::BTreeSet<usize> = rhs.iter().copied().collect();
    let mut since_gc = 0u32;
    for &l in lhs {
        let (tf, f) = (&tabs[pos[&l]], &fns[pos[&l]]);
        for &r in rhs {
            let (tg, g) = (&tabs[pos[&r]], &fns[pos[&r]]);
            let exp = op.lift(tf, tg);
            let res = op.apply(f, g);
            check_result::<K>(ctx, cfg, "diagram", op.name(), &[tf, tg], &exp, &res, &[], nontrivial(&[&tf[..], &tg[..]]));
            // (r, l) is enumerated directly iff r is a left and l a right operand
            if both_positions && !(in_lhs.contains(&r) && in_rhs.contains(&l)) {
                let exp = op.lift(tg, tf);
                let res = op.apply(g, f);
                check_result::<K>(ctx, cfg, "diagram", op.name(), &[tg, tf], &exp, &res, &[], nontrivial(&[&tg[..], &tf[..]]));
            }
            since_gc += 2;
            if since_gc >= 4096 {
                since_gc = 0;
                K::gc(&mref);
            }
        }
    }
    let live: Vec<&K::F> = fns.iter().collect();
    audit_group::<K>(ctx, cfg, &mref, &live, op.name());
}

/// ite for every 0-1-valued condition x (then, else) in ts x es; with
/// `both_positions` also (else, then) in es x ts (without repeating pairs)
fn ite_block<K: C10Kind>(ctx: &mut Ctx, cfg: &Cfg, ts: &[usize], es: &[usize], both_positions: bool) {
    let n = cfg.n;
    let conds: Vec<usize> = (0..pow7(1 << n)).filter(|&i| digits(i, n).iter().all(|&d| d < 2)).collect();
    let mut all: Vec<usize> = ts.iter().chain(es.iter()).chain(conds.iter()).copied().collect();
    all.sort();
    all.dedup();
    let (mref, tabs, fns) = build_all::<K>(cfg, &all);
    let pos: BTreeMap<usize, usize> = all.iter().enumerate().map(|(p, &i)| (i, p)).collect();
    let in_ts: std::collections::BTreeSet<usize> = ts.iter().copied().collect();
    let in_es: std::collections::BTreeSet<usize> = es.iter().copied().collect();
    let mut since_gc = 0u32;
    for &c in &conds {
        let (tc, fc) = (&tabs[pos[&c]], &fns[pos[&c]]);
        for &t in ts {
            let (tt, ft) = (&tabs[pos[&t]], &fns[pos[&t]]);
            for &e in es {
                let (te, fe) = (&tabs[pos[&e]], &fns[pos[&e]]);
                let exp = mt::ite_tab(tc, tt, te);
                let res = fc.ite(ft, fe);
                check_result::<K>(ctx, cfg, "diagram", "ite", &[tc, tt, te], &exp, &res, &[], !mt::is_const(tc) && tt != te);
                if both_positions && !(in_ts.contains(&e) && in_es.contains(&t)) {
                    let exp = mt::ite_tab(tc, te, tt);
                    let res = fc.ite(fe, ft);
                    check_result::<K>(ctx, cfg, "diagram", "ite", &[tc, te, tt], &exp, &res, &[], !mt::is_const(tc) && tt != te);
                }
                since_gc += 2;
                if since_gc >= 4096 {
                    since_gc = 0;
                    K::gc(&mref);
                }
            }
        }
    }
    let live: Vec<&K::F> = fns.iter().collect();
    audit_group::<K>(ctx, cfg, &mref, &live, "ite");
}

fn basic_block<K: C10Kind>(ctx: &mut Ctx, cfg: &Cfg) {
    let all: Vec<usize> = (0..pow7(1 << cfg.n)).collect();
    basic_block_on::<K>(ctx, cfg, all)
}

/// build + eval, constant + var, restrict for the given tables
fn basic_block_on<K: C10Kind>(ctx: &mut Ctx, cfg: &Cfg, all: Vec<usize>) {
    let n = cfg.n;
    let total = all.len();
    let ostr = model::order_str(&cfg.order);
    let cfg = cfg.clone();

    ctx.group("build+eval", |ctx| {
        let (mref, tabs, fns) = build_all::<K>(&cfg, &all);
        for (t, f) in tabs.iter().zip(&fns) {
            check_result::<K>(ctx, &cfg, "diagram", "build", &[t], t, &Ok(f.clone()), &[], !mt::is_const(t));
            for a in 0..(1u32 << n) {
                ctx.count("evaluations", 1);
                let got = K::eval(f, a, n);
                if got != t[a as usize] {
                    ctx.viol(
                        attrs(&[("kind", K::NAME), ("layer", "diagram"), ("op", "eval"), ("class", "wrong_value")]),
                        json!({"kind": K::NAME, "n": n, "order": ostr, "op": "eval", "operands": [mt::show_tab(t)], "assignment": a, "expected": t[a as usize].show(), "got": got.show()}),
                        &format!("{} order {ostr}: eval of {:?} under assignment {a:#b} = {}, expected {}", K::NAME, mt::show_tab(t), got.show(), t[a as usize].show()),
                    );
                }
            }
        }
        let live: Vec<&K::F> = fns.iter().collect();
        audit_group::<K>(ctx, &cfg, &mref, &live, "build");
        ctx.sample(|| case::<K>(&cfg, "diagram", "build", &[&tabs[total / 3]], &tabs[total / 3], "-"));
    });

    ctx.group("constant+var", |ctx| {
        let mref = cfg.fresh::<K>();
        let mut vals: Vec<K::N> = K::alphabet().to_vec();
        vals.extend(K::scalar_set().into_iter().map(|(_, _, m)| m));
        let mut keep = vec![];
        for v in vals {
            let exp = mt::const_tab(v, n);
            let res = K::constant(&mref, v);
            check_result::<K>(ctx, &cfg, "diagram", "constant", &[&exp], &exp, &res, &[], !v.is_finite());
            keep.extend(res.ok());
        }
        for v in 0..n {
            let exp = mt::var_tab::<K::N>(v, n);
            let res = K::var(&mref, v);
            check_result::<K>(ctx, &cfg, "diagram", "var", &[&exp], &exp, &res, &[("var", &v.to_string())], true);
            keep.extend(res.ok());
        }
        let live: Vec<&K::F> = keep.iter().collect();
        audit_group::<K>(ctx, &cfg, &mref, &live, "constant+var");
    });

    ctx.group("restrict", |ctx| {
        let (mref, tabs, fns) = build_all::<K>(&cfg, &all);
        let mut cubes = vec![];
        for pos in 0..(1u32 << n) {
            for neg in 0..(1u32 << n) {
                if pos & neg == 0 {
                    let ct = mt::cube_tab::<K::N>(pos, neg, n);
                    let cf = K::build(&mref, &ct).expect("harness: cube");
                    cubes.push((pos, neg, ct, cf));
                }
            }
        }
        assert_eq!(cubes.len(), 3usize.pow(n));
        for (t, f) in tabs.iter().zip(&fns) {
            for (pos, neg, ct, cf) in &cubes {
                let exp = mt::restrict_tab(t, *pos, *neg);
                let res = f.restrict(cf);
                check_result::<K>(ctx, &cfg, "diagram", "restrict", &[t, ct], &exp, &res, &[], !mt::is_const(t) && (pos | neg) != 0);
            }
        }
        let mut live: Vec<&K::F> = fns.iter().collect();
        live.extend(cubes.iter().map(|c| &c.3));
        audit_group::<K>(ctx, &cfg, &mref, &live, "restrict");
        ctx.sample(|| case::<K>(&cfg, "diagram", "restrict", &[&tabs[total / 2], &cubes[1].2], &mt::restrict_tab(&tabs[total / 2], cubes[1].0, cubes[1].1), "-"));
    });
}

// ---------------------------------------------------------------------------
// histories
// ---------------------------------------------------------------------------

fn sequences() -> Vec<Vec<MOp>> {
    let mut v = vec![];
    for a in MOPS {
        for b in MOPS {
            if a == b {
                continue;
            }
            v.push(vec![a, b]);
        }
    }
    for a in MOPS {
        for b in MOPS {
            for c in MOPS {
                if a == b || a == c || b == c {
                    continue;
                }
                v.push(vec![a, b, c]);
            }
        }
    }
    v
}

/// Does `op` applied to (f, g) produce `exp`?
fn step_ok<K: C10Kind>(res: &AllocResult<K::F>, exp: &[K::N]) -> bool {
    match res {
        Ok(h) => K::table(h).as_deref() == Ok(exp),
        Err(_) => false,
    }
}

/// The same history on a manager of its own; index of the first step whose
/// result differs from the model.
fn history_on_fresh_manager<K: C10Kind>(cfg: &Cfg, seq: &[MOp], tf: &[K::N], tg: &[K::N]) -> Option<usize> {
    let mref = cfg.fresh::<K>();
    let f = K::build(&mref, tf).expect("harness: operand");
    let g = K::build(&mref, tg).expect("harness: operand");
    let mut keep = vec![];
    for (i, &op) in seq.iter().enumerate() {
        let res = op.apply(&f, &g);
        if !step_ok::<K>(&res, &op.lift(tf, tg)) {
            return Some(i);
        }
        keep.extend(res.ok());
    }
    None
}

/// One history: operands f and g are built in a manager that holds nothing
/// else and whose apply cache is empty (`mref` is shared by the histories of a
/// group only because every manager owns threads; all handles are dropped and
/// `gc()`, which also clears the apply cache, runs after each history). The
/// operators of `seq` are issued in order on (f, g), all results stay alive;
/// every result must equal the model. The first two failures per (operator,
/// wrong-when-alone) of a group are re-run on a manager of their own.
fn history<K: C10Kind>(ctx: &mut Ctx, cfg: &Cfg, mref: &MtRef<K>, seq: &[MOp], tf: &[K::N], tg: &[K::N], confirm: &mut BTreeMap<String, u32>) {
    let f = K::build(mref, tf).expect("harness: operand");
    let g = K::build(mref, tg).expect("harness: operand");
    let mut keep = vec![];
    let nt = nontrivial(&[tf, tg]);
    ctx.count("executions", 1);
    for (i, &op) in seq.iter().enumerate() {
        let exp = op.lift(tf, tg);
        let res = op.apply(&f, &g);
        ctx.count("transitions", 1);
        if step_ok::<K>(&res, &exp) {
            ctx.count("evaluations", 1);
            if nt {
                ctx.count("nontrivial", 1);
            }
            keep.extend(res.ok());
            continue;
        }
        // failure: does the operator give the same answer without the prefix?
        let got = match &res {
            Ok(h) => K::table(h).map(|t| mt::show_tab(&t)),
            Err(_) => Err("OutOfMemory".into()),
        };
        keep.clear();
        K::gc(mref);
        let alone_ok = step_ok::<K>(&op.apply(&f, &g), &exp);
        let budget = confirm.entry(format!("{}:{alone_ok}", op.name())).or_insert(2);
        let fresh = if *budget > 0 {
            *budget -= 1;
            Some(history_on_fresh_manager::<K>(cfg, seq, tf, tg))
        } else {
            None
        };
        let dep = match (alone_ok, fresh) {
            (_, Some(None)) => "shared_manager_only",
            (true, _) => "history_dependent",
            (false, _) => "also_alone",
        };
        // which single earlier operator is enough to provoke the failure?
        let mut prefix: String = if alone_ok { seq[..i].iter().map(|o| o.name()).collect::<Vec<_>>().join(">") } else { "-".into() };
        if alone_ok {
            for &p in &seq[..i] {
                K::gc(mref);
                let _earlier = p.apply(&f, &g);
                if !step_ok::<K>(&op.apply(&f, &g), &exp) {
                    prefix = p.name().into();
                    break;
                }
            }
        }
        let cache = cfg.cache.to_string();
        ctx.count("evaluations", 1);
        if nt {
            ctx.count("nontrivial", 1);
        }
        let mut a = attrs(&[("kind", K::NAME), ("layer", "history"), ("op", op.name()), ("class", "wrong_value"), ("after", &prefix), ("dependence", dep), ("cache", &cache)]);
        a.insert("lhs".into(), opclass::<K>(tf));
        a.insert("rhs".into(), opclass::<K>(tg));
        let mut c = case::<K>(cfg, "history", op.name(), &[tf, tg], &exp, &format!("{got:?}"));
        c["sequence"] = json!(seq.iter().map(|o| o.name()).collect::<Vec<_>>());
        c["failing_step"] = json!(i);
        c["same_operator_alone_is_correct"] = json!(alone_ok);
        c["provoked_by_earlier_operator"] = json!(prefix);
        c["first_failing_step_on_a_manager_of_its_own"] = match fresh {
            None => json!("not re-run"),
            Some(None) => json!("none"),
            Some(Some(k)) => json!(k),
        };
        ctx.viol(
            a,
            c,
            &format!(
                "{} order {} cache {}: history {} on f={:?}, g={:?}: step {i} ({}) returned {got:?}, expected {:?}; the operator alone is {}",
                K::NAME,
                model::order_str(&cfg.order),
                cfg.cache,
                seq.iter().map(|o| o.name()).collect::<Vec<_>>().join(">"),
                mt::show_tab(tf),
                mt::show_tab(tg),
                op.name(),
                mt::show_tab(&exp),
                if alone_ok { "correct" } else { "wrong as well" }
            ),
        );
        break; // later steps of this history started from a wrong state
    }
    ctx.outcome(&format!("history_len{}", seq.len()));
    drop(keep);
    drop((f, g));
    K::gc(mref);
}

fn hist_block<K: C10Kind>(ctx: &mut Ctx, cfg: &Cfg, set: &[usize], lhs_range: std::ops::Range<usize>) {
    let seqs = sequences();
    let tabs: Vec<Vec<K::N>> = set.iter().map(|&i| tab_of::<K>(i, cfg.n)).collect();
    // groups: all histories of length 2 first (so that the shortest failing
    // history of a kind is the one that gets recorded), then length 3 by
    // first operator
    let mut groups: Vec<(String, Vec<Vec<MOp>>)> = vec![("histories of length 2".into(), seqs.iter().filter(|s| s.len() == 2).cloned().collect())];
    for first in MOPS {
        groups.push((format!("histories of length 3 starting with {}", first.name()), seqs.iter().filter(|s| s.len() == 3 && s[0] == first).cloned().collect()));
    }
    for (label, gseqs) in groups {
        let cfg = cfg.clone();
        let lr = lhs_range.clone();
        let tabs = &tabs;
        ctx.group(&label, |ctx| {
            let mref = cfg.fresh::<K>();
            let mut confirm = BTreeMap::new();
            for seq in &gseqs {
                for tf in &tabs[lr.clone()] {
                    for tg in tabs {
                        history::<K>(ctx, &cfg, &mref, seq, tf, tg, &mut confirm);
                    }
                }
            }
            audit_group::<K>(ctx, &cfg, &mref, &[], "histories");
            let (tf, tg) = (&tabs[0], &tabs[tabs.len() - 1]);
            ctx.sample(|| json!({"kind": K::NAME, "layer": "history", "order": model::order_str(&cfg.order), "apply_cache": cfg.cache, "sequence": gseqs[0].iter().map(|o| o.name()).collect::<Vec<_>>(), "operands": [mt::show_tab(tf), mt::show_tab(tg)]}));
        });
    }
}

// ---------------------------------------------------------------------------
// scalars
// ---------------------------------------------------------------------------

fn scalars<K: C10Kind>(ctx: &mut Ctx) {
    ctx.group("scalar constants and predicates", |ctx| {
        let set = K::scalar_set();
        let a0 = attrs(&[("kind", K::NAME), ("layer", "scalar"), ("class", "wrong_value")]);
        let one = |ctx: &mut Ctx, op: &str, input: &str, got: String, want: String| {
            ctx.count("evaluations", 1);
            if got != want {
                let mut a = a0.clone();
                a.insert("op".into(), op.into());
                ctx.viol(a, json!({"kind": K::NAME, "layer": "scalar", "op": op, "operands": [input], "expected": want, "got": got}), &format!("{} scalar {op}({input}) = {got}, expected {want}", K::NAME));
            }
        };
        one(ctx, "zero", "", K::from_t(&K::T::zero()).show(), K::N::zero().show());
        one(ctx, "one", "", K::from_t(&K::T::one()).show(), K::N::one().show());
        one(ctx, "nan", "", K::from_t(&K::T::nan()).show(), K::N::nan().show());
        one(ctx, "nan==nan", "", (K::T::nan() == K::T::nan()).to_string(), "true".into());
        for (l, t, m) in &set {
            // construction / read-back (F64: normalisation of -0.0 and NaN payloads)
            one(ctx, "from", l, K::from_t(t).show(), m.show());
            one(ctx, "to_t(model)", l, K::from_t(&K::to_t(*m)).show(), m.show());
            one(ctx, "is_zero", l, t.is_zero().to_string(), (*m == K::N::zero()).to_string());
            one(ctx, "is_one", l, t.is_one().to_string(), (*m == K::N::one()).to_string());
            one(ctx, "is_nan", l, t.is_nan().to_string(), (*m == K::N::nan()).to_string());
            if !m.is_finite() {
                ctx.count("nontrivial", 5);
            }
        }
    });

    ctx.group("scalar pairs", |ctx| {
        let set = K::scalar_set();
        for (la, ta, ma) in &set {
            for (lb, tb, mb) in &set {
                let ops: [(&str, fn(&K::T, &K::T) -> K::T, fn(K::N, K::N) -> K::N); 4] = [
                    ("add", <K::T as NumberBase>::add, <K::N as MNum>::add),
                    ("sub", <K::T as NumberBase>::sub, <K::N as MNum>::sub),
                    ("mul", <K::T as NumberBase>::mul, <K::N as MNum>::mul),
                    ("div", <K::T as NumberBase>::div, <K::N as MNum>::div),
                ];
                for (name, real, modelf) in ops {
                    let want = modelf(*ma, *mb);
                    let a = attrs(&[("kind", K::NAME), ("layer", "scalar"), ("op", name), ("lhs", K::class(*ma)), ("rhs", K::class(*mb))]);
                    let case = json!({"kind": K::NAME, "layer": "scalar", "op": name, "operands": [la, lb], "expected": want.show()});
                    ctx.count("evaluations", 1);
                    let nt = !(ma.is_finite() && mb.is_finite() && want.is_finite());
                    if nt {
                        ctx.count("nontrivial", 1);
                    }
                    let c2 = case.clone();
                    let Some(got) = ctx.guarded(&a, move || c2, || K::from_t(&real(ta, tb))) else { continue };
                    ctx.outcome(&format!("{name}:{}", K::class(want)));
                    if got != want {
                        let mut a = a;
                        a.insert("class".into(), "wrong_value".into());
                        a.insert("expected".into(), K::class(want).into());
                        let mut case = case;
                        case["got"] = json!(got.show());
                        ctx.viol(a, case, &format!("{} scalar {la} {name} {lb} = {}, expected {}", K::NAME, got.show(), want.show()));
                    }
                }
                // partial_cmp, ==, hash
                ctx.count("evaluations", 3);
                if !(ma.is_finite() && mb.is_finite()) {
                    ctx.count("nontrivial", 3);
                }
                let want = ma.pcmp(*mb);
                let got = ta.partial_cmp(tb);
                ctx.outcome(&format!("partial_cmp:{want:?}"));
                if got != want {
                    ctx.viol(
                        attrs(&[("kind", K::NAME), ("layer", "scalar"), ("op", "partial_cmp"), ("lhs", K::class(*ma)), ("rhs", K::class(*mb)), ("class", "wrong_value")]),
                        json!({"kind": K::NAME, "layer": "scalar", "op": "partial_cmp", "operands": [la, lb], "expected": format!("{want:?}"), "got": format!("{got:?}")}),
                        &format!("{} scalar partial_cmp({la}, {lb}) = {got:?}, expected {want:?}", K::NAME),
                    );
                }
                let (want_eq, got_eq) = (ma == mb, ta == tb);
                if got_eq != want_eq {
                    ctx.viol(
                        attrs(&[("kind", K::NAME), ("layer", "scalar"), ("op", "eq"), ("lhs", K::class(*ma)), ("rhs", K::class(*mb)), ("class", "wrong_value")]),
                        json!({"kind": K::NAME, "layer": "scalar", "op": "==", "operands": [la, lb], "expected": want_eq, "got": got_eq}),
                        &format!("{} scalar ({la} == {lb}) = {got_eq}, expected {want_eq}", K::NAME),
                    );
                }
                if want_eq && hash_of(ta) != hash_of(tb) {
                    ctx.viol(
                        attrs(&[("kind", K::NAME), ("layer", "scalar"), ("op", "hash"), ("lhs", K::class(*ma)), ("rhs", K::class(*mb)), ("class", "eq_hash_inconsistent")]),
                        json!({"kind": K::NAME, "layer": "scalar", "op": "hash", "operands": [la, lb]}),
                        &format!("{} scalar: {la} and {lb} are equal but hash differently (terminals are hash-consed)", K::NAME),
                    );
                }
            }
        }
        ctx.sample(|| json!({"kind": K::NAME, "layer": "scalar", "op": "add", "operands": [set[6].0, set[2].0], "expected": set[6].2.add(set[2].2).show()}));
    });
    K::scalar_extras(ctx);
}

// ---------------------------------------------------------------------------
// shard dispatch
// ---------------------------------------------------------------------------

fn chunk(len: usize, parts: usize, p: usize) -> std::ops::Range<usize> {
    (len * p / parts)..(len * (p + 1) / parts)
}

fn run_k<K: C10Kind>(ctx: &mut Ctx, shard: &str) {
    let parts: Vec<&str> = shard.split(':').collect();
    if parts[1] == "scalars" {
        return scalars::<K>(ctx);
    }
    let n: u32 = parts[1].trim_start_matches('n').parse().unwrap();
    let order = model::parse_order(parts[2]);
    assert_eq!(order.len() as u32, n);
    let cfg = Cfg { n, order, cache: 4096 };
    match (n, parts[3]) {
        (1, "all") => {
            basic_block::<K>(ctx, &cfg);
            let all: Vec<usize> = (0..pow7(2)).collect();
            for op in MOPS {
                ctx.group(&format!("n1 {}", op.name()), |ctx| bin_pairs::<K>(ctx, &cfg, op, &all, &all, false));
            }
            ctx.group("n1 ite", |ctx| ite_block::<K>(ctx, &cfg, &all, &all, false));
        }
        (2, "basic") => basic_block::<K>(ctx, &cfg),
        (2, "binu") => {
            let u = one_var_tables(2);
            assert_eq!(u.len(), 91);
            for op in MOPS {
                ctx.group(&format!("one-variable tables {}", op.name()), |ctx| {
                    bin_pairs::<K>(ctx, &cfg, op, &u, &u, false);
                    let (a, b) = (tab_of::<K>(u[10], 2), tab_of::<K>(u[60], 2));
                    ctx.sample(|| case::<K>(&cfg, "diagram", op.name(), &[&a, &b], &op.lift(&a, &b), "-"));
                });
            }
        }
        (2, "iteu") => {
            let u = one_var_tables(2);
            ctx.group("ite one-variable tables", |ctx| ite_block::<K>(ctx, &cfg, &u, &u, false));
        }
        (2, "ites") => {
            let s = set96();
            ctx.group("ite 96-set", |ctx| ite_block::<K>(ctx, &cfg, &s, &s, false));
        }
        (2, "itefull") => {
            let p: usize = parts[4].trim_start_matches('p').parse().unwrap();
            let s = set96();
            let ts: Vec<usize> = chunk(pow7(4), ITEFULL_PARTS, p).collect();
            ctx.group(&format!("ite all tables part {p} x 96-set"), |ctx| ite_block::<K>(ctx, &cfg, &ts, &s, true));
        }
        (2, "hist") => {
            let cache: usize = parts[4].trim_start_matches('c').parse().unwrap();
            let cfg = Cfg { cache, ..cfg };
            let h = hist_set();
            assert_eq!(h.len(), 37, "harness: history operand set");
            hist_block::<K>(ctx, &cfg, &h, 0..h.len());
        }
        (2, "histfull") => {
            let cache: usize = parts[4].trim_start_matches('c').parse().unwrap();
            let p: usize = parts[5].trim_start_matches('p').parse().unwrap();
            let cfg = Cfg { cache, ..cfg };
            let s = hist_set_full();
            assert_eq!(s.len(), 109, "harness: history operand set");
            hist_block::<K>(ctx, &cfg, &s, chunk(s.len(), HISTFULL_PARTS, p));
        }
        (2, "binall") => {
            let p: usize = parts[4].trim_start_matches('p').parse().unwrap();
            let s = set96();
            let lhs: Vec<usize> = chunk(pow7(4), BINALL_PARTS, p).collect();
            for op in MOPS {
                ctx.group(&format!("all tables part {p} x 96-set {}", op.name()), |ctx| bin_pairs::<K>(ctx, &cfg, op, &lhs, &s, true));
            }
        }
        (2, "binfull") => {
            let p: usize = parts[4].trim_start_matches('p').parse().unwrap();
            let all: Vec<usize> = (0..pow7(4)).collect();
            let lhs: Vec<usize> = chunk(pow7(4), BINFULL_PARTS, p).collect();
            for op in MOPS {
                ctx.group(&format!("all tables part {p} x all tables {}", op.name()), |ctx| bin_pairs::<K>(ctx, &cfg, op, &lhs, &all, false));
            }
        }
        (3, "eval") => basic_block_on::<K>(ctx, &cfg, set_n3()),
        (3, "bin") => {
            let s = set_n3();
            assert_eq!(s.len(), 179, "harness: n = 3 operand set");
            for op in MOPS {
                ctx.group(&format!("n3 {}", op.name()), |ctx| bin_pairs::<K>(ctx, &cfg, op, &s, &s, false));
            }
        }
        _ => panic!("bad shard {shard}"),
    }
}
