//! C04 — quantification, restriction, apply-and-quantify, substitution
//! (E-INPUT exhaustive for n = 3 under all 6 orders + substitution reuse histories).

use oxidd::{BooleanFunction, BooleanFunctionQuant, BooleanOperator, FunctionSubst, Manager, ManagerRef, Subst};
use oxidd_core::util::AllocResult;
use serde_json::json;

use super::boolops::*;
use crate::dd::{Bcdd, Bdd, BoolKind, Zbdd};
use crate::driver::Meta;
use crate::model::{self, BINOPS, BinOp, Tab};
use crate::proto::{Ctx, attrs};

pub fn meta() -> Meta {
    Meta {
        level: "exploration",
        rule: "exhaustive for n=3, all 6 orders, BDD and BCDD: exists/forall/unique for all 256 f x all 8 variable subsets; restrict for all 256 f x all 27 literal cubes (also ZBDD); memoisation histories of length two: every ordered pair of distinct requests among the 26 restrictions and 21 quantifications, first request issued for all 256 f on an emptied cache, then the second one checked for all 256 f; apply_exists/forall/unique for all 8 operators x all 8 subsets x pairs (quick: 64x64 closed subset, thorough: all 65536); substitute for all 256 f x all 13^3 replacement vectors (each variable unlisted or replaced by one of 12 functions), vector-major with a fresh Subst per vector and f-major with persistent Subst objects used alternately with gc in between, each answer repeated and compared. thorough adds n=4 unary quantifier/restrict block. `sparsegc` shards: 7 persistent variable sets and 5 persistent Subst objects; all 256 functions in four visiting orders are built, quantified / substituted, dropped and collected one at a time (only the last 12 results stay alive), so operand nodes die and their slots are recycled while the persistent objects live. Non-trivial: f non-constant and the variable set / cube / substitution non-empty.",
        assumptions: vec![
            "ZBDD implements neither BooleanFunctionQuant nor FunctionSubst; only restrict is checked for it".into(),
            "substitute keys its cache by the substitution id: uniqueness of the ids under concurrent Subst::new() is model-checked with loom on the generator's code (derived from oxidd-core/src/util/substitution.rs at build time): 2 threads x 2 ids unbounded, 3 threads with preemption bound 3".into(),
            "random instances over 5..8 variables not enumerated".into(),
        ],
        hang_is_violation: false,
        shard_timeout: (600, 7200),
    }
}

pub fn shards(tier: &str) -> Vec<String> {
    let mut v = vec![];
    for k in ["bdd", "bcdd"] {
        for o in model::perms(3) {
            let o = model::order_str(&o);
            for tc in ["t1", "t2d2"] {
                v.push(format!("{k}:{o}:quant:{tc}"));
                v.push(format!("{k}:{o}:restrict:{tc}"));
                if tc == "t1" {
                    v.push(format!("{k}:{o}:pairs:{tc}"));
                }
                for op in BINOPS {
                    if tc == "t1" || tier == "thorough" || op == BinOp::And || op == BinOp::ImpStrict {
                        v.push(format!("{k}:{o}:applyq-{}:{tc}", op.name()));
                    }
                }
                v.push(format!("{k}:{o}:subst:{tc}"));
                v.push(format!("{k}:{o}:substhist:{tc}"));
                if tc == "t1" {
                    // persistent variable sets / substitution objects while operands come and go (sparse live set)
                    v.push(format!("{k}:{o}:sparsegc:{tc}"));
                }
            }
        }
    }
    for o in model::perms(3) {
        for tc in ["t1", "t2d2"] {
            v.push(format!("zbdd:{}:restrict:{tc}", model::order_str(&o)));
            if tc == "t1" {
                v.push(format!("zbdd:{}:pairs:{tc}", model::order_str(&o)));
            }
        }
    }
    // substitution ids are part of the cache key of `substitute`: loom model of the id generator
    v.extend(super::loomx::substid_shards());
    if tier == "thorough" {
        for k in ["bdd", "bcdd"] {
            for o in ["0123", "3210", "2031"] {
                for p in 0..8 {
                    v.push(format!("{k}:{o}:n4p{p}:t1"));
                }
            }
        }
    }
    v
}

pub trait QuantKind: BoolKind {
    fn q(which: u8, f: &Self::F, vars: &Self::F) -> AllocResult<Self::F>;
    fn aq(which: u8, op: BinOp, f: &Self::F, g: &Self::F, vars: &Self::F) -> AllocResult<Self::F>;
    fn subst(f: &Self::F, s: &Subst<Self::F>) -> AllocResult<Self::F>;
}

fn bop(op: BinOp) -> BooleanOperator {
    match op {
        BinOp::And => BooleanOperator::And,
        BinOp::Or => BooleanOperator::Or,
        BinOp::Xor => BooleanOperator::Xor,
        BinOp::Equiv => BooleanOperator::Equiv,
        BinOp::Nand => BooleanOperator::Nand,
        BinOp::Nor => BooleanOperator::Nor,
        BinOp::Imp => BooleanOperator::Imp,
        BinOp::ImpStrict => BooleanOperator::ImpStrict,
    }
}

macro_rules! impl_qk {
    ($k:ty) => {
        impl QuantKind for $k {
            fn q(which: u8, f: &Self::F, vars: &Self::F) -> AllocResult<Self::F> {
                match which {
                    0 => f.exists(vars),
                    1 => f.forall(vars),
                    _ => f.unique(vars),
                }
            }
            fn aq(which: u8, op: BinOp, f: &Self::F, g: &Self::F, vars: &Self::F) -> AllocResult<Self::F> {
                match which {
                    0 => f.apply_exists(bop(op), g, vars),
                    1 => f.apply_forall(bop(op), g, vars),
                    _ => f.apply_unique(bop(op), g, vars),
                }
            }
            fn subst(f: &Self::F, s: &Subst<Self::F>) -> AllocResult<Self::F> {
                f.substitute(s)
            }
        }
    };
}
impl_qk!(Bdd);
impl_qk!(Bcdd);

const QN: [&str; 3] = ["exists", "forall", "unique"];

fn mq(which: u8, t: Tab, vars: u32, n: u32) -> Tab {
    match which {
        0 => model::exists(t, vars, n),
        1 => model::forall(t, vars, n),
        _ => model::unique(t, vars, n),
    }
}

fn case<K: BoolKind>(n: u32, order: &[u32], op: &str, operands: &[Tab], extra: serde_json::Value, expected: Tab, got: &str) -> serde_json::Value {
    json!({"kind": K::NAME, "shard_cfg": "see shard name", "n": n, "order": model::order_str(order), "op": op, "operands": operands, "extra": extra, "expected": expected, "got": got})
}

fn check<K: BoolKind>(ctx: &mut Ctx, n: u32, order: &[u32], op: &str, operands: &[Tab], extra: serde_json::Value, expected: Tab, res: AllocResult<K::F>, nontriv: bool) {
    ctx.count("evaluations", 1);
    if nontriv {
        ctx.count("nontrivial", 1);
    }
    let got = match res {
        Err(_) => Err("OutOfMemory".to_string()),
        Ok(h) => K::table(&h),
    };
    if got != Ok(expected) {
        let class = match &got {
            Ok(_) => "wrong_value",
            Err(e) if e == "OutOfMemory" => "unexpected_oom",
            Err(_) => "malformed",
        };
        ctx.viol(
            attrs(&[("kind", K::NAME), ("op", op), ("class", class)]),
            case::<K>(n, order, op, operands, extra.clone(), expected, &format!("{got:x?}")),
            &format!("{} order {} {op}{operands:x?} {extra}: expected {expected:#x}, got {got:x?}", K::NAME, model::order_str(order)),
        );
    }
}

fn nc(t: Tab, n: u32) -> bool {
    t != 0 && t != model::full(n)
}

pub fn run(ctx: &mut Ctx) {
    let shard = ctx.shard.clone();
    if shard.starts_with("loom:") {
        return super::loomx::run_substid(ctx);
    }
    let p: Vec<&str> = shard.split(':').collect();
    let order = model::parse_order(p[1]);
    let tc = ThreadCfg::parse(p[3]);
    match p[0] {
        "bdd" => run_k::<Bdd>(ctx, &order, p[2], tc),
        "bcdd" => run_k::<Bcdd>(ctx, &order, p[2], tc),
        "zbdd" if p[2] == "pairs" => run_pairs::<Zbdd>(ctx, &order, tc, &|_, _, _| unreachable!(), false),
        "zbdd" => run_restrict::<Zbdd>(ctx, &order, tc),
        _ => panic!(),
    }
}

fn run_restrict<K: BoolKind>(ctx: &mut Ctx, order: &[u32], tc: ThreadCfg) {
    let n = 3;
    let order = order.to_vec();
    ctx.group("restrict", |ctx| {
        let (mref, fns) = all_functions::<K>(n, &order, 1024, tc);
        for pos in 0..8u32 {
            for neg in 0..8u32 {
                if pos & neg != 0 {
                    continue;
                }
                let cube = &fns[model::cube_tab(pos, neg, n) as usize];
                for (t, f) in fns.iter().enumerate() {
                    let t = t as Tab;
                    check::<K>(ctx, n, &order, "restrict", &[t], json!({"pos": pos, "neg": neg}), model::restrict(t, pos, neg, n), f.restrict(cube), nc(t, n) && (pos | neg) != 0);
                }
            }
            mref.with_manager_shared(|m| m.gc());
        }
        ctx.sample(|| case::<K>(n, &order, "restrict", &[0xe8], json!({"pos": 1, "neg": 4}), model::restrict(0xe8, 1, 4, n), "-"));
    });
}

/// the 12 replacement functions (n = 3) + "not listed"
fn repl_set() -> Vec<Option<Tab>> {
    let x: Vec<Tab> = (0..3).map(|v| model::var_tab(v, 3)).collect();
    vec![
        None,
        Some(0),
        Some(0xff),
        Some(x[0]),
        Some(x[1]),
        Some(x[2]),
        Some(!x[0] & 0xff),
        Some(!x[2] & 0xff),
        Some(x[0] & x[1]),
        Some(x[1] | x[2]),
        Some(x[0] ^ x[2]),
        Some((x[0] & x[1]) | (!x[0] & x[2] & 0xff)),
        Some(x[0] ^ x[1] ^ x[2]),
    ]
}

fn run_k<K: QuantKind>(ctx: &mut Ctx, order: &[u32], part: &str, tc: ThreadCfg) {
    let n = 3u32;
    let order = order.to_vec();
    if let Some(p) = part.strip_prefix("n4p") {
        return run_n4::<K>(ctx, &order, p.parse().unwrap());
    }
    match part {
        "quant" => ctx.group("quant", |ctx| {
            let (_mref, fns) = all_functions::<K>(n, &order, 1024, tc);
            for vars in 0..8u32 {
                let cube = &fns[model::cube_tab(vars, 0, n) as usize];
                for which in 0..3u8 {
                    for (t, f) in fns.iter().enumerate() {
                        let t = t as Tab;
                        check::<K>(ctx, n, &order, QN[which as usize], &[t], json!({"vars": vars}), mq(which, t, vars, n), K::q(which, f, cube), nc(t, n) && vars != 0);
                    }
                }
            }
            ctx.sample(|| case::<K>(n, &order, "exists", &[0xe8], json!({"vars": 5}), model::exists(0xe8, 5, n), "-"));
        }),
        "restrict" => run_restrict::<K>(ctx, &order, tc),
        "pairs" => run_pairs::<K>(ctx, &order, tc, &|w, f, c| K::q(w, f, c), true),
        p if p.starts_with("applyq-") => {
            let op = BinOp::from_name(&p[7..]).unwrap();
            let tabs: Vec<Tab> = if ctx.thorough() { (0..256).collect() } else { model::subset3() };
            for which in 0..3u8 {
                ctx.group(&format!("apply_{}-{}", QN[which as usize], op.name()), |ctx| {
                    let (mref, fns) = all_functions::<K>(n, &order, 1024, tc);
                    let opname = format!("apply_{}", QN[which as usize]);
                    for vars in 0..8u32 {
                        let cube = &fns[model::cube_tab(vars, 0, n) as usize];
                        for &a in &tabs {
                            for &b in &tabs {
                                let exp = mq(which, op.apply(a, b, n), vars, n);
                                check::<K>(
                                    ctx,
                                    n,
                                    &order,
                                    &opname,
                                    &[a, b],
                                    json!({"inner": op.name(), "vars": vars}),
                                    exp,
                                    K::aq(which, op, &fns[a as usize], &fns[b as usize], cube),
                                    nc(a, n) && nc(b, n) && a != b && vars != 0,
                                );
                            }
                        }
                        mref.with_manager_shared(|m| m.gc());
                    }
                });
            }
        }
        "subst" => {
            let rs = repl_set();
            // vector-major: fresh Subst per vector, applied to all 256 functions (twice)
            for r0i in 0..rs.len() {
                ctx.group(&format!("subst r0={r0i}"), |ctx| {
                    let (mref, fns) = all_functions::<K>(n, &order, 1024, tc);
                    for r1 in &rs {
                        for r2 in &rs {
                            let repl = [rs[r0i], *r1, *r2];
                            let mut vars = vec![];
                            let mut reps = vec![];
                            for (v, r) in repl.iter().enumerate() {
                                if let Some(rt) = r {
                                    vars.push(v as u32);
                                    reps.push(fns[*rt as usize].clone());
                                }
                            }
                            let nonempty = !vars.is_empty();
                            let s = Subst::new(vars, reps);
                            for (t, f) in fns.iter().enumerate() {
                                let t = t as Tab;
                                let exp = model::substitute(t, &repl, n);
                                check::<K>(ctx, n, &order, "substitute", &[t], json!({"repl": repl}), exp, K::subst(f, &s), nc(t, n) && nonempty);
                            }
                            // second pass with the same object: answers must not change
                            for t in [0x96u64, 0xe8, 0xca, 0x1b] {
                                let exp = model::substitute(t, &repl, n);
                                check::<K>(ctx, n, &order, "substitute_again", &[t], json!({"repl": repl}), exp, K::subst(&fns[t as usize], &s), nonempty);
                            }
                        }
                        mref.with_manager_shared(|m| m.gc());
                    }
                    ctx.sample(|| case::<K>(n, &order, "substitute", &[0xe8], json!({"repl": [rs[r0i], rs[4], rs[1]]}), model::substitute(0xe8, &[rs[r0i], rs[4], rs[1]], n), "-"));
                });
            }
        }
        "sparsegc" => ctx.group("persistent variable sets and substitutions, operands come and go", |ctx| {
            // only the variable sets, the replacement functions and the last few results are alive; every operand
            // is built, used and dropped, a collection follows, and the next operand is built in the freed slots
            let x: Vec<Tab> = (0..n).map(|v| model::var_tab(v, n)).collect();
            let keep_tabs: Vec<Tab> = (1..8u32).map(|vars| model::cube_tab(vars, 0, n)).chain([!x[0] & 0xff, !x[2] & 0xff, x[0] ^ x[1]]).collect();
            let (mref, keep) = super::boolops::functions_of::<K>(n, &order, 1 << 16, tc, &keep_tabs);
            let cube = |vars: u32| &keep[vars as usize - 1];
            let vecs: Vec<[Option<Tab>; 3]> = vec![
                [None, None, Some(!x[2] & 0xff)],
                [Some(!x[0] & 0xff), None, None],
                [Some(x[1]), None, Some(x[0])],
                [None, Some(x[0] ^ x[1]), None],
                [Some(x[2]), Some(x[0]), Some(x[1])],
            ];
            let substs: Vec<Subst<K::F>> = vecs
                .iter()
                .map(|repl| {
                    let (mut vars, mut reps) = (vec![], vec![]);
                    for (v, r) in repl.iter().enumerate() {
                        if let Some(rt) = r {
                            vars.push(v as u32);
                            reps.push(K::build(&mref, *rt).unwrap());
                        }
                    }
                    Subst::new(vars, reps)
                })
                .collect();
            let mut recent: std::collections::VecDeque<K::F> = Default::default();
            for (round, mult) in [1u64, 37, 101, 171].into_iter().enumerate() {
                for i in 0..256u64 {
                    let t = (i * mult + round as u64 * 17) % 256;
                    let f = K::build(&mref, t).unwrap();
                    for vars in 1..8u32 {
                        for which in 0..3u8 {
                            let r = K::q(which, &f, cube(vars));
                            if let Ok(h) = &r {
                                recent.push_back(h.clone());
                            }
                            check::<K>(ctx, n, &order, QN[which as usize], &[t], json!({"vars": vars, "round": round, "sparse": true}), mq(which, t, vars, n), r, nc(t, n));
                        }
                    }
                    for (si, s) in substs.iter().enumerate() {
                        let r = K::subst(&f, s);
                        if let Ok(h) = &r {
                            recent.push_back(h.clone());
                        }
                        check::<K>(ctx, n, &order, "substitute", &[t], json!({"repl": vecs[si], "round": round, "sparse": true}), model::substitute(t, &vecs[si], n), r, nc(t, n));
                    }
                    while recent.len() > 12 {
                        recent.pop_front();
                    }
                    drop(f);
                    mref.with_manager_shared(|m| m.gc());
                }
            }
        }),
        "substhist" => ctx.group("substhist", |ctx| {
            // f-major: persistent Subst objects used alternately on the same function, gc between
            let rs = repl_set();
            let (mref, fns) = all_functions::<K>(n, &order, 16, tc);
            let mut vecs: Vec<[Option<Tab>; 3]> = vec![];
            for i in 0..rs.len() {
                for j in [0usize, 3, 6, 9, 12] {
                    vecs.push([rs[i], rs[(i + j) % rs.len()], rs[(i * 5 + j + 1) % rs.len()]]);
                }
            }
            vecs.retain(|v| v.iter().any(|r| r.is_some()));
            let substs: Vec<Subst<K::F>> = vecs
                .iter()
                .map(|repl| {
                    let mut vars = vec![];
                    let mut reps = vec![];
                    for (v, r) in repl.iter().enumerate() {
                        if let Some(rt) = r {
                            vars.push(v as u32);
                            reps.push(fns[*rt as usize].clone());
                        }
                    }
                    Subst::new(vars, reps)
                })
                .collect();
            for (t, f) in fns.iter().enumerate() {
                let t = t as Tab;
                for round in 0..2 {
                    for (i, s) in substs.iter().enumerate() {
                        let exp = model::substitute(t, &vecs[i], n);
                        check::<K>(ctx, n, &order, "substitute_alternating", &[t], json!({"repl": vecs[i], "round": round}), exp, K::subst(f, s), nc(t, n));
                    }
                    if t % 3 == 0 {
                        mref.with_manager_shared(|m| m.gc());
                    }
                }
            }
        }),
        _ => panic!("bad part {part}"),
    }
}

fn run_n4<K: QuantKind>(ctx: &mut Ctx, order: &[u32], part: u64) {
    let n = 4u32;
    let order = order.to_vec();
    ctx.group(&format!("n4 part {part}"), |ctx| {
        let mref = crate::dd::fresh::<K>(n, &order, 1 << 20, 4096, 1);
        let cubes: Vec<K::F> = (0..16u32).map(|s| K::build(&mref, model::cube_tab(s, 0, n)).unwrap()).collect();
        let mut lits = vec![];
        for pos in 0..16u32 {
            for neg in 0..16u32 {
                if pos & neg == 0 {
                    lits.push((pos, neg, K::build(&mref, model::cube_tab(pos, neg, n)).unwrap()));
                }
            }
        }
        for t in part * 8192..(part + 1) * 8192 {
            let f = K::build(&mref, t).unwrap();
            for vars in 0..16u32 {
                for which in 0..3u8 {
                    check::<K>(ctx, n, &order, QN[which as usize], &[t], json!({"vars": vars}), mq(which, t, vars, n), K::q(which, &f, &cubes[vars as usize]), nc(t, n) && vars != 0);
                }
            }
            for (pos, neg, c) in &lits {
                check::<K>(ctx, n, &order, "restrict", &[t], json!({"pos": pos, "neg": neg}), model::restrict(t, *pos, *neg, n), f.restrict(c), nc(t, n) && (pos | neg) != 0);
            }
            if t % 256 == 255 {
                mref.with_manager_shared(|m| m.gc());
            }
        }
    });
}

/// Memoisation histories of length two: the requests are the 27 restrictions and (BDD/BCDD) the
/// 3 x 8 quantifications. For every ordered pair (r1, r2) of distinct requests: the apply cache is
/// emptied (gc), r1 is issued for all 256 functions, then r2 is issued for all 256 functions and
/// checked against the model; no answer to r2 may depend on what r1 left in the cache.
fn run_pairs<K: BoolKind>(ctx: &mut Ctx, order: &[u32], tc: ThreadCfg, q: &dyn Fn(u8, &K::F, &K::F) -> AllocResult<K::F>, with_quant: bool) {
    let n = 3u32;
    let order = order.to_vec();
    #[derive(Clone, Copy, PartialEq)]
    enum Req {
        Restrict(u32, u32),
        Quant(u8, u32),
    }
    let mut reqs = vec![];
    for pos in 0..8u32 {
        for neg in 0..8u32 {
            if pos & neg == 0 && (pos | neg) != 0 {
                reqs.push(Req::Restrict(pos, neg));
            }
        }
    }
    if with_quant {
        for w in 0..3u8 {
            for vars in 1..8u32 {
                reqs.push(Req::Quant(w, vars));
            }
        }
    }
    ctx.group("request pairs", |ctx| {
        let (mref, fns) = all_functions::<K>(n, &order, 1 << 14, tc);
        let issue = |r: Req, f: &K::F| match r {
            Req::Restrict(pos, neg) => f.restrict(&fns[model::cube_tab(pos, neg, n) as usize]),
            Req::Quant(w, vars) => q(w, f, &fns[model::cube_tab(vars, 0, n) as usize]),
        };
        for &r1 in &reqs {
            for &r2 in &reqs {
                if r1 == r2 {
                    continue;
                }
                mref.with_manager_shared(|m| m.gc());
                for f in fns.iter() {
                    let _ = issue(r1, f);
                }
                let first = match r1 {
                    Req::Restrict(pos, neg) => json!({"restrict": {"pos": pos, "neg": neg}}),
                    Req::Quant(w, vars) => json!({QN[w as usize]: vars}),
                };
                for (t, f) in fns.iter().enumerate() {
                    let t = t as Tab;
                    match r2 {
                        Req::Restrict(pos, neg) => check::<K>(ctx, n, &order, "restrict", &[t], json!({"pos": pos, "neg": neg, "after": first}), model::restrict(t, pos, neg, n), issue(r2, f), nc(t, n)),
                        Req::Quant(w, vars) => check::<K>(ctx, n, &order, QN[w as usize], &[t], json!({"vars": vars, "after": first}), mq(w, t, vars, n), issue(r2, f), nc(t, n)),
                    }
                }
            }
        }
        ctx.sample(|| case::<K>(n, &order, "restrict", &[0xe8], json!({"pos": 4, "neg": 0, "after": {"restrict": {"pos": 5, "neg": 0}}}), model::restrict(0xe8, 4, 0, n), "-"));
    });
}
