//! C12 — model counting is exact for every number type and with reused
//! caches; the arbitrary-precision `Natural` computes sums, shifts,
//! comparisons, conversions and textual output exactly.
//!
//! E-INPUT + E-HIST, bounded exhaustive. Oracle: popcount of the model table
//! times a power of two, held in the harness's own `Vec<u32>` school-arithmetic
//! naturals (`big::Big`); `Natural` values are read back through the public
//! `mantissa()` / `exp()` / `is_nan()` accessors only.

use std::cmp::Ordering;
use std::hash::{BuildHasherDefault, Hash, Hasher};

use oxidd::{BooleanFunction, Function, Manager, ManagerRef};
use oxidd_core::util::num::{F64, Natural, Saturating};
use oxidd_core::util::{SatCountCache, SatCountNumber};
use oxidd_core::DiagramRules;
use oxidd_rules_zbdd::ZBDDTerminal;
use rustc_hash::FxHasher;
use serde_json::{Value, json};

use super::boolops::*;
use crate::dd::{Bcdd, Bdd, BoolKind, Zbdd};
use crate::driver::Meta;
use crate::model::{self, BKind, Tab};
use crate::proto::{Ctx, attrs};

use big::Big;

type Fx = BuildHasherDefault<FxHasher>;
type Cache<N> = SatCountCache<N, Fx>;

/// all flag templates for the format trait letter `$t` ("" = Display)
macro_rules! fmt_nw {
    ($t:literal, $p:literal, $v:expr, $out:expr) => {
        $out.push((format!(concat!("{:", $p, $t, "}"), $v), concat!("{:", $p, $t, "}")));
    };
}
macro_rules! fmt_ww {
    ($t:literal, $p:literal, $v:expr, $w:expr, $out:expr) => {
        $out.push((format!(concat!("{:", $p, "w$", $t, "}"), $v, w = $w), concat!("{:", $p, "w$", $t, "}")));
    };
}
macro_rules! fmt_templates {
    ($t:literal, $v:expr, $w:expr, $out:expr) => {{
        fmt_nw!($t, "", $v, $out);
        fmt_nw!($t, "+", $v, $out);
        fmt_nw!($t, "#", $v, $out);
        fmt_nw!($t, "+#", $v, $out);
        fmt_ww!($t, "", $v, $w, $out);
        fmt_ww!($t, "#", $v, $w, $out);
        fmt_ww!($t, "0", $v, $w, $out);
        fmt_ww!($t, "#0", $v, $w, $out);
        fmt_ww!($t, "+", $v, $w, $out);
        fmt_ww!($t, "+#", $v, $w, $out);
        fmt_ww!($t, "+0", $v, $w, $out);
        fmt_ww!($t, "+#0", $v, $w, $out);
        fmt_ww!($t, "<", $v, $w, $out);
        fmt_ww!($t, "<#", $v, $w, $out);
        fmt_ww!($t, "^", $v, $w, $out);
        fmt_ww!($t, "^#", $v, $w, $out);
        fmt_ww!($t, ">", $v, $w, $out);
        fmt_ww!($t, ">+#", $v, $w, $out);
        fmt_ww!($t, "*<", $v, $w, $out);
        fmt_ww!($t, "*^#", $v, $w, $out);
        fmt_ww!($t, "*>+", $v, $w, $out);
        fmt_ww!($t, "<0", $v, $w, $out);
        fmt_ww!($t, "*^#0", $v, $w, $out);
        fmt_ww!($t, "_^+#", $v, $w, $out);
    }};
}

// ---------------------------------------------------------------------------
// own naturals: little-endian Vec<u32>, school arithmetic, no dependency on /repo
// ---------------------------------------------------------------------------

mod big {
    use std::cmp::Ordering;

    #[derive(Clone, PartialEq, Eq, Debug, Hash)]
    pub struct Big(pub Vec<u32>);

    impl Big {
        pub fn zero() -> Big {
            Big(vec![])
        }
        fn norm(mut self) -> Big {
            while let Some(&0) = self.0.last() {
                self.0.pop();
            }
            self
        }
        pub fn from_u64(v: u64) -> Big {
            Big(vec![v as u32, (v >> 32) as u32]).norm()
        }
        pub fn from_u128(v: u128) -> Big {
            Big(vec![v as u32, (v >> 32) as u32, (v >> 64) as u32, (v >> 96) as u32]).norm()
        }
        pub fn from_u64_digits(d: &[u64]) -> Big {
            let mut v = Vec::with_capacity(d.len() * 2);
            for &x in d {
                v.push(x as u32);
                v.push((x >> 32) as u32);
            }
            Big(v).norm()
        }
        /// little-endian u64 digits, at least one
        pub fn to_u64_digits(&self) -> Vec<u64> {
            let mut out = vec![];
            for c in self.0.chunks(2) {
                out.push(c[0] as u64 | ((c.get(1).copied().unwrap_or(0) as u64) << 32));
            }
            if out.is_empty() {
                out.push(0);
            }
            out
        }
        pub fn pow2(k: u64) -> Big {
            Big::from_u64(1).shl(k)
        }
        /// 2^k - 1
        pub fn ones(k: u64) -> Big {
            let mut v = vec![u32::MAX; (k / 32) as usize];
            if k % 32 != 0 {
                v.push((1u32 << (k % 32)) - 1);
            }
            Big(v).norm()
        }
        pub fn is_zero(&self) -> bool {
            self.0.is_empty()
        }
        pub fn bit_len(&self) -> u64 {
            match self.0.last() {
                None => 0,
                Some(&l) => self.0.len() as u64 * 32 - l.leading_zeros() as u64,
            }
        }
        pub fn bit(&self, i: u64) -> bool {
            match self.0.get((i / 32) as usize) {
                None => false,
                Some(&w) => (w >> (i % 32)) & 1 == 1,
            }
        }
        /// number of trailing zero bits (0 for the number 0)
        pub fn trailing_zeros(&self) -> u64 {
            for (i, &w) in self.0.iter().enumerate() {
                if w != 0 {
                    return i as u64 * 32 + w.trailing_zeros() as u64;
                }
            }
            0
        }
        pub fn add(&self, o: &Big) -> Big {
            let n = self.0.len().max(o.0.len());
            let mut out = Vec::with_capacity(n + 1);
            let mut carry = 0u64;
            for i in 0..n {
                let s = self.0.get(i).copied().unwrap_or(0) as u64 + o.0.get(i).copied().unwrap_or(0) as u64 + carry;
                out.push(s as u32);
                carry = s >> 32;
            }
            if carry != 0 {
                out.push(carry as u32);
            }
            Big(out).norm()
        }
        pub fn shl(&self, s: u64) -> Big {
            if self.is_zero() {
                return Big::zero();
            }
            let words = (s / 32) as usize;
            let bits = (s % 32) as u32;
            let mut out = vec![0u32; words];
            let mut carry = 0u32;
            for &w in &self.0 {
                if bits == 0 {
                    out.push(w);
                } else {
                    out.push((w << bits) | carry);
                    carry = w >> (32 - bits);
                }
            }
            if carry != 0 {
                out.push(carry);
            }
            Big(out).norm()
        }
        /// truncating right shift
        pub fn shr(&self, s: u64) -> Big {
            let words = (s / 32) as usize;
            let bits = (s % 32) as u32;
            if words >= self.0.len() {
                return Big::zero();
            }
            let src = &self.0[words..];
            let mut out = Vec::with_capacity(src.len());
            for i in 0..src.len() {
                let lo = src[i] >> bits;
                let hi = if bits == 0 { 0 } else { src.get(i + 1).copied().unwrap_or(0) << (32 - bits) };
                out.push(lo | hi);
            }
            Big(out).norm()
        }
        pub fn cmp(&self, o: &Big) -> Ordering {
            if self.0.len() != o.0.len() {
                return self.0.len().cmp(&o.0.len());
            }
            for i in (0..self.0.len()).rev() {
                if self.0[i] != o.0[i] {
                    return self.0[i].cmp(&o.0[i]);
                }
            }
            Ordering::Equal
        }
        /// in-place division by a small number, returns the remainder
        fn divrem_small(&mut self, d: u32) -> u32 {
            let mut rem = 0u64;
            for w in self.0.iter_mut().rev() {
                let cur = (rem << 32) | *w as u64;
                *w = (cur / d as u64) as u32;
                rem = cur % d as u64;
            }
            while let Some(&0) = self.0.last() {
                self.0.pop();
            }
            rem as u32
        }
        pub fn to_dec(&self) -> String {
            if self.is_zero() {
                return "0".into();
            }
            let mut x = self.clone();
            let mut chunks = vec![];
            while !x.is_zero() {
                chunks.push(x.divrem_small(1_000_000_000));
            }
            let mut s = format!("{}", chunks.pop().unwrap());
            while let Some(c) = chunks.pop() {
                s.push_str(&format!("{c:09}"));
            }
            s
        }
        /// digits in radix 2^bits (bits in 1..=4)
        pub fn to_pow2(&self, bits: u32, upper: bool) -> String {
            if self.is_zero() {
                return "0".into();
            }
            let nd = self.bit_len().div_ceil(bits as u64);
            let mut s = String::with_capacity(nd as usize);
            for i in (0..nd).rev() {
                let mut d = 0u32;
                for b in (0..bits as u64).rev() {
                    d = (d << 1) | self.bit(i * bits as u64 + b) as u32;
                }
                let c = if d < 10 { b'0' + d as u8 } else if upper { b'A' + (d as u8 - 10) } else { b'a' + (d as u8 - 10) };
                s.push(c as char);
            }
            s
        }
        pub fn to_u128(&self) -> Option<u128> {
            if self.bit_len() > 128 {
                return None;
            }
            let mut v = 0u128;
            for (i, &w) in self.0.iter().enumerate() {
                v |= (w as u128) << (32 * i);
            }
            Some(v)
        }
        /// value * 2^extra_exp rounded to the nearest f64, ties to even;
        /// overflow gives +inf (IEEE 754 round-to-nearest)
        pub fn to_f64_scaled(&self, extra_exp: u128) -> f64 {
            if self.is_zero() {
                return 0.0;
            }
            let bl = self.bit_len();
            let mut top: u64; // 53 significant bits, bit 52 set
            let mut e: u128 = bl as u128 - 1 + extra_exp; // unbiased exponent
            if bl <= 53 {
                top = self.to_u128().unwrap() as u64;
                top <<= 53 - bl;
            } else {
                let cut = bl - 53;
                top = self.shr(cut).to_u128().unwrap() as u64;
                let round = self.bit(cut - 1);
                let sticky = self.trailing_zeros() < cut - 1;
                if round && (sticky || top & 1 == 1) {
                    top += 1;
                    if top == 1 << 53 {
                        top = 1 << 52;
                        e += 1;
                    }
                }
            }
            if e > 1023 {
                return f64::INFINITY;
            }
            f64::from_bits(((e as u64 + 1023) << 52) | (top & ((1 << 52) - 1)))
        }
        pub fn to_f64(&self) -> f64 {
            self.to_f64_scaled(0)
        }
    }
}

/// Decomposed value m * 2^e with m odd, or m = 0 and e = 0 (the documented
/// normal form of `Natural`); the exponent is kept symbolic so that values
/// with astronomically large exponents can be compared.
#[derive(Clone, PartialEq, Eq, Debug)]
struct Val {
    m: Big,
    e: u128,
}

impl Val {
    fn of_big(b: &Big) -> Val {
        if b.is_zero() {
            return Val { m: Big::zero(), e: 0 };
        }
        let tz = b.trailing_zeros();
        Val { m: b.shr(tz), e: tz as u128 }
    }
    fn shl(&self, s: u64) -> Val {
        if self.m.is_zero() { self.clone() } else { Val { m: self.m.clone(), e: self.e + s as u128 } }
    }
    /// None: a 1 bit would be lost
    fn shr_exact(&self, s: u64) -> Option<Val> {
        if self.m.is_zero() {
            Some(self.clone())
        } else if s as u128 <= self.e {
            Some(Val { m: self.m.clone(), e: self.e - s as u128 })
        } else {
            None
        }
    }
    /// the exponent is not representable (u64::MAX is the documented NaN marker)
    fn exp_overflow(&self) -> bool {
        self.e >= u64::MAX as u128
    }
    fn to_big(&self) -> Big {
        assert!(self.e < 1 << 20, "harness: value too large to expand");
        self.m.shl(self.e as u64)
    }
    fn show(&self) -> String {
        if self.e < 4096 { format!("0x{}", self.to_big().to_pow2(4, false)) } else { format!("0x{} * 2^{}", self.m.to_pow2(4, false), self.e) }
    }
}

/// Read a `Natural` through its public accessors. `Ok(None)` = NaN.
/// `Err` = the documented representation invariants are violated.
fn read_nat(x: &Natural) -> Result<Option<Val>, String> {
    if x.is_nan() {
        return Ok(None);
    }
    let m = x.mantissa();
    let e = x.exp();
    if m.is_empty() {
        return Err("mantissa() is empty (documented: at least one element)".into());
    }
    if m == [0] {
        if e != 0 {
            return Err(format!("mantissa is 0 but exponent is {e} (documented: both zero)"));
        }
        return Ok(Some(Val { m: Big::zero(), e: 0 }));
    }
    if *m.last().unwrap() == 0 {
        return Err(format!("mantissa() = {m:x?} has a zero most significant digit (documented: minimal length)"));
    }
    if m[0] & 1 == 0 {
        return Err(format!("mantissa() = {m:x?} is even (documented: odd unless the number is zero)"));
    }
    Ok(Some(Val { m: Big::from_u64_digits(m), e: e as u128 }))
}

fn show_nat(x: &Natural) -> String {
    match read_nat(x) {
        Ok(None) => "NaN".into(),
        Ok(Some(v)) => v.show(),
        Err(e) => format!("<invalid: {e}; mantissa {:x?} exp {}>", x.mantissa(), x.exp()),
    }
}

fn nat_of(b: &Big) -> Natural {
    Natural::from_le_digits(&b.to_u64_digits())
}

// ---------------------------------------------------------------------------
// registration
// ---------------------------------------------------------------------------

pub fn meta() -> Meta {
    Meta {
        level: "exploration",
        rule: "bounded exhaustive. sat_count: kinds {bdd,bcdd,zbdd}, n=3, all 6 orders, all 256 functions x vars in {3,4,63,64,73,127,128,1021,1024,1100} (zbdd: vars = number of manager variables; managers with 3, 73 and 1100 variables whose extra variables are don't-cares) x {Saturating<u64>, Saturating<u128>, F64, Natural} x cache_all in {off,on}, with a fresh cache per call and with one cache per number type reused across all handles (vars outer / vars inner / reverse order + no-op gc), across drop+gc+creation of a different function for all 256 x 256 pairs (t1,t2), across drop+gc+set_var_order to each of the 6 orders on a manager without live handles; enumerated cache histories: every sequence of length 5 (thorough 6) over 9 actions {query(f0|f1, vars 3|4) alternately through sat_count and the edge-level sat_count_edge, gc, rebuild f1 in recycled slots, toggle cache_all, reorder(rotate) with all handles alive followed by new helper functions that recycle the freed slots, pick_cube_uniform(f0|f1) through the F64 cache} on one cache per number type, every query checked; thorough: n=4 all 65536 functions under all 24 orders (shared cache, rolling drop/gc, fresh cache). Natural: boundary operand set B (0..3, 2^k-1, 2^k, 2^k+1 for k in {31,32,63,64,65,127,128,129,191,192,255,256}, (2^64+1)*2^j, carry-chain patterns, shifted variants): all ordered pairs for +, ==, partial_cmp, all ordered triples for sums, all (b,s) for <<, >> with s in S (u32 and u64 amounts incl. exponent overflow), From<u8..u128>, from_le_digits, clone/clone_from, hash, bit_width, TryFrom to u64/u128, f64 conversion on a rounding-boundary family, Display/Binary/Octal/LowerHex/UpperHex under 24 flag templates x 9 widths. A sat_count case is non-trivial when the function is not constant; a Natural case is non-trivial when all operands are non-zero; every enumerated tuple is distinct.",
        assumptions: vec![
            "operands are built through DiagramRules::reduce + then_insert, not through apply operators".into(),
            "ZBDD: sat_count is only called with vars = number of manager variables (the only value for which the Boolean-function reading of a ZBDD is defined); a change of vars is therefore not exercised for ZBDDs".into(),
            "reordering with live nodes is not exercised here (known to abort, belongs to C08): set_var_order is applied only after all handles were dropped and collected, so the epoch bump by reorder is not observable separately from the one by gc".into(),
            "NaN behaviour is only demanded where documented (inexact right shift, exponent overflow, no NaN elsewhere); ordering/equality/formatting/addition of NaN is exercised but only recorded as outcome".into(),
            "Saturating<T>: when 2^vars is not representable the marker T::MAX is demanded; the exact count is also accepted if it happens to be representable".into(),
            "the property's 'random functions up to 16 variables / random operands up to 512 bits' are replaced by the exhaustive n=4 block and the boundary grid (no sampling)".into(),
            "index-based manager backend; SatCountCache with a deterministic FxHasher".into(),
        ],
        hang_is_violation: false,
        shard_timeout: (300, 1800),
    }
}

const NAT_ADD3_PARTS: usize = 8;

pub fn shards(tier: &str) -> Vec<String> {
    let mut v = vec![];
    for k in ["bdd", "bcdd", "zbdd"] {
        for o in model::perms(3) {
            v.push(format!("sat:{k}:{}", model::order_str(&o)));
        }
    }
    for k in ["bdd", "bcdd", "zbdd"] {
        for o in ["012", "201"] {
            v.push(format!("cachehist:{k}:{o}"));
        }
    }
    for s in ["selftest", "construct", "add", "cmp", "shift", "conv", "fmt:d", "fmt:b", "fmt:o", "fmt:x", "fmt:X"] {
        v.push(format!("nat:{s}"));
    }
    for p in 0..NAT_ADD3_PARTS {
        v.push(format!("nat:add3:{p}"));
    }
    // the count cache of one thread reused across a collection that runs on another thread (C07's scheduler,
    // script S15: build / count with every node cached / drop, three times, against gc; preemption bound 2)
    for k in ["bdd", "bcdd", "zbdd"] {
        v.push(format!("sched:{k}:s15:b2"));
        // S16: a cache filled before the collection; both threads inside a session of another manager, so that
        // freed slots are handed out again while the collection is still running
        v.push(format!("sched:{k}:s16:b{}", if tier == "thorough" { 3 } else { 2 }));
    }
    if tier == "thorough" {
        for k in ["bdd", "bcdd", "zbdd"] {
            for o in model::perms(4) {
                for part in 0..8 {
                    v.push(format!("sat4:{k}:{}:{part}", model::order_str(&o)));
                }
            }
        }
    }
    v
}

pub fn run(ctx: &mut Ctx) {
    let shard = ctx.shard.clone();
    let parts: Vec<&str> = shard.split(':').collect();
    match parts[0] {
        "sched" => {
            ctx.shard = shard["sched:".len()..].to_string();
            super::c07::run_script_shard(ctx);
        }
        "sat" => {
            let order = model::parse_order(parts[2]);
            match parts[1] {
                "bdd" => run_sat3::<Bdd>(ctx, &order),
                "bcdd" => run_sat3::<Bcdd>(ctx, &order),
                "zbdd" => {
                    run_sat3::<Zbdd>(ctx, &order);
                    run_zbdd_ext(ctx, &order);
                }
                _ => panic!("bad shard"),
            }
        }
        "cachehist" => {
            let order = model::parse_order(parts[2]);
            match parts[1] {
                "bdd" => run_cache_hist::<Bdd>(ctx, &order),
                "bcdd" => run_cache_hist::<Bcdd>(ctx, &order),
                "zbdd" => run_cache_hist::<Zbdd>(ctx, &order),
                _ => panic!("bad shard"),
            }
        }
        "sat4" => {
            let order = model::parse_order(parts[2]);
            let part: u64 = parts[3].parse().unwrap();
            match parts[1] {
                "bdd" => run_sat4::<Bdd>(ctx, &order, part),
                "bcdd" => run_sat4::<Bcdd>(ctx, &order, part),
                "zbdd" => run_sat4::<Zbdd>(ctx, &order, part),
                _ => panic!("bad shard"),
            }
        }
        "nat" => match parts[1] {
            "selftest" => nat_selftest(ctx),
            "construct" => nat_construct(ctx),
            "add" => nat_add(ctx),
            "cmp" => nat_cmp(ctx),
            "shift" => nat_shift(ctx),
            "conv" => nat_conv(ctx),
            "fmt" => nat_fmt(ctx, parts[2]),
            "add3" => nat_add3(ctx, parts[2].parse().unwrap()),
            _ => panic!("bad shard"),
        },
        _ => panic!("bad shard"),
    }
}

// ---------------------------------------------------------------------------
// number types
// ---------------------------------------------------------------------------

trait NumT: SatCountNumber + 'static {
    const NAME: &'static str;
    /// compare with the exact count; Ok(outcome label) or Err(what is wrong)
    fn judge(&self, exact: &Big, vars: u32) -> Result<&'static str, String>;
    fn show(&self) -> String;
}

macro_rules! impl_sat_int {
    ($t:ty, $name:literal) => {
        impl NumT for Saturating<$t> {
            const NAME: &'static str = $name;
            fn judge(&self, exact: &Big, vars: u32) -> Result<&'static str, String> {
                let ex: Option<$t> = exact.to_u128().and_then(|v| <$t>::try_from(v).ok());
                if vars < <$t>::BITS {
                    // 2^vars is representable: the exact count is demanded
                    if Some(self.0) == ex { Ok("int_exact") } else { Err(format!("2^{vars} is representable in {} but the result is not the exact count", $name)) }
                } else if self.0 == <$t>::MAX {
                    Ok("int_saturated")
                } else if Some(self.0) == ex {
                    Ok("int_exact_beyond_range")
                } else {
                    Err(format!("2^{vars} is not representable in {}: expected the saturation marker {}::MAX (or the exact count)", $name, stringify!($t)))
                }
            }
            fn show(&self) -> String {
                if self.0 == <$t>::MAX { format!("{} (MAX)", self.0) } else { format!("{}", self.0) }
            }
        }
    };
}
impl_sat_int!(u64, "sat_u64");
impl_sat_int!(u128, "sat_u128");

impl NumT for F64 {
    const NAME: &'static str = "f64";
    fn judge(&self, exact: &Big, _vars: u32) -> Result<&'static str, String> {
        let e = exact.to_f64();
        if self.0 == e {
            Ok(if e == 0.0 { "f64_zero" } else if e.is_infinite() { "f64_inf" } else { "f64_finite" })
        } else {
            Err(format!("expected the correctly rounded value {e:e} (bits {:#x}), got bits {:#x}", e.to_bits(), self.0.to_bits()))
        }
    }
    fn show(&self) -> String {
        format!("{:e}", self.0)
    }
}

impl NumT for Natural {
    const NAME: &'static str = "natural";
    fn judge(&self, exact: &Big, _vars: u32) -> Result<&'static str, String> {
        match read_nat(self) {
            Err(e) => Err(format!("representation invariant violated: {e}")),
            Ok(None) => Err("result is NaN although the count is exact".into()),
            Ok(Some(v)) => {
                if v == Val::of_big(exact) {
                    Ok(if self.mantissa().len() > 1 { "natural_multi_digit" } else { "natural_single_digit" })
                } else {
                    Err("wrong value".into())
                }
            }
        }
    }
    fn show(&self) -> String {
        show_nat(self)
    }
}

// ---------------------------------------------------------------------------
// sat_count cases
// ---------------------------------------------------------------------------

struct Env {
    kind: &'static str,
    n: u32,
    order: String,
    /// number of manager variables (n unless the manager has extra don't-care variables)
    mgr_vars: u32,
    layout: &'static str,
}

fn exact_count(t: Tab, n: u32, vars: u32) -> Big {
    Big::from_u64(t.count_ones() as u64).shl((vars - n) as u64)
}

struct Caches {
    cache_all: bool,
    s64: Cache<Saturating<u64>>,
    s128: Cache<Saturating<u128>>,
    f: Cache<F64>,
    nat: Cache<Natural>,
}

/// one sat_count call of one number type; false = the call panicked (the
/// caller abandons the manager)
fn count_one<K: BoolKind, N: NumT>(ctx: &mut Ctx, env: &Env, f: &K::F, t: Tab, vars: u32, cache: &mut Cache<N>, cache_all: bool, hist: &str) -> bool {
    let exact = exact_count(t, env.n, vars);
    let filled = !cache.map.is_empty();
    let case = |got: &str| {
        json!({"kind": env.kind, "n": env.n, "order": env.order, "manager_vars": env.mgr_vars, "layout": env.layout, "table": format!("{t:#x}"),
               "vars": vars, "num": N::NAME, "cache_all": cache_all, "history": hist, "cache_was_filled": filled,
               "expected": format!("{} (= popcount {} * 2^{})", exact.to_dec(), t.count_ones(), vars - env.n), "got": got})
    };
    let vs = vars.to_string();
    let base = attrs(&[("kind", env.kind), ("op", "sat_count"), ("num", N::NAME), ("history", hist), ("vars", &vs), ("cache_all", if cache_all { "1" } else { "0" })]);
    ctx.count("evaluations", 1);
    let nonconst = t != 0 && t != model::full(env.n);
    if nonconst {
        ctx.count("nontrivial", 1);
        if filled {
            ctx.count("nontrivial_with_filled_cache", 1);
        }
    }
    let got = ctx.guarded(&base, || case("panic"), || f.sat_count(vars, cache));
    let Some(got) = got else { return false };
    match got.judge(&exact, vars) {
        Ok(label) => ctx.outcome(label),
        Err(why) => {
            let mut a = base.clone();
            a.insert("class".into(), "wrong_value".into());
            ctx.viol(
                a,
                case(&got.show()),
                &format!(
                    "{} order {} table {t:#x}: sat_count::<{}>(vars={vars}) [history {hist}, cache_all={cache_all}] = {}, exact count is {}: {why}",
                    env.kind,
                    env.order,
                    N::NAME,
                    got.show(),
                    exact.to_dec()
                ),
            );
        }
    }
    true
}

impl Caches {
    fn new(cache_all: bool) -> Caches {
        let mut c = Caches { cache_all, s64: Cache::default(), s128: Cache::default(), f: Cache::default(), nat: Cache::default() };
        c.s64.cache_all = cache_all;
        c.s128.cache_all = cache_all;
        c.f.cache_all = cache_all;
        c.nat.cache_all = cache_all;
        c
    }
    /// all four number types; false = a call panicked
    fn check<K: BoolKind>(&mut self, ctx: &mut Ctx, env: &Env, f: &K::F, t: Tab, vars: u32, hist: &str) -> bool {
        let ca = self.cache_all;
        count_one::<K, _>(ctx, env, f, t, vars, &mut self.s64, ca, hist)
            && count_one::<K, _>(ctx, env, f, t, vars, &mut self.s128, ca, hist)
            && count_one::<K, _>(ctx, env, f, t, vars, &mut self.f, ca, hist)
            && count_one::<K, _>(ctx, env, f, t, vars, &mut self.nat, ca, hist)
    }
}

const VARS3: [u32; 10] = [3, 4, 63, 64, 73, 127, 128, 1021, 1024, 1100];
const VARS4: [u32; 8] = [4, 5, 64, 74, 128, 1022, 1024, 1100];
const TC1: ThreadCfg = ThreadCfg { threads: 1, split: None };

fn vars_list<K: BoolKind>(n: u32) -> Vec<u32> {
    if K::BK == BKind::Zbdd {
        vec![n]
    } else if n == 3 {
        VARS3.to_vec()
    } else {
        VARS4.to_vec()
    }
}

fn gc_of<K: BoolKind>(mref: &crate::dd::MRefOf<K>) -> usize {
    mref.with_manager_shared(|m| m.gc())
}

/// abandon a manager after a caught panic (never reuse, never run its drop code)
macro_rules! abandon {
    ($($x:expr),*) => {{ $(std::mem::forget($x);)* return; }};
}

fn run_sat3<K: BoolKind>(ctx: &mut Ctx, order: &[u32]) {
    let n = 3u32;
    let order = order.to_vec();
    let env = Env { kind: K::NAME, n, order: model::order_str(&order), mgr_vars: n, layout: "plain" };
    let vars = vars_list::<K>(n);

    for ca in [false, true] {
        ctx.group(&format!("fresh cache per call, cache_all={ca}"), |ctx| {
            let (mref, fns) = all_functions::<K>(n, &order, 1024, TC1);
            for (t, f) in fns.iter().enumerate() {
                for &v in &vars {
                    if !Caches::new(ca).check::<K>(ctx, &env, f, t as Tab, v, "fresh") {
                        abandon!(mref, fns);
                    }
                }
            }
            ctx.sample(|| json!({"kind": K::NAME, "order": env.order, "table": "0x96", "vars": 73, "num": "natural", "history": "fresh", "expected": "4 * 2^70"}));
        });
        ctx.group(&format!("shared cache, vars outer, cache_all={ca}"), |ctx| {
            let (mref, fns) = all_functions::<K>(n, &order, 1024, TC1);
            let mut c = Caches::new(ca);
            for &v in &vars {
                for (t, f) in fns.iter().enumerate() {
                    if !c.check::<K>(ctx, &env, f, t as Tab, v, "shared_vars_outer") {
                        abandon!(mref, fns);
                    }
                }
            }
        });
        ctx.group(&format!("shared cache, vars inner, cache_all={ca}"), |ctx| {
            let (mref, fns) = all_functions::<K>(n, &order, 1024, TC1);
            let mut c = Caches::new(ca);
            for (t, f) in fns.iter().enumerate() {
                for &v in &vars {
                    if !c.check::<K>(ctx, &env, f, t as Tab, v, "shared_vars_inner") {
                        abandon!(mref, fns);
                    }
                }
            }
        });
        ctx.group(&format!("shared cache, reverse order, gc that frees nothing, cache_all={ca}"), |ctx| {
            let (mref, fns) = all_functions::<K>(n, &order, 1024, TC1);
            let mut c = Caches::new(ca);
            let vs: Vec<u32> = if vars.len() > 1 { vec![3, 73] } else { vec![3] };
            for &v in &vs {
                for (t, f) in fns.iter().enumerate().rev() {
                    if !c.check::<K>(ctx, &env, f, t as Tab, v, "shared_reverse") {
                        abandon!(mref, fns);
                    }
                }
                gc_of::<K>(&mref);
                for (t, f) in fns.iter().enumerate() {
                    if !c.check::<K>(ctx, &env, f, t as Tab, v, "shared_after_noop_gc") {
                        abandon!(mref, fns);
                    }
                }
            }
        });
    }

    // a domain pretended to be smaller than the support (documented: "the computation result is NaN to make
    // the error obvious" when an inexact halving occurs): Natural only, plain and complement-edge BDDs
    if K::BK != BKind::Zbdd {
        ctx.group("natural: vars smaller than the number of variables", |ctx| {
            let (_mref, fns) = all_functions::<K>(n, &order, 1024, TC1);
            for (t, f) in fns.iter().enumerate() {
                for v in 0..n {
                    for ca in [false, true] {
                        ctx.count("evaluations", 1);
                        ctx.count("nontrivial", 1);
                        // every node (sub-function reached by cofactoring along the order) stands for the number
                        // 2^v * |g| / 2^n; the count is exact iff that is an integer for all of them
                        let mut exact = true;
                        let mut stack = vec![t as Tab];
                        let mut seen = std::collections::BTreeSet::new();
                        while let Some(g) = stack.pop() {
                            if !seen.insert(g) {
                                continue;
                            }
                            if ((g.count_ones() as u64) << v) % (1u64 << n) != 0 {
                                exact = false;
                            }
                            if let Some(&x) = order.iter().find(|&&x| model::depends_on(g, x, n)) {
                                stack.push(model::cofactor(g, x, true, n));
                                stack.push(model::cofactor(g, x, false, n));
                            }
                        }
                        let mut cache: Cache<Natural> = Cache::default();
                        cache.cache_all = ca;
                        let got = f.sat_count(v, &mut cache);
                        let want: Option<u64> = if exact { Some(((t as Tab).count_ones() as u64) << v >> n) } else { None };
                        // exact: the count; inexact: the documentation promises the error value for the shift that
                        // loses a bit, what sums of error values are is not documented (recorded as outcome), but
                        // whatever comes out must be the error value or a well-formed number
                        let (ok, class) = match (want, read_nat(&got)) {
                            (Some(w), Ok(Some(_))) => (u64::try_from(&got) == Ok(w), "wrong_value"),
                            (Some(_), Ok(None)) => (false, "unexpected_nan"),
                            (None, Ok(None)) => {
                                ctx.outcome("smaller_domain_inexact:nan");
                                (true, "")
                            }
                            (None, Ok(Some(_))) => {
                                ctx.outcome("smaller_domain_inexact:some_number");
                                (true, "")
                            }
                            (_, Err(_)) => (false, "malformed"),
                        };
                        if !ok {
                            ctx.viol(
                                attrs(&[("kind", K::NAME), ("op", "sat_count"), ("num", "natural"), ("history", "smaller_domain"), ("class", class)]),
                                json!({"kind": K::NAME, "n": n, "order": env.order, "table": format!("{t:#x}"), "vars": v, "cache_all": ca, "expected": want.map(|w| w.to_string()).unwrap_or("NaN or a well-formed number".into()), "got": show_nat(&got)}),
                                &format!("{} order {} sat_count::<natural>({t:#x}, vars={v}) = {}, expected {}", K::NAME, env.order, show_nat(&got), want.map(|w| w.to_string()).unwrap_or("the error value (or at least a well-formed number)".into())),
                            );
                        }
                    }
                }
            }
        });
    }

    // drop + gc + creation of a different function that recycles the node ids
    let t1s: Vec<Tab> = (0..256).collect();
    for ca in [true, false] {
        for (ci, chunk) in t1s.chunks(64).enumerate() {
            ctx.group(&format!("recycle node ids, cache_all={ca}, chunk {ci}"), |ctx| {
                let mref = crate::dd::fresh::<K>(n, &order, 1 << 16, 1024, 1);
                let mut c = Caches::new(ca);
                for &t1 in chunk {
                    for t2 in 0..256u64 {
                        let (v1, v2) = (vars[((t1 + t2) % vars.len() as u64) as usize], vars[((t1 + t2 + 1) % vars.len() as u64) as usize]);
                        let a = K::build(&mref, t1).expect("harness: out of memory");
                        let ra = K::raw(&a);
                        if !c.check::<K>(ctx, &env, &a, t1, v1, "recycle_first") {
                            abandon!(mref, a);
                        }
                        drop(a);
                        gc_of::<K>(&mref);
                        let b = K::build(&mref, t2).expect("harness: out of memory");
                        let rb = K::raw(&b);
                        if t1 != t2 && !ra.term && !rb.term && ra.id == rb.id {
                            ctx.count("recycled_root_id_for_different_function", 1);
                        }
                        if !c.check::<K>(ctx, &env, &b, t2, v1, "recycle_after_gc") {
                            abandon!(mref, b);
                        }
                        if v2 != v1 && !c.check::<K>(ctx, &env, &b, t2, v2, "recycle_vars_change") {
                            abandon!(mref, b);
                        }
                        drop(b);
                        if t2 % 2 == 1 {
                            gc_of::<K>(&mref);
                        }
                    }
                }
            });
        }
    }

    // drop + gc + set_var_order on a manager without live handles + rebuild
    ctx.group("drop, gc, set_var_order without live handles, rebuild", |ctx| {
        for o2 in model::perms(n) {
            let mref = crate::dd::fresh::<K>(n, &order, 1 << 16, 1024, 1);
            let mut c = Caches::new(true);
            let v = *vars.last().unwrap().min(&73);
            let fns: Vec<K::F> = (0..256).map(|t| K::build(&mref, t).expect("harness: out of memory")).collect();
            for (t, f) in fns.iter().enumerate() {
                if !c.check::<K>(ctx, &env, f, t as Tab, v, "before_reorder") {
                    abandon!(mref, fns);
                }
            }
            drop(fns);
            gc_of::<K>(&mref);
            K::set_order(&mref, &o2);
            let env2 = Env { kind: K::NAME, n, order: format!("{}->{}", env.order, model::order_str(&o2)), mgr_vars: n, layout: "plain" };
            let fns: Vec<K::F> = (0..256).map(|t| K::build(&mref, t).expect("harness: out of memory")).collect();
            for (t, f) in fns.iter().enumerate() {
                assert_eq!(K::table(f), Ok(t as Tab), "harness: rebuilt function reads back differently");
                if !c.check::<K>(ctx, &env2, f, t as Tab, v, "after_gc_and_reorder") {
                    abandon!(mref, fns);
                }
            }
        }
    });
}

// ---------------------------------------------------------------------------
// ZBDD managers with extra don't-care variables (large counts for ZBDDs)
// ---------------------------------------------------------------------------

fn zb_reduce_insert<M: Manager>(m: &M, level: u32, t: M::Edge, e: M::Edge) -> oxidd_core::util::AllocResult<M::Edge> {
    <M::Rules as DiagramRules<_, _, _>>::reduce(m, level, [t, e]).then_insert(m, level)
}

/// family `t` over the variables 0..3 (which sit at the levels `lo_level..lo_level+3`),
/// with `base` in place of the Base terminal
fn zb_build<M: Manager<Terminal = ZBDDTerminal>>(m: &M, t: Tab, level: u32, base: &M::Edge) -> M::Edge {
    if t == 0 {
        return m.get_terminal(ZBDDTerminal::Empty).unwrap();
    }
    if t == 1 {
        return m.clone_edge(base);
    }
    let v = m.level_to_var(level);
    assert!(v < 3, "harness: level {level} does not hold one of the three function variables");
    let hi = zb_build(m, model::fam_subset1(t, v, 3), level + 1, base);
    let lo = zb_build(m, model::fam_subset0(t, v, 3), level + 1, base);
    zb_reduce_insert(m, level, hi, lo).expect("harness: out of memory")
}

/// don't-care nodes for the levels `from..to` (exclusive) on top of `e`
fn zb_dont_care<M: Manager<Terminal = ZBDDTerminal>>(m: &M, e: M::Edge, from: u32, to: u32) -> M::Edge {
    let mut cur = e;
    for l in (from..to).rev() {
        let c2 = m.clone_edge(&cur);
        cur = zb_reduce_insert(m, l, cur, c2).expect("harness: out of memory");
    }
    cur
}

/// the harness's own count over the raw structure (memo per node id, no
/// library cache), to validate the builder
fn zb_own_count<M: Manager<Terminal = ZBDDTerminal>>(m: &M, e: &M::Edge, memo: &mut std::collections::BTreeMap<usize, Big>) -> Big {
    use oxidd::{Edge, InnerNode, Node};
    use std::borrow::Borrow;
    match m.get_node(e) {
        Node::Terminal(t) => {
            if *t.borrow() == ZBDDTerminal::Base { Big::from_u64(1) } else { Big::zero() }
        }
        Node::Inner(node) => {
            if let Some(b) = memo.get(&e.node_id()) {
                return b.clone();
            }
            let mut it = node.children();
            let a = zb_own_count(m, &*it.next().unwrap(), memo);
            let b = zb_own_count(m, &*it.next().unwrap(), memo);
            let r = a.add(&b);
            memo.insert(e.node_id(), r.clone());
            r
        }
    }
}

fn run_zbdd_ext(ctx: &mut Ctx, order: &[u32]) {
    use oxidd::zbdd::ZBDDFunction;
    let order = order.to_vec();
    for (total, top) in [(73u32, true), (73, false), (1100, true)] {
        for ca in [false, true] {
            ctx.group(&format!("zbdd with {total} variables, function variables at the {}, cache_all={ca}", if top { "top" } else { "bottom" }), |ctx| {
                let full_order: Vec<u32> = if top { order.iter().copied().chain(3..total).collect() } else { (3..total).chain(order.iter().copied()).collect() };
                let mref = crate::dd::fresh::<Zbdd>(total, &full_order, 1 << 16, 1024, 1);
                let env = Env { kind: "zbdd", n: 3, order: model::order_str(&order), mgr_vars: total, layout: if top { "function variables on top, don't-cares below" } else { "don't-cares on top, function variables at the bottom" } };
                let fns: Vec<ZBDDFunction> = (0..256u64)
                    .map(|t| {
                        mref.with_manager_shared(|m| {
                            let base = m.get_terminal(ZBDDTerminal::Base).unwrap();
                            let e = if top {
                                let chain = zb_dont_care(m, base, 3, total);
                                let e = zb_build(m, t, 0, &chain);
                                m.drop_edge(chain);
                                e
                            } else {
                                let e = zb_build(m, t, total - 3, &base);
                                m.drop_edge(base);
                                zb_dont_care(m, e, 0, total - 3)
                            };
                            let own = zb_own_count(m, &e, &mut Default::default());
                            assert!(own == exact_count(t, 3, total), "harness: builder produced a diagram with a different own count");
                            ZBDDFunction::from_edge(m, e)
                        })
                    })
                    .collect();
                let mut c = Caches::new(ca);
                for (t, f) in fns.iter().enumerate() {
                    if !Caches::new(ca).check::<Zbdd>(ctx, &env, f, t as Tab, total, "fresh") {
                        abandon!(mref, fns);
                    }
                    if !c.check::<Zbdd>(ctx, &env, f, t as Tab, total, "shared") {
                        abandon!(mref, fns);
                    }
                }
                for (t, f) in fns.iter().enumerate().rev() {
                    if !c.check::<Zbdd>(ctx, &env, f, t as Tab, total, "shared_reverse") {
                        abandon!(mref, fns);
                    }
                }
            });
        }
    }
}

// ---------------------------------------------------------------------------
// n = 4 (thorough)
// ---------------------------------------------------------------------------

fn run_sat4<K: BoolKind>(ctx: &mut Ctx, order: &[u32], part: u64) {
    let n = 4u32;
    let order = order.to_vec();
    let env = Env { kind: K::NAME, n, order: model::order_str(&order), mgr_vars: n, layout: "plain" };
    let vars = vars_list::<K>(n);
    let (lo, hi) = (part * 8192, part * 8192 + 8192);
    for ca in [false, true] {
        ctx.group(&format!("n4 part {part}: shared cache, cache_all={ca}"), |ctx| {
            let mref = crate::dd::fresh::<K>(n, &order, 1 << 20, 4096, 1);
            let fns: Vec<K::F> = (lo..hi).map(|t| K::build(&mref, t).expect("harness: out of memory")).collect();
            let mut c = Caches::new(ca);
            for &v in &vars {
                for (i, f) in fns.iter().enumerate() {
                    if !c.check::<K>(ctx, &env, f, lo + i as u64, v, "shared_vars_outer") {
                        abandon!(mref, fns);
                    }
                }
            }
        });
    }
    ctx.group(&format!("n4 part {part}: rolling build/count/drop with gc every 8"), |ctx| {
        let mref = crate::dd::fresh::<K>(n, &order, 1 << 20, 4096, 1);
        let mut c = Caches::new(true);
        for t in lo..hi {
            let f = K::build(&mref, t).expect("harness: out of memory");
            let v = vars[(t % vars.len() as u64) as usize];
            if !c.check::<K>(ctx, &env, &f, t, v, "rolling_gc") {
                abandon!(mref, f);
            }
            drop(f);
            if t % 8 == 7 {
                gc_of::<K>(&mref);
            }
        }
    });
    ctx.group(&format!("n4 part {part}: fresh cache per call"), |ctx| {
        let mref = crate::dd::fresh::<K>(n, &order, 1 << 20, 4096, 1);
        for t in lo..hi {
            let f = K::build(&mref, t).expect("harness: out of memory");
            for &v in [vars[0], *vars.get(3).unwrap_or(&vars[0])].iter() {
                if !Caches::new(false).check::<K>(ctx, &env, &f, t, v, "fresh") {
                    abandon!(mref, f);
                }
            }
        }
    });
}

// ---------------------------------------------------------------------------
// Natural: operand sets
// ---------------------------------------------------------------------------

#[derive(Clone)]
struct Op {
    name: String,
    v: Big,
}

const KS: [u64; 12] = [31, 32, 63, 64, 65, 127, 128, 129, 191, 192, 255, 256];
const SHIFTS32: [u32; 9] = [0, 1, 31, 63, 64, 65, 127, 128, 200];

/// boundary operand set B
fn operand_set() -> Vec<Op> {
    let mut v: Vec<Op> = vec![];
    let mut push = |name: String, b: Big| {
        if !v.iter().any(|o: &Op| o.v == b) {
            v.push(Op { name, v: b });
        }
    };
    for i in 0..4u64 {
        push(format!("{i}"), Big::from_u64(i));
    }
    let one = Big::from_u64(1);
    for k in KS {
        push(format!("2^{k}-1"), Big::ones(k));
        push(format!("2^{k}"), Big::pow2(k));
        push(format!("2^{k}+1"), Big::pow2(k).add(&one));
    }
    let c = Big::pow2(64).add(&one);
    for j in [0u64, 1, 31, 63, 64, 65] {
        push(format!("(2^64+1)*2^{j}"), c.shl(j));
    }
    // carry-chain patterns (u64 digits, little endian)
    let m = u64::MAX;
    for (name, d) in [
        ("[0,MAX]", vec![0, m]),
        ("[0,0,MAX]", vec![0, 0, m]),
        ("[1,MAX,MAX]", vec![1, m, m]),
        ("[MAX,0,1]", vec![m, 0, 1]),
        ("[MAX,MAX,0,1]", vec![m, m, 0, 1]),
        ("[1,0,MAX]", vec![1, 0, m]),
        ("[MAX-1,MAX]", vec![m - 1, m]),
        ("[1<<63,1<<63]", vec![1 << 63, 1 << 63]),
        ("[1,1<<63]", vec![1, 1 << 63]),
        ("[MAX,1<<63]", vec![m, 1 << 63]),
        ("[0x5555..,0xaaaa..,0x5555..]", vec![0x5555_5555_5555_5555, 0xaaaa_aaaa_aaaa_aaaa, 0x5555_5555_5555_5555]),
    ] {
        push(name.to_string(), Big::from_u64_digits(&d));
    }
    // shifted variants (exponents that differ by less / exactly / more than a digit)
    let cores = [("3", Big::from_u64(3)), ("(2^64-1)", Big::ones(64)), ("(2^65-1)", Big::ones(65)), ("(2^128-1)", Big::ones(128)), ("(2^128+1)", Big::pow2(128).add(&one))];
    for (cn, cb) in cores {
        for j in [1u64, 31, 63, 64, 65] {
            push(format!("{cn}*2^{j}"), cb.shl(j));
        }
    }
    v
}

fn names(ops: &[&Op]) -> Vec<String> {
    ops.iter().map(|o| o.name.clone()).collect()
}
fn hexes(ops: &[&Op]) -> Vec<String> {
    ops.iter().map(|o| format!("0x{}", o.v.to_pow2(4, false))).collect()
}

fn nat_attrs(op: &str, class: &str) -> std::collections::BTreeMap<String, String> {
    attrs(&[("type", "natural"), ("op", op), ("class", class)])
}

/// Construct an operand with `from_le_digits` and verify it through the
/// accessors (a failure is reported as a from_le_digits violation).
fn mk(ctx: &mut Ctx, o: &Op) -> Option<Natural> {
    let digits = o.v.to_u64_digits();
    let case = || json!({"op": "from_le_digits", "operand": o.name, "digits_le": format!("{digits:x?}")});
    let x = ctx.guarded(&nat_attrs("from_le_digits", "panic"), case, || Natural::from_le_digits(&digits))?;
    match read_nat(&x) {
        Ok(Some(v)) if v == Val::of_big(&o.v) => Some(x),
        other => {
            ctx.viol(
                nat_attrs("from_le_digits", "wrong_value"),
                case(),
                &format!("Natural::from_le_digits({digits:x?}) [{}] reads back as {}", o.name, match other {
                    Ok(Some(v)) => v.show(),
                    Ok(None) => "NaN".into(),
                    Err(e) => format!("invalid representation: {e}"),
                }),
            );
            None
        }
    }
}

/// Compare a result with the oracle. `exp = None` means NaN is documented.
fn judge_nat(ctx: &mut Ctx, op: &str, ops: &[&Op], extra: Value, got: &Natural, exp: Option<&Val>) {
    let case = |g: &str| json!({"op": op, "operands": names(ops), "operands_hex": hexes(ops), "args": extra, "expected": exp.map(|v| v.show()).unwrap_or("NaN".into()), "got": g});
    let desc = format!("{op}({}{})", names(ops).join(", "), if extra.is_null() { String::new() } else { format!("; {extra}") });
    match (read_nat(got), exp) {
        (Err(e), _) => ctx.viol(nat_attrs(op, "invariant"), case(&show_nat(got)), &format!("Natural {desc}: result violates the documented representation: {e}")),
        (Ok(None), None) => ctx.outcome("natural_nan_as_documented"),
        (Ok(None), Some(v)) => ctx.viol(nat_attrs(op, "unexpected_nan"), case("NaN"), &format!("Natural {desc} = NaN, but the exact result {} is representable", v.show())),
        (Ok(Some(g)), None) => ctx.viol(nat_attrs(op, "missing_nan"), case(&g.show()), &format!("Natural {desc} = {}, but the documentation demands NaN (a 1 bit is lost / the exponent overflows)", g.show())),
        (Ok(Some(g)), Some(v)) => {
            if &g == v {
                ctx.outcome(if got.mantissa().len() > 1 { "natural_multi_digit" } else { "natural_single_digit" });
            } else {
                ctx.viol(nat_attrs(op, "wrong_value"), case(&g.show()), &format!("Natural {desc} = {}, exact result is {}", g.show(), v.show()));
            }
        }
    }
}

fn count_case(ctx: &mut Ctx, ops: &[&Op]) {
    ctx.count("evaluations", 1);
    if ops.iter().all(|o| !o.v.is_zero()) {
        ctx.count("nontrivial", 1);
    }
}

fn hash_of(x: &Natural) -> u64 {
    let mut h = std::collections::hash_map::DefaultHasher::new();
    x.hash(&mut h);
    h.finish()
}

// ---------------------------------------------------------------------------
// Natural: oracle self-test (harness soundness; compares the harness's own
// arithmetic and formatter with u128 / std, never with the library)
// ---------------------------------------------------------------------------

fn nat_selftest(ctx: &mut Ctx) {
    ctx.group("oracle self-test against u128 and std formatting", |ctx| {
        let mut vals: Vec<u128> = vec![0, 1, 2, 3, 9, 10, 0xff, 0x1234_5678_9abc_def0, u64::MAX as u128, 1 << 64, (1 << 64) + 1, u128::MAX >> 1, u128::MAX >> 3];
        for k in [31u32, 32, 52, 53, 54, 55, 63, 64, 65, 100, 126] {
            vals.extend([(1u128 << k) - 1, 1u128 << k, (1u128 << k) + 1, (1u128 << k) + 3, 3u128 << (k - 1), ((1u128 << 53) + 1) << (k % 70)]);
        }
        for &a in &vals {
            let ba = Big::from_u128(a);
            assert_eq!(ba.to_u128(), Some(a), "harness: u128 round trip");
            assert_eq!(ba.to_dec(), format!("{a}"), "harness: decimal");
            assert_eq!(ba.to_pow2(1, false), format!("{a:b}"), "harness: binary");
            assert_eq!(ba.to_pow2(3, false), format!("{a:o}"), "harness: octal");
            assert_eq!(ba.to_pow2(4, false), format!("{a:x}"), "harness: hex");
            assert_eq!(ba.to_pow2(4, true), format!("{a:X}"), "harness: HEX");
            assert_eq!(ba.to_f64().to_bits(), (a as f64).to_bits(), "harness: f64 rounding of {a}");
            assert_eq!(ba.bit_len(), (128 - a.leading_zeros()) as u64);
            assert_eq!(Big::from_u64_digits(&ba.to_u64_digits()), ba);
            for s in [0u64, 1, 5, 31, 32, 33, 64] {
                assert_eq!(ba.shr(s).to_u128(), Some(a >> s), "harness: shr");
                if a.leading_zeros() as u64 >= s {
                    assert_eq!(ba.shl(s).to_u128(), Some(a << s), "harness: shl");
                }
                assert_eq!(ba.shl(s + 200).shr(s + 200), ba, "harness: shl/shr");
            }
            for &b in &vals {
                let bb = Big::from_u128(b);
                if let Some(s) = a.checked_add(b) {
                    assert_eq!(ba.add(&bb).to_u128(), Some(s), "harness: add");
                }
                assert_eq!(ba.shl(70).add(&bb.shl(70)), ba.add(&bb).shl(70), "harness: add distributes over shl");
                assert_eq!(ba.cmp(&bb), a.cmp(&b), "harness: cmp");
            }
            // formatter model against std
            let d = format!("{a}").len();
            for w in [1, d, d + 1, d + 3, d + 8] {
                let mut outs: Vec<(String, &'static str)> = vec![];
                fmt_templates!("", &a, w, &mut outs);
                for (got, spec) in &outs {
                    let sp = parse_spec(spec, w);
                    assert_eq!(&pad_model(&sp, "", &ba.to_dec()), got, "harness: formatter model, spec {spec} width {w}");
                }
                let mut outs: Vec<(String, &'static str)> = vec![];
                fmt_templates!("x", &a, w, &mut outs);
                for (got, spec) in &outs {
                    let sp = parse_spec(spec, w);
                    assert_eq!(&pad_model(&sp, "0x", &ba.to_pow2(4, false)), got, "harness: formatter model, spec {spec} width {w}");
                }
                let mut outs: Vec<(String, &'static str)> = vec![];
                fmt_templates!("o", &a, w, &mut outs);
                for (got, spec) in &outs {
                    let sp = parse_spec(spec, w);
                    assert_eq!(&pad_model(&sp, "0o", &ba.to_pow2(3, false)), got, "harness: formatter model, spec {spec} width {w}");
                }
            }
            ctx.count("evaluations", 1);
        }
        // f64 rounding of the harness oracle at the overflow boundary
        assert_eq!(Big::ones(53).shl(971).to_f64(), f64::MAX);
        assert_eq!(Big::ones(54).shl(970).to_f64(), f64::INFINITY);
        assert_eq!(Big::pow2(1023).to_f64(), 2f64.powi(1023));
        assert_eq!(Big::pow2(1024).to_f64(), f64::INFINITY);
        assert_eq!(Big::ones(128).to_f64(), 2f64.powi(128));
        assert_eq!(Big::pow2(53).add(&Big::from_u64(1)).to_f64(), 2f64.powi(53));
        assert_eq!(Big::pow2(53).add(&Big::from_u64(3)).to_f64(), 2f64.powi(53) + 4.0);
        assert_eq!(Big::pow2(53).add(&Big::from_u64(1)).shl(64).add(&Big::from_u64(1)).to_f64(), (2f64.powi(53) + 2.0) * 2f64.powi(64));
    });
}

// ---------------------------------------------------------------------------
// formatter model (std::fmt::Formatter::pad_integral semantics)
// ---------------------------------------------------------------------------

#[derive(Clone, Copy, PartialEq, Eq, Debug)]
enum Al {
    Left,
    Center,
    Right,
}

#[derive(Clone, Debug)]
struct Spec {
    fill: char,
    align: Option<Al>,
    plus: bool,
    alt: bool,
    zero: bool,
    width: Option<usize>,
}

/// parse a template like `{:*^+#0w$x}`
fn parse_spec(s: &str, w: usize) -> Spec {
    let inner: Vec<char> = s.trim_start_matches("{:").trim_end_matches('}').chars().collect();
    let mut i = 0;
    let mut sp = Spec { fill: ' ', align: None, plus: false, alt: false, zero: false, width: None };
    let al = |c: char| match c {
        '<' => Some(Al::Left),
        '^' => Some(Al::Center),
        '>' => Some(Al::Right),
        _ => None,
    };
    if inner.len() >= 2 && al(inner[1]).is_some() {
        sp.fill = inner[0];
        sp.align = al(inner[1]);
        i = 2;
    } else if !inner.is_empty() && al(inner[0]).is_some() {
        sp.align = al(inner[0]);
        i = 1;
    }
    if inner.get(i) == Some(&'+') {
        sp.plus = true;
        i += 1;
    }
    if inner.get(i) == Some(&'#') {
        sp.alt = true;
        i += 1;
    }
    if inner.get(i) == Some(&'0') {
        sp.zero = true;
        i += 1;
    }
    if inner.get(i) == Some(&'w') {
        assert_eq!(inner.get(i + 1), Some(&'$'));
        sp.width = Some(w);
        i += 2;
    }
    assert!(inner.len() - i <= 1, "harness: cannot parse format template {s}");
    sp
}

/// what `Formatter::pad_integral(true, prefix, digits)` writes
fn pad_model(sp: &Spec, prefix: &str, digits: &str) -> String {
    let mut width = digits.chars().count();
    let mut head = String::new();
    if sp.plus {
        head.push('+');
        width += 1;
    }
    if sp.alt {
        head.push_str(prefix);
        width += prefix.chars().count();
    }
    match sp.width {
        Some(min) if width < min => {
            let pad = min - width;
            if sp.zero {
                format!("{head}{}{digits}", "0".repeat(pad))
            } else {
                let (l, r) = match sp.align {
                    Some(Al::Left) => (0, pad),
                    Some(Al::Center) => (pad / 2, pad.div_ceil(2)),
                    _ => (pad, 0),
                };
                let f = sp.fill.to_string();
                format!("{}{head}{digits}{}", f.repeat(l), f.repeat(r))
            }
        }
        _ => format!("{head}{digits}"),
    }
}


// ---------------------------------------------------------------------------
// Natural: construction, clone, hash, bit_width
// ---------------------------------------------------------------------------

fn nat_construct(ctx: &mut Ctx) {
    let b = operand_set();
    ctx.group("from_le_digits with leading/trailing zero digits", |ctx| {
        for o in &b {
            for low_zeros in 0..3usize {
                for high_zeros in 0..3usize {
                    let mut d = vec![0u64; low_zeros];
                    d.extend(o.v.to_u64_digits());
                    d.extend(vec![0u64; high_zeros]);
                    let exp = Val::of_big(&o.v.shl(64 * low_zeros as u64));
                    count_case(ctx, &[o]);
                    let extra = json!({"digits_le": format!("{d:x?}")});
                    if let Some(x) = ctx.guarded(&nat_attrs("from_le_digits", "panic"), || json!({"op": "from_le_digits", "digits_le": format!("{d:x?}")}), || Natural::from_le_digits(&d)) {
                        judge_nat(ctx, "from_le_digits", &[o], extra, &x, Some(&exp));
                    }
                }
            }
        }
        for d in [vec![], vec![0u64], vec![0, 0]] {
            let x = Natural::from_le_digits(&d);
            judge_nat(ctx, "from_le_digits", &[], json!({"digits_le": format!("{d:?}")}), &x, Some(&Val::of_big(&Big::zero())));
        }
        ctx.sample(|| json!({"op": "from_le_digits", "digits_le": "[0, 0xffffffffffffffff, 1]"}));
    });
    ctx.group("From<u8/u16/u32/u64/u128>", |ctx| {
        let mut vals: Vec<u128> = b.iter().filter_map(|o| o.v.to_u128()).collect();
        for k in 0..128u32 {
            vals.push(1u128 << k);
            vals.push((1u128 << k) | 1);
            vals.push(u128::MAX >> k);
            vals.push((u128::MAX >> k) << (k / 2));
            vals.push(3u128 << k.min(126));
        }
        vals.extend([0xff, 0xfe, 0x80, 0xffff, 0x8000, 0xffff_ffff, 0x8000_0000, 0xffff_fffe]);
        vals.sort();
        vals.dedup();
        for &v in &vals {
            let o = Op { name: format!("{v:#x}"), v: Big::from_u128(v) };
            let exp = Val::of_big(&o.v);
            macro_rules! from_t {
                ($t:ty, $name:literal) => {
                    #[allow(irrefutable_let_patterns)]
                    if let Ok(x) = <$t>::try_from(v) {
                        count_case(ctx, &[&o]);
                        if let Some(r) = ctx.guarded(&nat_attrs($name, "panic"), || json!({"op": $name, "value": format!("{v:#x}")}), || Natural::from(x)) {
                            judge_nat(ctx, $name, &[&o], Value::Null, &r, Some(&exp));
                            // the converted value must also behave like the number in what follows
                            let case = || json!({"op": concat!($name, " then use"), "value": format!("{v:#x}")});
                            let e64 = u64::try_from(v).ok();
                            if let Some(g) = ctx.guarded(&nat_attrs("try_into_u64", "panic"), case, || u64::try_from(&r).ok()) {
                                if g != e64 {
                                    ctx.viol(nat_attrs("try_into_u64", "wrong_value_after_from"), case(), &format!("u64::try_from(&Natural::from({v:#x} as {})) = {g:x?}, expected {e64:x?}", stringify!($t)));
                                }
                            }
                            if let Some(g) = ctx.guarded(&nat_attrs("try_into_u128", "panic"), case, || u128::try_from(&r).ok()) {
                                if g != Some(v) {
                                    ctx.viol(nat_attrs("try_into_u128", "wrong_value_after_from"), case(), &format!("u128::try_from(&Natural::from({v:#x} as {})) = {g:x?}", stringify!($t)));
                                }
                            }
                            for addend in [1u64, 2, 1 << 20, u64::MAX] {
                                let ao = Op { name: format!("{addend:#x}"), v: Big::from_u64(addend) };
                                let Some(r2) = ctx.guarded(&nat_attrs($name, "panic"), case, || Natural::from(x)) else { continue };
                                if let Some(sum) = add_guard(ctx, "add", &[&o, &ao], r2, Natural::from(addend)) {
                                    judge_nat(ctx, "add", &[&o, &ao], json!({"left_operand_made_by": $name}), &sum, Some(&Val::of_big(&o.v.add(&ao.v))));
                                }
                            }
                        }
                    }
                };
            }
            from_t!(u8, "from_u8");
            from_t!(u16, "from_u16");
            from_t!(u32, "from_u32");
            from_t!(u64, "from_u64");
            from_t!(u128, "from_u128");
        }
    });
    ctx.group("clone, clone_from, hash, bit_width, ZERO", |ctx| {
        judge_nat(ctx, "ZERO", &[], Value::Null, &Natural::ZERO, Some(&Val::of_big(&Big::zero())));
        for a in &b {
            let Some(x) = mk(ctx, a) else { continue };
            count_case(ctx, &[a]);
            if let Some(c) = ctx.guarded(&nat_attrs("clone", "panic"), || json!({"op": "clone", "operand": a.name}), || x.clone()) {
                judge_nat(ctx, "clone", &[a], Value::Null, &c, Some(&Val::of_big(&a.v)));
                if hash_of(&c) != hash_of(&x) {
                    ctx.viol(nat_attrs("hash", "wrong_value"), json!({"op": "hash", "operand": a.name}), &format!("Natural: hash of a clone of {} differs from the hash of the original", a.name));
                }
            }
            if !a.v.is_zero() {
                let bw = x.bit_width();
                if bw != a.v.bit_len() as u128 {
                    ctx.viol(nat_attrs("bit_width", "wrong_value"), json!({"op": "bit_width", "operand": a.name, "expected": a.v.bit_len(), "got": bw.to_string()}), &format!("Natural::bit_width({}) = {bw}, expected {} (1 + floor(log2))", a.name, a.v.bit_len()));
                }
            }
        }
    });
    ctx.group("clone_from, all (target, source) pairs", |ctx| {
        for a in &b {
            let Some(x) = mk(ctx, a) else { continue };
            for t in &b {
                // target.clone_from(source): target = t, source = a
                let Some(mut y) = mk(ctx, t) else { continue };
                count_case(ctx, &[t, a]);
                // a wrong clone_from is memory-unsafe and may abort the process: leave a trace for the crash report
                eprintln!("C12 next case: target.clone_from(&source) with target = {} (0x{}), source = {} (0x{})", t.name, t.v.to_pow2(4, false), a.name, a.v.to_pow2(4, false));
                let ok = ctx.guarded(&nat_attrs("clone_from", "panic"), || json!({"op": "clone_from", "target": t.name, "source": a.name}), || y.clone_from(&x));
                if ok.is_some() {
                    judge_nat(ctx, "clone_from", &[t, a], Value::Null, &y, Some(&Val::of_big(&a.v)));
                } else {
                    std::mem::forget(y);
                }
            }
        }
    });
}

// ---------------------------------------------------------------------------
// Natural: +, ==, partial_cmp
// ---------------------------------------------------------------------------

fn add_guard(ctx: &mut Ctx, op: &str, ops: &[&Op], x: Natural, y: Natural) -> Option<Natural> {
    ctx.guarded(&nat_attrs(op, "panic"), || json!({"op": op, "operands": names(ops), "operands_hex": hexes(ops)}), move || x + y)
}

fn nat_add(ctx: &mut Ctx) {
    let b = operand_set();
    for (ci, chunk) in b.chunks(16).enumerate() {
        ctx.group(&format!("a + b, all ordered pairs, chunk {ci}"), |ctx| {
            for a in chunk {
                for c in &b {
                    let (Some(x), Some(y)) = (mk(ctx, a), mk(ctx, c)) else { continue };
                    count_case(ctx, &[a, c]);
                    let exp_big = a.v.add(&c.v);
                    let exp = Val::of_big(&exp_big);
                    let Some(s) = add_guard(ctx, "add", &[a, c], x, y) else { continue };
                    judge_nat(ctx, "add", &[a, c], Value::Null, &s, Some(&exp));
                    // the sum compares/hashes equal to the same value built from digits
                    if read_nat(&s) == Ok(Some(exp.clone())) {
                        let e = nat_of(&exp_big);
                        let Some((eq, pc, heq)) = ctx.guarded(&nat_attrs("cmp", "panic"), || json!({"op": "(a+b) ==/partial_cmp from_le_digits(sum)", "operands": names(&[a, c])}), || (s == e, s.partial_cmp(&e), hash_of(&s) == hash_of(&e))) else { continue };
                        if !eq || pc != Some(Ordering::Equal) || !heq {
                            ctx.viol(
                                nat_attrs("eq_hash_of_sum", "wrong_value"),
                                json!({"op": "eq/partial_cmp/hash", "operands": names(&[a, c]), "note": "sum vs. from_le_digits(same value)"}),
                                &format!("Natural: {} + {} has the right value but ==/partial_cmp/hash against from_le_digits of the same value disagree (== {eq}, cmp {pc:?}, hash equal {heq})", a.name, c.name),
                            );
                        }
                        // a sum is an operand again (its digit array may carry a zero top digit)
                        if let Some(s2) = add_guard(ctx, "add", &[a, c, a], s, nat_of(&a.v)) {
                            judge_nat(ctx, "add", &[a, c, a], json!("(a+b)+a"), &s2, Some(&Val::of_big(&exp_big.add(&a.v))));
                        }
                    }
                }
            }
            ctx.sample(|| json!({"op": "add", "operands": ["2^64-1", "[1,MAX,MAX]"]}));
        });
    }
    ctx.group("NaN + x (recorded as outcome only)", |ctx| {
        for a in &b {
            if a.v.is_zero() {
                continue;
            }
            let (Some(x), Some(y)) = (mk(ctx, a), mk(ctx, &b[5])) else { continue };
            let nan = Natural::from(1u32) >> 1u32;
            let nan2 = Natural::from(1u32) << u64::MAX;
            for (nm, n) in [("nan_by_shr", nan), ("nan_by_shl", nan2)] {
                if !n.is_nan() {
                    continue;
                }
                let r1 = ctx.guarded(&nat_attrs("add_nan", "panic"), || json!({"op": "NaN + x", "x": a.name, "nan": nm}), || n.clone() + x.clone());
                let r2 = ctx.guarded(&nat_attrs("add_nan", "panic"), || json!({"op": "x + NaN", "x": a.name, "nan": nm}), || x.clone() + n.clone());
                let r3 = ctx.guarded(&nat_attrs("add_nan", "panic"), || json!({"op": "(NaN + NaN) + x", "x": a.name, "nan": nm}), || (n.clone() + n.clone()) + y.clone());
                for r in [r1, r2, r3].into_iter().flatten() {
                    ctx.outcome(if r.is_nan() { "nan_plus_x_is_nan" } else { "nan_plus_x_loses_nan" });
                }
            }
        }
    });
}

fn nat_add3(ctx: &mut Ctx, part: usize) {
    let b = operand_set();
    for (ai, a) in b.iter().enumerate() {
        if ai % NAT_ADD3_PARTS != part {
            continue;
        }
        ctx.group(&format!("(a+b)+c and a+(b+c), a = {}", a.name), |ctx| {
            for c in &b {
                for d in &b {
                    let (Some(x), Some(y), Some(z)) = (mk(ctx, a), mk(ctx, c), mk(ctx, d)) else { continue };
                    count_case(ctx, &[a, c, d]);
                    let exp = Val::of_big(&a.v.add(&c.v).add(&d.v));
                    let (x2, y2, z2) = (x.clone(), y.clone(), z.clone());
                    if let Some(r) = ctx.guarded(&nat_attrs("add3", "panic"), || json!({"op": "(a+b)+c", "operands": names(&[a, c, d]), "operands_hex": hexes(&[a, c, d])}), move || (x + y) + z) {
                        judge_nat(ctx, "add3", &[a, c, d], json!("(a+b)+c"), &r, Some(&exp));
                    }
                    if let Some(r) = ctx.guarded(&nat_attrs("add3", "panic"), || json!({"op": "a+(b+c)", "operands": names(&[a, c, d]), "operands_hex": hexes(&[a, c, d])}), move || x2 + (y2 + z2)) {
                        judge_nat(ctx, "add3", &[a, c, d], json!("a+(b+c)"), &r, Some(&exp));
                    }
                }
            }
        });
    }
}

fn nat_cmp(ctx: &mut Ctx) {
    let b = operand_set();
    ctx.group("==, partial_cmp, <, all ordered pairs", |ctx| {
        for a in &b {
            for c in &b {
                let (Some(x), Some(y)) = (mk(ctx, a), mk(ctx, c)) else { continue };
                count_case(ctx, &[a, c]);
                let exp = a.v.cmp(&c.v);
                let case = || json!({"op": "eq/partial_cmp", "operands": names(&[a, c]), "operands_hex": hexes(&[a, c]), "expected": format!("{exp:?}")});
                let Some((eq, pc, lt, ge)) = ctx.guarded(&nat_attrs("cmp", "panic"), case, || (x == y, x.partial_cmp(&y), x < y, x >= y)) else { continue };
                if eq != (exp == Ordering::Equal) {
                    ctx.viol(nat_attrs("eq", "wrong_value"), case(), &format!("Natural: ({} == {}) = {eq}", a.name, c.name));
                }
                if pc != Some(exp) || lt != (exp == Ordering::Less) || ge != (exp != Ordering::Less) {
                    ctx.viol(nat_attrs("partial_cmp", "wrong_value"), case(), &format!("Natural: partial_cmp({}, {}) = {pc:?} (<: {lt}, >=: {ge}), expected {exp:?}", a.name, c.name));
                }
                ctx.outcome(match exp {
                    Ordering::Less => "cmp_less",
                    Ordering::Equal => "cmp_equal",
                    Ordering::Greater => "cmp_greater",
                });
            }
        }
    });
    ctx.group("comparisons with sums as operands", |ctx| {
        for a in &b {
            for c in &b {
                let (Some(x), Some(y)) = (mk(ctx, a), mk(ctx, c)) else { continue };
                let sum_big = a.v.add(&c.v);
                let Some(s) = add_guard(ctx, "add", &[a, c], x, y) else { continue };
                if read_nat(&s) != Ok(Some(Val::of_big(&sum_big))) {
                    continue; // reported by nat:add
                }
                for d in &b {
                    let Some(z) = mk(ctx, d) else { continue };
                    ctx.count("evaluations", 1);
                    ctx.count("nontrivial", 1);
                    let exp = sum_big.cmp(&d.v);
                    let case = || json!({"op": "partial_cmp(a+b, c)", "operands": names(&[a, c, d]), "operands_hex": hexes(&[a, c, d]), "expected": format!("{exp:?}")});
                    let Some((eq, pc, pc2)) = ctx.guarded(&nat_attrs("cmp", "panic"), case, || (s == z, s.partial_cmp(&z), z.partial_cmp(&s))) else { continue };
                    if eq != (exp == Ordering::Equal) || pc != Some(exp) || pc2 != Some(exp.reverse()) {
                        ctx.viol(nat_attrs("partial_cmp", "wrong_value"), case(), &format!("Natural: ({} + {}) vs {}: == {eq}, partial_cmp {pc:?}, reversed {pc2:?}; expected {exp:?}", a.name, c.name, d.name));
                    }
                }
            }
        }
    });
}

// ---------------------------------------------------------------------------
// Natural: shifts
// ---------------------------------------------------------------------------

fn nat_shift(ctx: &mut Ctx) {
    let b = operand_set();
    let big_amounts: [u64; 6] = [1 << 32, 1 << 63, u64::MAX - 1000, u64::MAX - 100, u64::MAX - 1, u64::MAX];
    ctx.group("<< and >> with u32 and u64 amounts", |ctx| {
        for a in &b {
            let va = Val::of_big(&a.v);
            for &s in &SHIFTS32 {
                let Some(x) = mk(ctx, a) else { continue };
                let extra = json!({"shift": s});
                let c = |op: &str| json!({"op": op, "operand": a.name, "operand_hex": hexes(&[a]), "shift": s});
                count_case(ctx, &[a]);
                let exp_l = va.shl(s as u64);
                if let Some(r) = ctx.guarded(&nat_attrs("shl_u32", "panic"), || c("shl_u32"), || x.clone() << s) {
                    judge_nat(ctx, "shl_u32", &[a], extra.clone(), &r, Some(&exp_l));
                }
                if let Some(r) = ctx.guarded(&nat_attrs("shl_u64", "panic"), || c("shl_u64"), || x.clone() << s as u64) {
                    judge_nat(ctx, "shl_u64", &[a], extra.clone(), &r, Some(&exp_l));
                }
                count_case(ctx, &[a]);
                let exp_r = va.shr_exact(s as u64);
                if let Some(r) = ctx.guarded(&nat_attrs("shr_u32", "panic"), || c("shr_u32"), || x.clone() >> s) {
                    judge_nat(ctx, "shr_u32", &[a], extra.clone(), &r, exp_r.as_ref());
                }
                if let Some(r) = ctx.guarded(&nat_attrs("shr_u64", "panic"), || c("shr_u64"), || x.clone() >> s as u64) {
                    judge_nat(ctx, "shr_u64", &[a], extra.clone(), &r, exp_r.as_ref());
                }
                // shift up, then down by every amount
                for &s2 in &SHIFTS32 {
                    ctx.count("evaluations", 1);
                    let exp = exp_l.shr_exact(s2 as u64);
                    if let Some(r) = ctx.guarded(&nat_attrs("shl_shr", "panic"), || json!({"op": "(x << s) >> s2", "operand": a.name, "s": s, "s2": s2}), || (x.clone() << s) >> s2) {
                        judge_nat(ctx, "shl_shr", &[a], json!({"shl": s, "shr": s2}), &r, exp.as_ref());
                    }
                }
            }
        }
        ctx.sample(|| json!({"op": "shr_u32", "operand": "(2^64+1)*2^31", "shift": 63, "expected": "NaN"}));
    });
    ctx.group("huge shift amounts: exponent overflow gives NaN, otherwise exact", |ctx| {
        for a in &b {
            let va = Val::of_big(&a.v);
            for &s in &big_amounts {
                let Some(x) = mk(ctx, a) else { continue };
                count_case(ctx, &[a]);
                let e = va.shl(s);
                let exp = if e.exp_overflow() { None } else { Some(e.clone()) };
                let Some(r) = ctx.guarded(&nat_attrs("shl_u64", "panic"), || json!({"op": "shl_u64", "operand": a.name, "shift": s}), || x.clone() << s) else { continue };
                judge_nat(ctx, "shl_u64_huge", &[a], json!({"shift": s}), &r, exp.as_ref());
                if exp.is_some() && !r.is_nan() {
                    // and back down, in one and in two steps
                    if let Some(r2) = ctx.guarded(&nat_attrs("shr_u64", "panic"), || json!({"op": "(x << s) >> s", "operand": a.name, "shift": s}), || r.clone() >> s) {
                        judge_nat(ctx, "shl_shr_huge", &[a], json!({"shift": s}), &r2, Some(&va));
                    }
                    let more = e.e as u64 + 1;
                    if !a.v.is_zero() {
                        if let Some(r3) = ctx.guarded(&nat_attrs("shr_u64", "panic"), || json!({"op": "(x << s) >> (exp+1)", "operand": a.name, "shift": s}), || r.clone() >> more) {
                            judge_nat(ctx, "shr_u64_huge", &[a], json!({"shl": s, "shr": more}), &r3, None);
                        }
                    }
                    // conversions of astronomically large values
                    if !a.v.is_zero() {
                        let f = f64::from(&r);
                        if f != f64::INFINITY {
                            ctx.viol(nat_attrs("to_f64", "wrong_value"), json!({"op": "f64::from", "operand": a.name, "shl": s, "got": format!("{f:e}")}), &format!("f64::from(&({} << {s})) = {f:e}, expected +inf", a.name));
                        }
                        if u64::try_from(&r).is_ok() || u128::try_from(&r).is_ok() {
                            ctx.viol(nat_attrs("try_into_int", "wrong_value"), json!({"op": "u64/u128::try_from", "operand": a.name, "shl": s}), &format!("u64/u128::try_from(&({} << {s})) is Ok", a.name));
                        }
                        let bw = r.bit_width();
                        if bw != a.v.bit_len() as u128 + s as u128 {
                            ctx.viol(nat_attrs("bit_width", "wrong_value"), json!({"op": "bit_width", "operand": a.name, "shl": s, "got": bw.to_string()}), &format!("bit_width({} << {s}) = {bw}", a.name));
                        }
                    }
                }
                if r.is_nan() {
                    // recorded only: is NaN sticky under shifts?
                    let r4 = (r.clone() >> 5u32) << 3u32;
                    ctx.outcome(if r4.is_nan() { "nan_sticky_under_shift" } else { "nan_lost_under_shift" });
                    // whatever it is, it must respect the documented representation
                    for (what, x) in [("(NaN >> 5) << 3", r4), ("NaN >> 1", r.clone() >> 1u32), ("NaN >> 64", r.clone() >> 64u64)] {
                        if let Err(e) = read_nat(&x) {
                            ctx.viol(nat_attrs("shift_of_nan", "malformed"), json!({"op": what, "operand": a.name, "shl": s}), &format!("Natural {what} (NaN obtained from {} << {s}): {e}", a.name));
                        }
                    }
                }
            }
        }
    });
}

// ---------------------------------------------------------------------------
// Natural: conversions to u64 / u128 / f64
// ---------------------------------------------------------------------------

/// values around every rounding decision of the f64 conversion
fn f64_family() -> Vec<Op> {
    let mut out: Vec<Op> = vec![];
    let heads: [u64; 6] = [1 << 52, (1 << 52) + 1, (1 << 53) - 2, (1 << 53) - 1, (1 << 52) + (1 << 51), 0x15_5555_5555_5555];
    for h in heads {
        for tl in [0u64, 1, 2, 3, 10, 11, 12, 63, 64, 65, 75, 139] {
            let mut tails = vec![Big::zero()];
            if tl > 0 {
                let half = Big::pow2(tl - 1);
                tails.push(Big::from_u64(1));
                tails.push(half.clone());
                tails.push(Big::ones(tl));
                if tl > 1 {
                    tails.push(Big::ones(tl - 1)); // half - 1
                    tails.push(half.add(&Big::from_u64(1)));
                    tails.push(Big::pow2(tl - 2));
                }
            }
            for t in tails {
                let v = Big::from_u64(h).shl(tl).add(&t);
                if !out.iter().any(|o| o.v == v) {
                    out.push(Op { name: format!("{h:#x}*2^{tl}+0x{}", t.to_pow2(4, false)), v });
                }
            }
        }
    }
    out
}

fn nat_conv(ctx: &mut Ctx) {
    let mut ops = operand_set();
    for o in f64_family() {
        if !ops.iter().any(|p| p.v == o.v) {
            ops.push(o);
        }
    }
    for v in [0u64, 5, 255, (1 << 53) - 1, 1 << 53, (1 << 53) + 1, (1 << 53) + 2, (1 << 53) + 3, (1 << 54) - 1, (1 << 54) + 1, (1 << 54) + 2, (1 << 54) + 3, (1 << 55) - 1, (1 << 55) + 4, (1 << 55) + 12, u64::MAX - 1024, u64::MAX - 1023, u64::MAX - 2047] {
        let bv = Big::from_u64(v);
        if !ops.iter().any(|p| p.v == bv) {
            ops.push(Op { name: format!("{v:#x}"), v: bv });
        }
    }
    ctx.group("TryFrom<&Natural> for u64 and u128", |ctx| {
        for a in &ops {
            for s in [0u64, 1, 2, 31, 32, 62, 63, 64, 65, 126, 127, 128] {
                let o = Op { name: format!("({})*2^{s}", a.name), v: a.v.shl(s) };
                let Some(x) = mk(ctx, &o) else { continue };
                count_case(ctx, &[&o]);
                let e128 = o.v.to_u128();
                let e64 = e128.and_then(|v| u64::try_from(v).ok());
                let case = || json!({"op": "try_from", "operand": o.name, "operand_hex": hexes(&[&o]), "mantissa": format!("{:x?}", x.mantissa()), "exp": x.exp()});
                if let Some(g) = ctx.guarded(&nat_attrs("try_into_u64", "panic"), case, || u64::try_from(&x).ok()) {
                    if g != e64 {
                        ctx.viol(nat_attrs("try_into_u64", "wrong_value"), case(), &format!("u64::try_from(&Natural {}) = {g:x?}, expected {e64:x?}", o.name));
                    }
                    ctx.outcome(if e64.is_some() { "u64_ok" } else { "u64_not_representable" });
                }
                if let Some(g) = ctx.guarded(&nat_attrs("try_into_u128", "panic"), case, || u128::try_from(&x).ok()) {
                    if g != e128 {
                        ctx.viol(nat_attrs("try_into_u128", "wrong_value"), case(), &format!("u128::try_from(&Natural {}) = {g:x?}, expected {e128:x?}", o.name));
                    }
                    ctx.outcome(if e128.is_some() { "u128_ok" } else { "u128_not_representable" });
                }
            }
        }
        // NaN is not representable
        let nan = Natural::from(3u32) >> 1u32;
        if nan.is_nan() && (u64::try_from(&nan).is_ok() || u128::try_from(&nan).is_ok()) {
            ctx.viol(nat_attrs("try_into_int", "nan_ok"), json!({"op": "try_from(NaN)"}), "u64/u128::try_from(&NaN) is Ok");
        }
    });
    ctx.group("f64::from(&Natural): round to nearest, ties to even, overflow to +inf", |ctx| {
        for a in &ops {
            for s in [0u64, 1, 11, 63, 64, 65, 200, 900, 959, 960, 969, 970, 971, 972, 1000, 1023, 1024] {
                let o = Op { name: format!("({})*2^{s}", a.name), v: a.v.shl(s) };
                let Some(x) = mk(ctx, &o) else { continue };
                count_case(ctx, &[&o]);
                let e = o.v.to_f64();
                let case = || json!({"op": "f64::from", "operand": o.name, "operand_hex": hexes(&[&o]), "expected_bits": format!("{:#x}", e.to_bits())});
                if let Some(g) = ctx.guarded(&nat_attrs("to_f64", "panic"), case, || f64::from(&x)) {
                    if g.to_bits() != e.to_bits() {
                        let class = if a.v.bit_len() - a.v.trailing_zeros() <= 53 { "wrong_value_exact_case" } else { "wrong_rounding" };
                        ctx.viol(nat_attrs("to_f64", class), case(), &format!("f64::from(&Natural {}) = {g:e} (bits {:#x}), correctly rounded value is {e:e} (bits {:#x})", o.name, g.to_bits(), e.to_bits()));
                    }
                    ctx.outcome(if e.is_infinite() { "f64_inf" } else if a.v.bit_len() - a.v.trailing_zeros() <= 53 { "f64_exact" } else { "f64_rounded" });
                }
            }
        }
        ctx.sample(|| json!({"op": "f64::from", "operand": "2^53+1", "expected": "2^53 (tie to even)"}));
    });
}

// ---------------------------------------------------------------------------
// Natural: textual output
// ---------------------------------------------------------------------------

fn fmt_operands() -> Vec<Op> {
    let mut ops = operand_set();
    let small = [("1", Big::from_u64(1)), ("5", Big::from_u64(5)), ("0xdeadbeef", Big::from_u64(0xdead_beef)), ("(2^63+1)", Big::pow2(63).add(&Big::from_u64(1))), ("(2^64-1)", Big::ones(64)), ("(2^64+1)", Big::pow2(64).add(&Big::from_u64(1))), ("(2^66-1)", Big::ones(66)), ("[0x0123456789abcdef,0xfedcba9876543211]", Big::from_u64_digits(&[0x0123_4567_89ab_cdef, 0xfedc_ba98_7654_3211]))];
    for (n, v) in small {
        for s in 0..=13u64 {
            let b = v.shl(s);
            if !ops.iter().any(|p| p.v == b) {
                ops.push(Op { name: format!("{n}*2^{s}"), v: b });
            }
        }
    }
    ops
}

fn nat_fmt(ctx: &mut Ctx, letter: &str) {
    let ops = fmt_operands();
    let (opname, prefix): (&'static str, &'static str) = match letter {
        "d" => ("fmt_display", ""),
        "b" => ("fmt_binary", "0b"),
        "o" => ("fmt_octal", "0o"),
        "x" => ("fmt_lower_hex", "0x"),
        "X" => ("fmt_upper_hex", "0x"),
        _ => panic!("bad shard"),
    };
    for (ci, chunk) in ops.chunks(64).enumerate() {
        ctx.group(&format!("{opname}: 24 flag templates x widths, operand chunk {ci}"), |ctx| {
            for a in chunk {
                let Some(x) = mk(ctx, a) else { continue };
                let digits = match letter {
                    "d" => a.v.to_dec(),
                    "b" => a.v.to_pow2(1, false),
                    "o" => a.v.to_pow2(3, false),
                    "x" => a.v.to_pow2(4, false),
                    _ => a.v.to_pow2(4, true),
                };
                let d = digits.len();
                let mut widths = vec![1, d.saturating_sub(1).max(1), d, d + 1, d + 2, d + 3, d + 4, d + 5, d + 8, 2 * d + 3];
                widths.sort();
                widths.dedup();
                for (wi, &w) in widths.iter().enumerate() {
                    let mut outs: Vec<(String, &'static str)> = vec![];
                    let base = attrs(&[("type", "natural"), ("op", opname)]);
                    let done = ctx.guarded(&base, || json!({"op": opname, "operand": a.name, "operand_hex": hexes(&[a]), "width": w}), || {
                        match letter {
                            "d" => fmt_templates!("", &x, w, outs),
                            "b" => fmt_templates!("b", &x, w, outs),
                            "o" => fmt_templates!("o", &x, w, outs),
                            "x" => fmt_templates!("x", &x, w, outs),
                            _ => fmt_templates!("X", &x, w, outs),
                        }
                    });
                    if done.is_none() {
                        continue;
                    }
                    for (got, spec) in &outs {
                        let sp = parse_spec(spec, w);
                        if sp.width.is_none() && wi != 0 {
                            continue; // width-free templates once per operand
                        }
                        if letter == "d" && sp.alt {
                            continue; // `#` has no documented meaning for Display
                        }
                        count_case(ctx, &[a]);
                        let exp = pad_model(&sp, prefix, &digits);
                        if *got != exp {
                            let mut at = base.clone();
                            at.insert("class".into(), "wrong_output".into());
                            at.insert("flags".into(), format!("{}{}{}{}", if sp.plus { "+" } else { "" }, if sp.alt { "#" } else { "" }, if sp.zero { "0" } else { "" }, if sp.width.is_some() { "w" } else { "" }));
                            at.insert("zero_operand".into(), if a.v.is_zero() { "1" } else { "0" }.into());
                            ctx.viol(
                                at,
                                json!({"op": opname, "operand": a.name, "operand_hex": hexes(&[a]), "template": spec, "width": w, "expected": exp, "got": got}),
                                &format!("Natural {} formatted with {spec} (w = {w}) gives {got:?}, std integer semantics give {exp:?}", a.name),
                            );
                        }
                        ctx.outcome(if sp.width.is_some_and(|w| w > exp.len()) { "fmt_width_exceeded" } else if sp.width.is_some() { "fmt_padded_or_exact" } else { "fmt_no_width" });
                    }
                }
            }
            ctx.sample(|| json!({"op": opname, "operand": "(2^64+1)*2^1", "template": "{:#0w$x}", "width": 24}));
        });
    }
    ctx.group(&format!("{opname}: NaN is formatted without panic (output not specified)"), |ctx| {
        let nan = Natural::from(3u32) >> 1u32;
        let mut outs: Vec<(String, &'static str)> = vec![];
        let base = attrs(&[("type", "natural"), ("op", opname), ("operand", "nan")]);
        ctx.guarded(&base, || json!({"op": opname, "operand": "NaN"}), || {
            match letter {
                "d" => fmt_templates!("", &nan, 7, outs),
                "b" => fmt_templates!("b", &nan, 7, outs),
                "o" => fmt_templates!("o", &nan, 7, outs),
                "x" => fmt_templates!("x", &nan, 7, outs),
                _ => fmt_templates!("X", &nan, 7, outs),
            }
        });
        ctx.count("evaluations", outs.len() as u64);
    });
}


// ---------------------------------------------------------------------------
// cache-reuse histories, enumerated: every sequence of length <= d over
// {query(f, vars) for 2 functions x 2 variable counts, gc, rebuild (drop + gc + a
// different function in the recycled slots), toggle cache_all} on ONE cache per
// number type. Catches invalidation bugs that need two things to change between
// two queries (e.g. gc AND a different vars) followed by a query without either.
// ---------------------------------------------------------------------------

fn hist_count<K: BoolKind, N: NumT>(ctx: &mut Ctx, env: &Env, f: &K::F, t: Tab, vars: u32, cache: &mut Cache<N>, acts: &[usize], step: usize) {
    ctx.count("evaluations", 1);
    ctx.count("transitions", 1);
    let exact = exact_count(t, env.n, vars);
    // every other query goes through the edge-level entry point
    let got = if step % 2 == 1 { f.with_manager_shared(|m, e| K::F::sat_count_edge(m, e, vars, cache)) } else { f.sat_count(vars, cache) };
    if let Err(why) = got.judge(&exact, vars) {
        let names: Vec<&str> = acts.iter().map(|&a| CH_NAMES[a]).collect();
        ctx.viol(
            attrs(&[("kind", env.kind), ("op", "sat_count"), ("num", N::NAME), ("history", "enumerated_cache_history"), ("class", "wrong_value")]),
            json!({"kind": env.kind, "n": env.n, "order": env.order, "num": N::NAME, "actions": acts, "action_names": names, "failed_at_step": step,
                   "table": format!("{t:#x}"), "vars": vars, "expected": exact.to_dec(), "got": got.show(),
                   "legend": "functions f0 = 0xe8 (majority), f1 = 0x96 (parity) resp. after rebuild f1 = 0xca; one SatCountCache shared by all queries of a history"}),
            &format!("{} order {} cache history {names:?}: step {step}: sat_count::<{}>({t:#x}, vars={vars}) = {}, exact count is {}: {why}", env.kind, env.order, N::NAME, got.show(), exact.to_dec()),
        );
    }
}

const CH_NAMES: [&str; 9] = ["q(f0,v1)", "q(f0,v2)", "q(f1,v1)", "q(f1,v2)", "gc", "rebuild f1", "toggle cache_all", "reorder(rotate) + new helper functions", "pick_cube_uniform(f0 | f1) through the F64 cache"];

fn run_cache_hist<K: BoolKind>(ctx: &mut Ctx, order: &[u32]) {
    let n = 3u32;
    let zbdd = K::BK == BKind::Zbdd;
    let order = order.to_vec();
    let depth = if ctx.thorough() { 6 } else { 5 };
    let env = Env { kind: K::NAME, n, order: model::order_str(&order), mgr_vars: n, layout: "plain" };
    // ZBDD: vars must be the number of manager variables, so only one variable count
    let (v1, v2) = if zbdd { (3, 3) } else { (3, 4) };
    let na = 9usize;
    for first in 0..na {
        ctx.group(&format!("cache histories first action {first}"), |ctx| {
            let total = na.pow(depth as u32 - 1);
            for code in 0..total {
                let mut acts = vec![first];
                let mut c = code;
                for _ in 1..depth {
                    acts.push(c % na);
                    c /= na;
                }
                if zbdd && acts.iter().any(|&a| a == 1 || a == 3) {
                    continue;
                }
                ctx.count("executions", 1);
                let mref = crate::dd::fresh::<K>(n, &order, 256, 64, 1);
                // keep extra handles alive so that inner nodes have ref_count > 1 (cached without cache_all)
                let mut tabs = [0xe8u64, 0x96];
                let mut f: Vec<K::F> = tabs.iter().map(|&t| K::build(&mref, t).unwrap()).collect();
                let mut keep: Vec<K::F> = vec![K::build(&mref, 0x66).unwrap(), K::build(&mref, 0x88).unwrap(), K::build(&mref, 0xee).unwrap()];
                let mut c64: Cache<Saturating<u64>> = Cache::default();
                let mut cnat: Cache<Natural> = Cache::default();
                let mut cf: Cache<F64> = Cache::default();
                let mut cur_order = order.clone();
                let mut reorders = 0usize;
                for (i, &a) in acts.iter().enumerate() {
                    match a {
                        7 => {
                            // level swaps free nodes and create others (often as many: the node count is
                            // unchanged); the helper functions built afterwards recycle the freed slots
                            cur_order.rotate_left(1);
                            K::set_order(&mref, &cur_order);
                            let helpers: [u64; 2] = [[0x3c, 0xa0], [0x5a, 0xc0], [0x12, 0x7e]][reorders % 3];
                            reorders += 1;
                            keep.push(K::build(&mref, helpers[0]).unwrap());
                            keep.push(K::build(&mref, helpers[1]).unwrap());
                        }
                        0..=3 => {
                            let fi = a / 2;
                            let vars = if a % 2 == 0 { v1 } else { v2 };
                            hist_count::<K, _>(ctx, &env, &f[fi], tabs[fi], vars, &mut c64, &acts, i);
                            hist_count::<K, _>(ctx, &env, &f[fi], tabs[fi], vars, &mut cnat, &acts, i);
                            hist_count::<K, _>(ctx, &env, &f[fi], tabs[fi], vars, &mut cf, &acts, i);
                        }
                        4 => {
                            gc_of::<K>(&mref);
                        }
                        8 => {
                            // uniform sampling uses the same cache type as the F64 queries (and counts over the
                            // manager's variables); the cube must imply the function
                            let g = f[0].or(&f[1]).unwrap();
                            let gt = tabs[0] | tabs[1];
                            let mut rng = oxidd::util::Rng::new_seed(i as u64 + 1);
                            ctx.count("evaluations", 1);
                            let cube = g.pick_cube_uniform(&mut cf, &mut rng);
                            let ok = match &cube {
                                None => gt == 0,
                                Some(c) => (0..8u32).all(|a| {
                                    let matches = c.iter().enumerate().all(|(v, o)| match *o as i8 { 0 => (a >> v) & 1 == 0, 1 => (a >> v) & 1 == 1, _ => true });
                                    !matches || if zbdd { true } else { (gt >> a) & 1 == 1 }
                                }),
                            };
                            if !ok {
                                let names: Vec<&str> = acts.iter().map(|&a| CH_NAMES[a]).collect();
                                ctx.viol(
                                    attrs(&[("kind", env.kind), ("op", "pick_cube_uniform"), ("history", "enumerated_cache_history"), ("class", "not_an_implicant")]),
                                    json!({"kind": env.kind, "order": env.order, "actions": acts, "action_names": names, "failed_at_step": i, "table": format!("{gt:#x}"), "cube": format!("{cube:?}")}),
                                    &format!("{} order {} cache history {names:?}: step {i}: pick_cube_uniform({gt:#x}) = {cube:?} does not imply the function", env.kind, env.order),
                                );
                            }
                        }
                        5 => {
                            // drop f1 and the helpers, gc, build different functions into the recycled slots
                            let newt = if tabs[1] == 0x96 { 0xca } else { 0x96 };
                            f.pop();
                            keep.clear();
                            gc_of::<K>(&mref);
                            f.push(K::build(&mref, newt).unwrap());
                            keep.push(K::build(&mref, 0x3c).unwrap());
                            keep.push(K::build(&mref, 0xa0).unwrap());
                            tabs[1] = newt;
                        }
                        _ => {
                            c64.cache_all = !c64.cache_all;
                            cnat.cache_all = !cnat.cache_all;
                            cf.cache_all = !cf.cache_all;
                        }
                    }
                }
            }
        });
    }
}
