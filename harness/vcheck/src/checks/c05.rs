//! C05 — reference counts are exact; gc frees exactly the unreferenced nodes (E-HIST).

use crate::driver::Meta;
use crate::hist::{self, Prop};
use crate::proto::Ctx;

pub fn meta() -> Meta {
    Meta {
        level: "model_checking",
        rule: "every history of depth d (quick 4, thorough 5) over 13 actions on three handle registers (5 kind-specific operations, clone, 2 drops, gc, add_vars+new variable, reverse/rotate reordering, drop on another OS thread) for bdd, bcdd, zbdd, mtbdd, tdd, fresh manager per history, node stores of 32 (capacity probe) and 12 (failing operations); after every step: for every stored node ref_count() = #live handles + #stored parent edges (+ the ZBDD tautology chain), structure intact, every handle's table unchanged; after every gc: stored nodes = nodes reachable from live handles/manager data and the return value equals the drop in inner-node + terminal count; at the end of every history: drop everything + gc => initial node count (MTBDD: no terminals left) and the capacity probe (number of nodes creatable before OutOfMemory) equals that of a fresh manager, and with the store refilled to capacity the auditor accepts it and every probe diagram reads back as built. Extra configurations: MTBDD over F64; a one-variable constant-heavy MTBDD alphabet on a 6-entry terminal table; bdd/zbdd/mtbdd with every action issued from inside with_manager_shared of a second manager (the calling thread's store state is bound to that other manager). The capacity probe is filled from a short-lived helper thread every second time (slots freed by the calling thread must be available to any thread). states = distinct model states, transitions = audited steps.",
        assumptions: vec![
            "the automatic background collection (95 % high-water mark, condvar wake-up) is not driven here; its effect - gc() under a shared lock at an arbitrary point - is scheduled exhaustively in C07".into(),
            "terminal reference counts are not exposed by the API; they are covered through num_terminals after teardown".into(),
        ],
        hang_is_violation: false,
        shard_timeout: (900, 7200),
    }
}

const KINDS: [&str; 5] = ["bdd", "bcdd", "zbdd", "mtbdd", "tdd"];

pub fn shards(tier: &str) -> Vec<String> {
    let p = if tier == "thorough" { 2 } else { 1 };
    let mut v = if tier == "thorough" {
        hist::shards_for(&KINDS, &["n32c16t1", "n12c16t1", "n32c1t2"], 2)
    } else {
        hist::shards_for(&KINDS, &["n32c16t1", "n12c16t1"], 1)
    };
    // F64 terminals; constant-heavy MTBDD histories on a 6-entry terminal table
    v.extend(hist::shards_for(&["mtbddf"], &["n32c16t1"], p));
    v.extend(hist::shards_for(&["mtbddc"], &["n32c16t1k6", "n32c16t1"], p));
    v.extend(hist::shards_for(&["mtbddk"], &["n32c16t1k4"], p));
    // ZBDDs through their set-family operations (results are often nodes of the manager's own tautology chain)
    v.extend(hist::shards_for(&["zbdds"], &["n32c16t1"], p));
    // the multi-threaded recursion (split depth 4) on one worker, ample and tight (failing) stores
    v.extend(hist::shards_for(&["bdd", "bcdd", "zbdd"], &["n12c16t1d4"], p));
    // the background collector thread (C07's script G1, all schedules with <= 2 preemptions): reference counts,
    // node count after teardown and the full capacity afterwards
    for part in 0..16 {
        v.push(format!("bg:bdd:g1p{part}:b2"));
    }
    // every action issued from inside a session of another manager
    v.extend(hist::shards_for(&["bdd", "zbdd", "mtbdd"], &["n32c16t1x"], p));
    v
}

pub fn run(ctx: &mut Ctx) {
    if let Some(rest) = ctx.shard.clone().strip_prefix("bg:") {
        ctx.shard = rest.to_string();
        return super::c07::run(ctx);
    }
    let depth = if ctx.thorough() { 5 } else { 4 };
    hist::run_shard(ctx, Prop::C05, depth);
}
