//! C01 — canonicity: equal handles iff equal functions, after any history.
//! (a) all pairs of functions built by two routes (E-INPUT), (b) E-HIST.

use oxidd::{BooleanFunction, Manager, ManagerRef};
use serde_json::json;

use super::boolops::*;
use crate::dd::{Bcdd, Bdd, BoolKind, Zbdd};
use crate::driver::Meta;
use crate::hist::{self, Prop};
use crate::model::{self, Tab};
use crate::proto::{Ctx, attrs};

pub fn meta() -> Meta {
    Meta {
        level: "model_checking",
        rule: "(a) per kind {bdd,bcdd,zbdd} and each of the 6 orders: all 256 functions built by route A (table -> reduce/then_insert) and by route B (DNF over minterms through the kind's own operators, with a gc between the routes), all 65536 pairs compared: handles equal iff tables equal, Hash and Ord consistent. (a') per kind and order, with all 256 canonical handles alive: the result of every operation of the API (not, cofactors, 8 connectives, ite, restrict and pick_cube_dd_set for all 27 cubes, pick_cube_dd for all 8 choice vectors, quantifiers, apply-and-quantify, substitution; ZBDD: subset0/1, change, union, intsec, diff) is read back and must be the very handle of the table it denotes (==, Hash). (b) histories: every sequence of depth d (quick 4, thorough 5..6) over 13 actions on three handle registers (5 kind-specific operations, clone, 2 drops, gc, add_vars+new variable, reverse/rotate reordering, drop on another thread) for bdd, bcdd, zbdd, mtbdd (I64; also F64 with products reaching -0.0, and a constant-heavy one-variable alphabet), tdd, executed on a fresh manager per history (64-node store) with cache capacities 1 and 1024; after every step: all live register pairs and each register vs. a fresh route-A rebuild. states = distinct model states (order, register tables), transitions = checked steps (tree edges), executions = histories run on the real manager. Non-trivial: the history contains at least one non-operation action.",
        assumptions: vec![
            "histories are not pruned on abstract-state equality (cache/free-list/tombstone state is not observable), only disabled actions are cut".into(),
            "random functions over 4..8 variables not enumerated; index backend (pointer backend: C20)".into(),
        ],
        hang_is_violation: false,
        shard_timeout: (900, 7200),
    }
}

const KINDS: [&str; 5] = ["bdd", "bcdd", "zbdd", "mtbdd", "tdd"];

pub fn shards(tier: &str) -> Vec<String> {
    let mut v = vec![];
    for k in ["bdd", "bcdd", "zbdd"] {
        for o in model::perms(3) {
            v.push(format!("routes:{k}:{}", model::order_str(&o)));
        }
    }
    v.extend(super::allops::shards(tier));
    // canonicity after the concurrent variant of set_var_order (C08's cases: rebuilt functions must be the
    // old handles): 4 real workers, and two worker instances under every schedule with <= 2 preemptions
    for s in super::c08::shards(tier) {
        if s.contains(":conc4:") || (s.contains(":sched") && s.contains(":0123:t2")) {
            v.push(format!("reord:{s}"));
        }
    }
    v.extend(hist::shards_for(&["mtbddf", "mtbddc", "zbdds"], &["n64c16t1"], if tier == "thorough" { 2 } else { 1 }));
    if tier == "thorough" {
        v.extend(hist::shards_for(&KINDS, &["n64c1t1", "n64c1024t1", "n64c16t2"], 2));
    } else {
        v.extend(hist::shards_for(&KINDS, &["n64c1t1", "n64c1024t1"], 1));
    }
    v
}

pub fn run(ctx: &mut Ctx) {
    let shard = ctx.shard.clone();
    if let Some(rest) = shard.strip_prefix("routes:") {
        let (k, o) = rest.split_once(':').unwrap();
        let order = model::parse_order(o);
        match k {
            "bdd" => routes::<Bdd>(ctx, &order),
            "bcdd" => routes::<Bcdd>(ctx, &order),
            _ => routes::<Zbdd>(ctx, &order),
        }
        return;
    }
    if shard.starts_with("allops:") {
        return super::allops::run(ctx, "C01");
    }
    if let Some(rest) = shard.strip_prefix("reord:") {
        ctx.shard = rest.to_string();
        return super::c08::run(ctx);
    }
    let depth = if ctx.thorough() { 5 } else { 4 };
    hist::run_shard(ctx, Prop::C01, depth);
}

fn hash_of<T: std::hash::Hash>(x: &T) -> u64 {
    use std::hash::Hasher;
    let mut h = std::collections::hash_map::DefaultHasher::new();
    x.hash(&mut h);
    h.finish()
}

fn routes<K: BoolKind>(ctx: &mut Ctx, order: &[u32]) {
    let n = 3u32;
    let order = order.to_vec();
    ctx.group("two construction routes, all pairs", |ctx| {
        let tc = ThreadCfg { threads: 1, split: None };
        let (mref, a) = all_functions::<K>(n, &order, 64, tc);
        mref.with_manager_shared(|m| m.gc());
        // route B: OR over minterms, each minterm an AND of literals through the operators
        let lits: Vec<(K::F, K::F)> = (0..n).map(|v| mref.with_manager_shared(|m| (K::F::var(m, v).unwrap(), K::F::not_var(m, v).unwrap()))).collect();
        let minterm = |p: u32| {
            let mut c = mref.with_manager_shared(|m| K::F::t(m));
            for v in 0..n {
                let l = if (p >> v) & 1 == 1 { &lits[v as usize].0 } else { &lits[v as usize].1 };
                c = c.and(l).unwrap();
            }
            c
        };
        let mts: Vec<K::F> = (0..8).map(minterm).collect();
        let b: Vec<K::F> = (0..256u64)
            .map(|t| {
                let mut f = mref.with_manager_shared(|m| K::F::f(m));
                for p in 0..8 {
                    if (t >> p) & 1 == 1 {
                        f = f.or(&mts[p as usize]).unwrap();
                    }
                }
                f
            })
            .collect();
        ctx.count("executions", 1);
        for x in 0..256usize {
            for y in 0..256usize {
                ctx.count("evaluations", 1);
                ctx.count("transitions", 1);
                if x != y {
                    ctx.count("nontrivial", 1);
                }
                let eq = a[x] == b[y];
                let bad_eq = eq != (x == y);
                let bad_hash = eq && hash_of(&a[x]) != hash_of(&b[y]);
                let c = a[x].cmp(&b[y]);
                let bad_ord = (c == std::cmp::Ordering::Equal) != eq || b[y].cmp(&a[x]) != c.reverse();
                if bad_eq || bad_hash || bad_ord {
                    let class = if bad_eq { "eq_iff_same_function" } else if bad_hash { "hash_inconsistent" } else { "ord_inconsistent" };
                    ctx.viol(
                        attrs(&[("kind", K::NAME), ("class", class), ("last_action", "two_routes")]),
                        json!({"kind": K::NAME, "order": model::order_str(&order), "route_a_table": x, "route_b_table": y, "equal": eq}),
                        &format!("{} order {}: table {x:#x} built through reduce/then_insert vs table {y:#x} built as DNF through the operators: handles equal = {eq}", K::NAME, model::order_str(&order)),
                    );
                }
            }
            // route B result must denote the right function at all (otherwise the comparison is moot)
            if K::table(&b[x]) != Ok(x as Tab) {
                ctx.viol(
                    attrs(&[("kind", K::NAME), ("class", "function_wrong"), ("last_action", "two_routes")]),
                    json!({"kind": K::NAME, "order": model::order_str(&order), "table": x}),
                    &format!("{} DNF construction of {x:#x} denotes {:x?}", K::NAME, K::table(&b[x])),
                );
            }
        }
        ctx.distinct(256);
        ctx.count("states", 256);
    });
}
