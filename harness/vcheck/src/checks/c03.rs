//! C03 — stored diagram ordered, reduced, duplicate-free; bookkeeping consistent
//! (E-HIST with the structural auditor after every step + node_count = model minimum).

use crate::driver::Meta;
use crate::hist::{self, Prop};
use crate::proto::Ctx;

pub fn meta() -> Meta {
    Meta {
        level: "model_checking",
        rule: "every history of depth d (quick 4, thorough 5) over 13 actions on three handle registers (5 kind-specific operations, clone, 2 drops, gc, add_vars+new variable, reverse/rotate reordering, drop on another thread) for bdd, bcdd, zbdd, mtbdd, tdd on a fresh manager per history, with an ample (64) and a tight (12-node, operations may fail with OutOfMemory) node store; after every step the structural auditor runs over Manager::levels()/get_node (children strictly below, listed level = reported level, kind's reduction rule, then-edge uncomplemented, no duplicate (level, children), var/level maps inverse permutations, num_inner_nodes = listed nodes) and node_count(handle) must equal the size of the unique reduced diagram computed from the model table under the current order.  Additionally, per kind {bdd,bcdd,zbdd} and each of the 6 orders of 3 variables: the whole operation alphabet (not, cofactors, 8 connectives, ite, restrict/pick_cube_dd_set for all 27 cubes, pick_cube_dd, quantifiers, apply-and-quantify, substitution; ZBDD: subset0/1, change, union, intsec, diff) on all 256 functions: node_count of every result = size of the unique reduced diagram of the table it denotes, and after every batch of operations (before any collection) the auditor accepts everything stored. Also: every single adjacent swap through the public `level_down` (n = 4, every level, dense and sparse live sets incl. single variables) and the concurrent reordering of sparse live sets (C08's `leveldown4` / `csparse4` cases) followed by the same auditor. states = distinct model states, transitions = audited steps.",
        assumptions: vec![
            "DDDMP import as a history step is exercised by C15's audit after import (its enumeration of all binary node records is also run here), add_named_vars by C16".into(),
            "index backend (pointer backend: C20)".into(),
        ],
        hang_is_violation: false,
        shard_timeout: (900, 7200),
    }
}

const KINDS: [&str; 5] = ["bdd", "bcdd", "zbdd", "mtbdd", "tdd"];

pub fn shards(tier: &str) -> Vec<String> {
    let mut v = super::allops::shards(tier);
    // structure after single adjacent swaps (public level_down, dense and sparse live sets) and after the
    // concurrent reordering of sparse live sets: C08's cases, judged by the same structural auditor
    for s in super::c08::shards(tier) {
        if s.contains(":leveldown4:") || s.contains(":csparse4:") {
            v.push(format!("reord:{s}"));
        }
    }
    // the unique tables are linear-probing hash sets: C17's state-space search over insert / remove / retain (the
    // collection sweep) for the wrap-around hash assignment (a lost entry is a duplicate node later on)
    for f in ["ins0-2", "ins3-5", "res", "other"] {
        v.push(format!("tbl:k6:h2:p0:dinf:{f}"));
    }
    // structure after importing every possible binary node record (C15's enumeration, same auditor)
    for k in 0..8 {
        v.push(format!("imp:x:binrec:{k}"));
    }
    v.extend(hist::shards_for(&["mtbddf", "mtbddc", "zbdds"], &["n64c16t1"], if tier == "thorough" { 2 } else { 1 }));
    if tier == "thorough" {
        v.extend(hist::shards_for(&KINDS, &["n64c16t1", "n12c16t1", "n64c1t2"], 2));
    } else {
        v.extend(hist::shards_for(&KINDS, &["n64c16t1", "n12c16t1"], 1));
    }
    v
}

pub fn run(ctx: &mut Ctx) {
    if let Some(rest) = ctx.shard.clone().strip_prefix("tbl:") {
        ctx.shard = rest.to_string();
        return super::c17::run(ctx);
    }
    if let Some(rest) = ctx.shard.clone().strip_prefix("imp:") {
        ctx.shard = rest.to_string();
        return super::c15x::run_extra(ctx);
    }
    if let Some(rest) = ctx.shard.clone().strip_prefix("reord:") {
        ctx.shard = rest.to_string();
        return super::c08::run(ctx);
    }
    if ctx.shard.starts_with("allops:") {
        return super::allops::run(ctx, "C03");
    }
    let depth = if ctx.thorough() { 5 } else { 4 };
    hist::run_shard(ctx, Prop::C03, depth);
}
