//! C15 — DDDMP export/import round trip; malformed files are rejected, not
//! crashed on.
//!
//! Part 1 (E-INPUT): for every kind (BDD, BCDD, ZBDD through `BoolKind`,
//! MTBDD<I64> and TDD through the adapters in this file), every variable
//! order, every root set of the bound and the settings cross product
//! {ASCII, binary} x {2.0, 3.0} x {strict, lax} x variable-name configuration
//! x root names: export, `DumpHeader::load`, import into the same manager
//! (handles must be `==`), into a fresh manager whose order is reconstructed
//! from the header (same tables) and into a fresh manager under a variable
//! renaming (`support_vars` mapping; renamed tables); header fields against
//! the exported data / the documented replacements; strict-mode error exactly
//! in the documented cases.
//!
//! Part 2 (E-FAULT): for a fixed list of valid files every proper prefix and
//! every position x byte substitution; each mutant is imported into a fresh
//! manager. Allowed: `Err` (then no leaked references) or `Ok` with a manager
//! that passes the full audit.

use std::collections::{BTreeMap, BTreeSet};
use std::io;

use oxidd::bcdd::BCDDFunction;
use oxidd::bdd::BDDFunction;
use oxidd::mtbdd::terminal::I64;
use oxidd::mtbdd::{MTBDDFunction, MTBDDManagerRef};
use oxidd::tdd::{TDDFunction, TDDManagerRef};
use oxidd::zbdd::ZBDDFunction;
use oxidd::{BooleanFunction, Edge, Function, HasLevel, InnerNode, Manager, ManagerRef, Node};
use oxidd_core::DiagramRules;
use oxidd_core::function::{INodeOfFunc, TermOfFunc};
use oxidd_core::util::AllocResult;
use oxidd_dump::dddmp::{self, DDDMPVersion, DumpHeader, ExportSettings};
use oxidd_dump::AsciiDisplay;
use oxidd_rules_tdd::TDDTerminal;
use serde_json::{Value, json};

use crate::dd::{self, AKind, AuditInfo, BoolKind, RawEdge, audit_raw, raw_edge};
use crate::driver::Meta;
use crate::model::{self, Tab};
use crate::proto::{Ctx, attrs};

pub fn meta() -> Meta {
    Meta {
        level: "fault_enumeration",
        rule: "round trip: every (kind in {bdd,bcdd,zbdd,mtbdd<i64>} x all 6 orders of 3 variables (tdd: 2 variables, both orders) x variable-name configuration (10, incl. names that equal a generated name only after sanitising) x root set (empty, every single function, all pairs of a 24-function set, 3 triples with a repeated and a constant root) x {ascii,binary} x {2.0,3.0} x {strict,lax} x root names {none, valid, to-be-sanitised}) is exported and re-imported four ways (same manager; fresh manager with the order from the header; renaming onto the first variables of a manager with one more variable; renaming onto the last variables of a manager with min(2n, 6) variables, i.e. onto levels the exporting manager does not have), and additionally through readers that deliver the file 1, 2, 3 and 5 bytes at a time; thorough adds n=4 (4 orders, functions with unused variables). faults: for each of the valid files every proper prefix and every position x byte of the alphabet {0x00,\\n,space,0,9,-,.,A,B,0x7f,0xff} (thorough: all 256 bytes; binary node section always all 256 values on the first 64 node bytes) plus a few hand-made oversized-count headers. For the audited subset of the round trips the export is repeated into a sink that accepts k bytes and then fails, for every k below the file length (short write, then errors): the export must return an error and what reached the sink must be a prefix of the file. x:header: the header entries of exporter-written files exchanged pairwise, repeated at every position, repeated with each of their numbers +-1 (for .nnodes-1 also with one node line less): no panic; exchanged / repeated entries that are accepted must denote the original functions. A round-trip case is non-trivial when at least one root has an inner node; a mutant is non-trivial when it differs from the original file (identical substitutions are skipped and not counted).",
        assumptions: vec![
            "original diagrams are built through DiagramRules::reduce + then_insert and read back by the harness's own interpreter".into(),
            "the fresh-manager order is reconstructed from DumpHeader::{num_vars, support_vars, support_var_to_level} only (unused variables fill the remaining levels in ascending order)".into(),
            "DDDMP 2.0 cannot carry the names of unused variables per variable (only .orderedvarnames); for 2.0 files those names are compared as a multiset".into(),
            "when two names collide after sanitising, the documentation does not fix the replacement; then only validity and uniqueness are demanded".into(),
            "TDD: export + header only is demanded; an ASCII import that succeeds must reproduce the handles".into(),
            "MTBDD complement callback is the identity (exported MTBDD files contain no complemented edges)".into(),
            "I/O errors cannot occur (in-memory writer/reader); out-of-memory cannot occur (ample capacity) — the capacity sweep is C14".into(),
            "random diagrams up to 10 variables of the statement are replaced by exhaustive n=3 and n=4 (thorough) enumeration".into(),
        ],
        hang_is_violation: true,
        shard_timeout: (300, 2400),
    }
}

// ---------------------------------------------------------------------------
// model tables: value index per assignment, base b (2 or 3) digits per variable
// ---------------------------------------------------------------------------

type Tb = Vec<u8>;

fn pow(b: usize, n: u32) -> usize {
    b.pow(n)
}
fn digit(a: usize, v: u32, b: usize) -> usize {
    (a / pow(b, v)) % b
}
fn with_digit(a: usize, v: u32, d: usize, b: usize) -> usize {
    a - digit(a, v, b) * pow(b, v) + d * pow(b, v)
}
fn cof(t: &[u8], v: u32, d: usize, b: usize) -> Tb {
    (0..t.len()).map(|a| t[with_digit(a, v, d, b)]).collect()
}
fn depends(t: &[u8], v: u32, b: usize) -> bool {
    let c0 = cof(t, v, 0, b);
    (1..b).any(|d| cof(t, v, d, b) != c0)
}
fn tab_to_tb(t: Tab, n: u32) -> Tb {
    (0..(1u32 << n)).map(|a| model::bit(t, a) as u8).collect()
}
fn tb_to_tab(t: &[u8]) -> Tab {
    t.iter().enumerate().fold(0, |acc, (a, &x)| acc | ((x as Tab & 1) << a))
}
fn tb_json(t: &[u8], boolean: bool) -> Value {
    if boolean { json!(format!("{:#x}", tb_to_tab(t))) } else { json!(t) }
}

const VALS: [I64; 8] = [
    I64::Num(0),
    I64::Num(1),
    I64::Num(-3),
    I64::Num(i64::MAX),
    I64::Num(i64::MIN),
    I64::NaN,
    I64::PlusInf,
    I64::MinusInf,
];

// ---------------------------------------------------------------------------
// generic builder / interpreter over the raw structure (MTBDD, TDD)
// ---------------------------------------------------------------------------

fn gen_build<M: Manager>(m: &M, t: &[u8], n: u32, b: usize, level: u32, term: &dyn Fn(u8) -> M::Terminal) -> AllocResult<M::Edge> {
    if t.iter().all(|&x| x == t[0]) {
        return m.get_terminal(term(t[0]));
    }
    assert!(level < n, "harness: table depends on a variable above level {level}");
    let v = m.level_to_var(level);
    let mut ch: Vec<M::Edge> = Vec::with_capacity(b);
    for k in 0..b {
        // child k <-> digit b-1-k (then/else resp. true/unknown/false)
        match gen_build(m, &cof(t, v, b - 1 - k, b), n, b, level + 1, term) {
            Ok(e) => ch.push(e),
            Err(o) => {
                for e in ch {
                    m.drop_edge(e);
                }
                return Err(o);
            }
        }
    }
    <M::Rules as DiagramRules<_, _, _>>::reduce(m, level, ch).then_insert(m, level)
}

fn gen_table<M: Manager>(m: &M, e: &M::Edge, n: u32, b: usize, above: Option<u32>, term: &dyn Fn(&M::Terminal) -> Option<u8>) -> Result<Tb, String>
where
    M::InnerNode: HasLevel,
{
    match m.get_node(e) {
        Node::Terminal(t) => {
            use std::borrow::Borrow;
            match term(t.borrow()) {
                Some(x) => Ok(vec![x; pow(b, n)]),
                None => Err("terminal with a value outside the harness's value set".into()),
            }
        }
        Node::Inner(node) => {
            let l = node.level();
            if l >= n {
                return Err(format!("node level {l} out of range (num_levels {n})"));
            }
            if let Some(a) = above {
                if l <= a {
                    return Err(format!("child level {l} not below parent level {a}"));
                }
            }
            let v = m.level_to_var(l);
            let mut sub = Vec::new();
            for c in node.children() {
                sub.push(gen_table(m, &*c, n, b, Some(l), term)?);
            }
            if sub.len() != b {
                return Err(format!("node with {} children", sub.len()));
            }
            Ok((0..pow(b, n)).map(|a| sub[b - 1 - digit(a, v, b)][a]).collect())
        }
    }
}

/// number of distinct nodes (terminals included) reachable from the roots,
/// counted on the raw structure
fn reachable<M: Manager>(m: &M, roots: &[RawRoot<M>]) -> usize {
    fn rec<M: Manager>(m: &M, e: &M::Edge, seen: &mut BTreeSet<(bool, usize)>) {
        match m.get_node(e) {
            Node::Terminal(_) => {
                seen.insert((true, e.node_id()));
            }
            Node::Inner(node) => {
                if seen.insert((false, e.node_id())) {
                    for c in node.children() {
                        rec(m, &*c, seen);
                    }
                }
            }
        }
    }
    let mut seen = BTreeSet::new();
    for r in roots {
        rec(m, r.0, &mut seen);
    }
    seen.len()
}
struct RawRoot<'a, M: Manager>(&'a M::Edge);

// ---------------------------------------------------------------------------
// the kinds behind one trait
// ---------------------------------------------------------------------------

type MRef<K> = <<K as K15>::F as Function>::ManagerRef;

trait K15: 'static {
    type F: Function + Clone + PartialEq + 'static;
    const NAME: &'static str;
    /// digits per variable in the model table
    const BASE: usize;
    const BOOLEAN: bool;
    const ZBDD: bool = false;
    /// round trip through the importer is demanded
    const IMPORT_DEMANDED: bool = true;
    fn manager(names: &[String], order: &[u32]) -> MRef<Self>;
    fn build(m: &MRef<Self>, t: &[u8]) -> Self::F;
    fn table(f: &Self::F) -> Result<Tb, String>;
    fn audit(m: &MRef<Self>, live: &[&Self::F], rc: bool) -> AuditInfo;
    fn export(m: &MRef<Self>, s: &ExportSettings, roots: &[&Self::F], names: Option<&[String]>) -> (Vec<u8>, io::Result<()>);
    fn import(m: &MRef<Self>, input: &mut &[u8], header: &DumpHeader, sv: &[u32]) -> io::Result<Vec<Self::F>>;
    /// the same through any reader (used with readers that deliver the file in small pieces)
    fn import_dyn(m: &MRef<Self>, input: &mut dyn io::BufRead, header: &DumpHeader, sv: &[u32]) -> io::Result<Vec<Self::F>>;
    fn reach(m: &MRef<Self>, roots: &[&Self::F]) -> usize;
    fn universe(n: u32) -> Vec<Tb>;
    fn pairset(n: u32) -> Vec<Tb>;

    fn baseline(nvars: u32) -> usize {
        if Self::ZBDD { nvars as usize } else { 0 }
    }
    fn num_inner(m: &MRef<Self>) -> usize {
        m.with_manager_shared(|m| m.num_inner_nodes())
    }
    fn gc(m: &MRef<Self>) -> usize {
        m.with_manager_shared(|m| m.gc())
    }
    /// variables that label at least one node of the reduced diagram of `t`
    fn support(t: &[u8], n: u32) -> u32 {
        let mut s = 0;
        for v in 0..n {
            let dep = if Self::ZBDD {
                (0..t.len()).any(|a| t[a] != 0 && digit(a, v, 2) == 1)
            } else {
                depends(t, v, Self::BASE)
            };
            if dep {
                s |= 1 << v;
            }
        }
        s
    }
    /// table after renaming variable `from[i]` to `i` (all other variables are
    /// not in the support); `n2` = number of variables of the target manager
    fn remap(t: &[u8], from: &[u32], n2: u32) -> Tb {
        let b = Self::BASE;
        (0..pow(b, n2))
            .map(|a| {
                let mut a2 = 0;
                let mut outside = false;
                for v in 0..n2 {
                    let d = digit(a, v, b);
                    if (v as usize) < from.len() {
                        a2 = with_digit(a2, from[v as usize], d, b);
                    } else if d != 0 {
                        outside = true;
                    }
                }
                if Self::ZBDD && outside { 0 } else { t[a2] }
            })
            .collect()
    }
    /// table after renaming variable `from[i]` to `to[i]` in a manager with `n2` variables
    fn remap_to(t: &[u8], from: &[u32], to: &[u32], n2: u32) -> Tb {
        let b = Self::BASE;
        (0..pow(b, n2))
            .map(|a| {
                let mut a2 = 0;
                let mut outside = false;
                for v in 0..n2 {
                    let d = digit(a, v, b);
                    match to.iter().position(|&x| x == v) {
                        Some(i) => a2 = with_digit(a2, from[i], d, b),
                        None => {
                            if d != 0 {
                                outside = true;
                            }
                        }
                    }
                }
                if Self::ZBDD && outside { 0 } else { t[a2] }
            })
            .collect()
    }
}

fn do_export<F: Function>(mref: &F::ManagerRef, s: &ExportSettings, roots: &[&F], names: Option<&[String]>) -> (Vec<u8>, io::Result<()>)
where
    for<'id> INodeOfFunc<'id, F>: HasLevel,
    for<'id> TermOfFunc<'id, F>: AsciiDisplay,
{
    let mut buf = Vec::new();
    let limit = FAIL_AFTER.with(|c| c.get());
    let r = mref.with_manager_shared(|m| {
        let mut w = FailingWriter { buf: &mut buf, left: limit };
        match names {
            None => s.export(&mut w, m, roots.iter().copied()),
            Some(ns) => s.export_with_names(&mut w, m, roots.iter().copied().zip(ns.iter().map(|s| s.as_str()))),
        }
    });
    (buf, r)
}

thread_local! {
    /// Some(k): the sink of `do_export` accepts k bytes and fails from then on (a full disk, a closed pipe)
    static FAIL_AFTER: std::cell::Cell<Option<usize>> = const { std::cell::Cell::new(None) };
}

struct FailingWriter<'a> {
    buf: &'a mut Vec<u8>,
    left: Option<usize>,
}

impl io::Write for FailingWriter<'_> {
    fn write(&mut self, data: &[u8]) -> io::Result<usize> {
        match &mut self.left {
            None => {
                self.buf.extend_from_slice(data);
                Ok(data.len())
            }
            Some(0) => Err(io::Error::new(io::ErrorKind::StorageFull, "harness: the sink is full")),
            Some(left) => {
                // short write: take what still fits
                let n = data.len().min(*left);
                self.buf.extend_from_slice(&data[..n]);
                *left -= n;
                Ok(n)
            }
        }
    }
    fn flush(&mut self) -> io::Result<()> {
        match self.left {
            Some(0) => Err(io::Error::new(io::ErrorKind::StorageFull, "harness: the sink is full")),
            _ => Ok(()),
        }
    }
}

fn named_manager<R: ManagerRef>(mref: &R, names: &[String]) {
    mref.with_manager_exclusive(|m| {
        m.add_named_vars(names.iter().cloned()).expect("harness: duplicate variable names");
    });
}

/// Manager creation spawns two OS threads and panics when the OS refuses
/// (`EAGAIN` while other checks run in parallel). That is a resource problem
/// of the test machine, not behaviour of the subject: retry with back-off.
fn retry_manager<R>(f: impl Fn() -> R) -> R {
    for attempt in 0..400u64 {
        match std::panic::catch_unwind(std::panic::AssertUnwindSafe(&f)) {
            Ok(m) => return m,
            Err(p) => {
                let (_, msg) = crate::proto::take_panic();
                if !(msg.contains("failed to spawn thread") || msg.contains("could not build thread pool")) {
                    std::panic::resume_unwind(p);
                }
                std::thread::sleep(std::time::Duration::from_millis(25 * (attempt + 1).min(20)));
            }
        }
    }
    panic!("harness: could not create a manager (thread creation keeps failing)")
}

fn check_order<R: ManagerRef>(mref: &R, order: &[u32]) {
    let got: Vec<u32> = mref.with_manager_shared(|m| (0..m.num_levels()).map(|l| m.level_to_var(l)).collect());
    assert_eq!(got, order, "harness: initial order could not be established");
}

fn is_ident(order: &[u32]) -> bool {
    order.iter().enumerate().all(|(i, &v)| i as u32 == v)
}

macro_rules! bool_kind {
    ($name:ident, $k:ty, $f:ty, $zbdd:expr) => {
        struct $name;
        impl K15 for $name {
            type F = $f;
            const NAME: &'static str = <$k as BoolKind>::NAME;
            const BASE: usize = 2;
            const BOOLEAN: bool = true;
            const ZBDD: bool = $zbdd;
            fn manager(names: &[String], order: &[u32]) -> MRef<Self> {
                let mref = retry_manager(|| <$k as BoolKind>::new_manager(4096, 256, 1));
                named_manager(&mref, names);
                if !is_ident(order) {
                    <$k as BoolKind>::set_order(&mref, order);
                }
                check_order(&mref, order);
                mref
            }
            fn build(m: &MRef<Self>, t: &[u8]) -> $f {
                <$k as BoolKind>::build(m, tb_to_tab(t)).expect("harness: out of memory while building")
            }
            fn table(f: &$f) -> Result<Tb, String> {
                let n = f.with_manager_shared(|m, _| m.num_levels());
                if n > 6 {
                    return Err(format!("harness interpreter limited to 6 variables, manager has {n}"));
                }
                <$k as BoolKind>::table(f).map(|t| tab_to_tb(t, n))
            }
            fn audit(m: &MRef<Self>, live: &[&$f], rc: bool) -> AuditInfo {
                <$k as BoolKind>::audit(m, live, rc)
            }
            fn export(m: &MRef<Self>, s: &ExportSettings, roots: &[&$f], names: Option<&[String]>) -> (Vec<u8>, io::Result<()>) {
                do_export::<$f>(m, s, roots, names)
            }
            fn import(m: &MRef<Self>, input: &mut &[u8], header: &DumpHeader, sv: &[u32]) -> io::Result<Vec<$f>> {
                m.with_manager_shared(|m| dddmp::import::<$f>(input, header, m, sv.iter().copied(), <$f as BooleanFunction>::not_edge_owned))
            }
            fn import_dyn(m: &MRef<Self>, input: &mut dyn io::BufRead, header: &DumpHeader, sv: &[u32]) -> io::Result<Vec<$f>> {
                m.with_manager_shared(|m| dddmp::import::<$f>(input, header, m, sv.iter().copied(), <$f as BooleanFunction>::not_edge_owned))
            }
            fn reach(m: &MRef<Self>, roots: &[&$f]) -> usize {
                m.with_manager_shared(|m| {
                    let rs: Vec<_> = roots.iter().map(|f| RawRoot(f.as_edge(m))).collect();
                    reachable(m, &rs)
                })
            }
            fn universe(n: u32) -> Vec<Tb> {
                if n == 3 {
                    (0..256).map(|t| tab_to_tb(t, 3)).collect()
                } else {
                    unused_var_functions(n).into_iter().map(|t| tab_to_tb(t, n)).collect()
                }
            }
            fn pairset(n: u32) -> Vec<Tb> {
                bool_pairset(n).into_iter().map(|t| tab_to_tb(t, n)).collect()
            }
        }
    };
}
bool_kind!(KBdd, dd::Bdd, BDDFunction, false);
bool_kind!(KBcdd, dd::Bcdd, BCDDFunction, false);
bool_kind!(KZbdd, dd::Zbdd, ZBDDFunction, true);

/// 24 functions of n variables (n >= 3): constants, literals, small cubes,
/// xors, majority, mux, one-hot, ...; embedded in the first three variables
/// for n = 4 plus some that use the fourth.
fn bool_pairset(n: u32) -> Vec<Tab> {
    let x: Vec<Tab> = (0..n).map(|v| model::var_tab(v, n)).collect();
    let f = model::full(n);
    let not = |t: Tab| !t & f;
    let l = (n - 1) as usize;
    let mut v = vec![
        0,
        f,
        x[0],
        x[1],
        x[l],
        not(x[0]),
        not(x[l]),
        x[0] & x[1],
        x[1] | x[l],
        x[0] ^ x[1],
        x[0] ^ x[l],
        x[0] ^ x[1] ^ x[l],
        not(x[0] ^ x[1] ^ x[l]),
        (x[0] & x[1]) | (x[1] & x[l]) | (x[0] & x[l]),
        (x[0] & x[1]) | (not(x[0]) & x[l]),
        x[0] & not(x[1]),
        x[0] | x[1] | x[l],
        1,                                      // nor / the ZBDD family {∅}
        (1 << 1) | (1 << 2) | (1 << (1 << l)), // three singletons / one-hot-ish
        1 << ((1u32 << n) - 1),                // and of all / the family {{all}}
        not(1 << ((1u32 << n) - 1)),
        (x[0] & x[1]) | x[l],
        (x[0] ^ x[1]) & x[l],
        not(x[1]) & x[l],
    ];
    v.dedup();
    assert_eq!(v.iter().collect::<BTreeSet<_>>().len(), 24);
    v
}

/// n = 4: all functions of at most three of the four variables (every
/// function has at least one unused variable), i.e. 4*256 minus overlaps,
/// plus a handful that use all four.
fn unused_var_functions(n: u32) -> Vec<Tab> {
    assert_eq!(n, 4);
    let mut set = BTreeSet::new();
    for skip in 0..4u32 {
        let vars: Vec<u32> = (0..4).filter(|&v| v != skip).collect();
        for t3 in 0..256u64 {
            let mut t = 0u64;
            for a in 0..16u32 {
                let a3 = vars.iter().enumerate().fold(0, |acc, (i, &v)| acc | (((a >> v) & 1) << i));
                if model::bit(t3, a3) {
                    t |= 1 << a;
                }
            }
            set.insert(t);
        }
    }
    for t in [0x6996u64, 0x8000, 0x7fff, 0x0116, 0xfee8, 0x1234, 0xcafe] {
        set.insert(t);
    }
    set.into_iter().collect()
}

// ---- MTBDD<I64> -------------------------------------------------------------

struct KMtbdd;
type MtF = MTBDDFunction<I64>;

/// values outside the harness's value set (only mutated files contain them) read as 255
fn mt_term_idx(t: &I64) -> Option<u8> {
    Some(VALS.iter().position(|v| v == t).map_or(255, |i| i as u8))
}

impl K15 for KMtbdd {
    type F = MtF;
    const NAME: &'static str = "mtbdd";
    const BASE: usize = 2;
    const BOOLEAN: bool = false;
    fn manager(names: &[String], order: &[u32]) -> MTBDDManagerRef<I64> {
        let mref = retry_manager(|| oxidd::mtbdd::new_manager::<I64>(4096, 64, 256, 1));
        named_manager(&mref, names);
        if !is_ident(order) {
            mref.with_manager_exclusive(|m| oxidd_reorder::set_var_order(m, order));
        }
        check_order(&mref, order);
        mref
    }
    fn build(m: &MTBDDManagerRef<I64>, t: &[u8]) -> MtF {
        m.with_manager_shared(|m| {
            let e = gen_build(m, t, m.num_levels(), 2, 0, &|x| VALS[x as usize]).expect("harness: out of memory while building");
            MtF::from_edge(m, e)
        })
    }
    fn table(f: &MtF) -> Result<Tb, String> {
        f.with_manager_shared(|m, e| {
            if m.num_levels() > 6 {
                return Err("harness interpreter limited to 6 variables".into());
            }
            gen_table(m, e, m.num_levels(), 2, None, &mt_term_idx)
        })
    }
    fn audit(m: &MTBDDManagerRef<I64>, live: &[&MtF], rc: bool) -> AuditInfo {
        m.with_manager_shared(|m| {
            let roots: Vec<RawEdge> = live.iter().map(|f| raw_edge(m, f.as_edge(m))).collect();
            audit_raw(m, AKind::Mtbdd, &roots, None, None, rc)
        })
    }
    fn export(m: &MTBDDManagerRef<I64>, s: &ExportSettings, roots: &[&MtF], names: Option<&[String]>) -> (Vec<u8>, io::Result<()>) {
        do_export::<MtF>(m, s, roots, names)
    }
    fn import(m: &MTBDDManagerRef<I64>, input: &mut &[u8], header: &DumpHeader, sv: &[u32]) -> io::Result<Vec<MtF>> {
        m.with_manager_shared(|m| dddmp::import::<MtF>(input, header, m, sv.iter().copied(), |_, e| Ok(e)))
    }
    fn import_dyn(m: &MTBDDManagerRef<I64>, input: &mut dyn io::BufRead, header: &DumpHeader, sv: &[u32]) -> io::Result<Vec<MtF>> {
        m.with_manager_shared(|m| dddmp::import::<MtF>(input, header, m, sv.iter().copied(), |_, e| Ok(e)))
    }
    fn reach(m: &MTBDDManagerRef<I64>, roots: &[&MtF]) -> usize {
        m.with_manager_shared(|m| {
            let rs: Vec<_> = roots.iter().map(|f| RawRoot(f.as_edge(m))).collect();
            reachable(m, &rs)
        })
    }
    fn universe(n: u32) -> Vec<Tb> {
        let len = 1usize << n;
        let pairs: [(u8, u8); 8] = [(0, 1), (2, 3), (4, 5), (6, 7), (1, 0), (5, 5), (7, 2), (3, 4)];
        let mut set = BTreeSet::new();
        let nb: u64 = if n == 3 { 256 } else { 0 };
        for t in 0..nb {
            let p = pairs[(t % 8) as usize];
            set.insert((0..len).map(|a| if model::bit(t, a as u32) { p.1 } else { p.0 }).collect::<Tb>());
        }
        if n == 4 {
            for (i, t) in unused_var_functions(4).into_iter().enumerate() {
                if i % 4 == 0 {
                    let p = pairs[(i / 4) % 8];
                    set.insert((0..len).map(|a| if model::bit(t, a as u32) { p.1 } else { p.0 }).collect::<Tb>());
                }
            }
        }
        for k in 1..8usize {
            for j in 0..8usize {
                set.insert((0..len).map(|a| (((a % 8) * k + j) % 8) as u8).collect::<Tb>());
                // three-valued, independent of variable 1
                set.insert((0..len).map(|a| (((a & 5) * k + j) % 3) as u8).collect::<Tb>());
            }
        }
        set.into_iter().collect()
    }
    fn pairset(n: u32) -> Vec<Tb> {
        let u = Self::universe(n);
        let step = u.len() / 24;
        (0..24).map(|i| u[i * step + (i % step.max(1)).min(step - 1)].clone()).collect::<BTreeSet<_>>().into_iter().collect()
    }
}

// ---- TDD -------------------------------------------------------------------

struct KTdd;

fn tdd_term(x: u8) -> TDDTerminal {
    match x {
        0 => TDDTerminal::False,
        1 => TDDTerminal::Unknown,
        _ => TDDTerminal::True,
    }
}
fn tdd_term_idx(t: &TDDTerminal) -> Option<u8> {
    Some(match t {
        TDDTerminal::False => 0,
        TDDTerminal::Unknown => 1,
        TDDTerminal::True => 2,
    })
}

impl K15 for KTdd {
    type F = TDDFunction;
    const NAME: &'static str = "tdd";
    const BASE: usize = 3;
    const BOOLEAN: bool = false;
    const IMPORT_DEMANDED: bool = false;
    fn manager(names: &[String], order: &[u32]) -> TDDManagerRef {
        let mref = retry_manager(|| oxidd::tdd::new_manager(1 << 15, 256, 1));
        named_manager(&mref, names);
        if !is_ident(order) {
            mref.with_manager_exclusive(|m| oxidd_reorder::set_var_order(m, order));
        }
        check_order(&mref, order);
        mref
    }
    fn build(m: &TDDManagerRef, t: &[u8]) -> TDDFunction {
        m.with_manager_shared(|m| {
            let e = gen_build(m, t, m.num_levels(), 3, 0, &tdd_term).expect("harness: out of memory while building");
            TDDFunction::from_edge(m, e)
        })
    }
    fn table(f: &TDDFunction) -> Result<Tb, String> {
        f.with_manager_shared(|m, e| {
            if m.num_levels() > 4 {
                return Err("harness interpreter limited to 4 ternary variables".into());
            }
            gen_table(m, e, m.num_levels(), 3, None, &tdd_term_idx)
        })
    }
    fn audit(m: &TDDManagerRef, live: &[&TDDFunction], rc: bool) -> AuditInfo {
        m.with_manager_shared(|m| {
            let roots: Vec<RawEdge> = live.iter().map(|f| raw_edge(m, f.as_edge(m))).collect();
            audit_raw(m, AKind::Tdd, &roots, None, None, rc)
        })
    }
    fn export(m: &TDDManagerRef, s: &ExportSettings, roots: &[&TDDFunction], names: Option<&[String]>) -> (Vec<u8>, io::Result<()>) {
        do_export::<TDDFunction>(m, s, roots, names)
    }
    fn import_dyn(_m: &TDDManagerRef, _input: &mut dyn io::BufRead, _header: &DumpHeader, _sv: &[u32]) -> io::Result<Vec<TDDFunction>> {
        Err(io::Error::new(io::ErrorKind::Unsupported, "dddmp::import cannot be instantiated for ternary nodes"))
    }
    fn import(_m: &TDDManagerRef, _input: &mut &[u8], _header: &DumpHeader, _sv: &[u32]) -> io::Result<Vec<TDDFunction>> {
        // `dddmp::import::<TDDFunction>` does not compile (const assertion "binary mode is only
        // supported for binary nodes" in import_bin): the importer does not accept ternary nodes.
        Err(io::Error::new(io::ErrorKind::Unsupported, "dddmp::import cannot be instantiated for ternary nodes"))
    }
    fn reach(m: &TDDManagerRef, roots: &[&TDDFunction]) -> usize {
        m.with_manager_shared(|m| {
            let rs: Vec<_> = roots.iter().map(|f| RawRoot(f.as_edge(m))).collect();
            reachable(m, &rs)
        })
    }
    fn universe(n: u32) -> Vec<Tb> {
        // n = 2: 3^9 tables; a 729-table slice (every 27th) plus the constants
        // and literals; n = 3: derived from 3 slices
        let len = pow(3, n);
        let mut set = BTreeSet::new();
        let total = pow(3, 9);
        for i in (0..total).step_by(27) {
            let base: Vec<u8> = (0..9).map(|p| ((i / pow(3, p)) % 3) as u8).collect();
            set.insert((0..len).map(|a| base[(a + a / 9) % 9]).collect::<Tb>());
        }
        for c in 0..3u8 {
            set.insert(vec![c; len]);
        }
        for v in 0..n {
            set.insert((0..len).map(|a| digit(a, v, 3) as u8).collect::<Tb>());
        }
        set.into_iter().collect()
    }
    fn pairset(n: u32) -> Vec<Tb> {
        let u = Self::universe(n);
        let step = u.len() / 24;
        (0..24).map(|i| u[i * step].clone()).collect()
    }
}

// ---------------------------------------------------------------------------
// settings and names
// ---------------------------------------------------------------------------

#[derive(Clone, Copy, Debug)]
struct St {
    ascii: bool,
    v3: bool,
    strict: bool,
    /// 0 = export() without names, 1 = valid names, 2 = names to be sanitised
    rn: u8,
    dd: u8,
}

const DD_NAMES: [&str; 3] = ["", "my dd", "d\tn"];
const ROOT_GOOD: [&str; 4] = ["r0", "a_b", "_f1", "f"];
const ROOT_BAD: [&str; 7] = ["a", "b c", "", "x\ty", "_f0", "a_b", "a b"];

/// variable-name configurations (first n entries are used; "" = unnamed)
const VAR_CFGS: [(&str, [&str; 4]); 10] = [
    ("none", ["", "", "", ""]),
    ("all_valid", ["a", "_x0", "a_b", "d"]),
    ("all_sanitise", ["a", "b c", "x\ty", "d e"]),
    ("all_collision", ["a_b", "a b", "c", "d"]),
    ("part_sanitise", ["a", "", "b c", ""]),
    ("part_underscore", ["_x0", "", "a", "q"]),
    ("part_collision", ["a_b", "", "a b", "z"]),
    ("part_prefix", ["__x2", "_a", "", ""]),
    // names that look like generated ones only after sanitising
    ("part_sanitised_prefix", ["a", "", " x1", "d"]),
    ("part_sanitised_prefix2", ["\tx2", " q", "", "d"]),
];

fn settings_list() -> Vec<(bool, bool, bool, u8)> {
    let mut v = vec![];
    for ascii in [true, false] {
        for v3 in [false, true] {
            for strict in [true, false] {
                for rn in 0..3u8 {
                    v.push((ascii, v3, strict, rn));
                }
            }
        }
    }
    v
}

fn bad_byte(b: u8) -> bool {
    b.is_ascii_control() || b == b' '
}
fn valid_name(s: &str) -> bool {
    !s.is_empty() && !s.bytes().any(bad_byte)
}
fn sanitise(s: &str) -> String {
    String::from_utf8(s.bytes().map(|b| if bad_byte(b) { b'_' } else { b }).collect()).unwrap()
}

#[derive(Debug, Clone, Copy, PartialEq)]
enum Tri {
    Yes,
    No,
    Either,
}

struct NamesExp {
    exported: Tri,
    /// expected header name per variable; None = only validity + uniqueness
    /// (a collision after sanitising, replacement not documented)
    vars: Vec<Option<String>>,
    any_replaced: bool,
}

/// The documented rules (ExportSettings::strict): control/space -> '_', empty
/// -> `_x{i}` with as many extra leading underscores as the longest underscore
/// prefix of a present name; strict: names only if all variables are named.
fn expect_var_names(names: &[String], strict: bool) -> NamesExp {
    let n = names.len();
    let named = names.iter().filter(|s| !s.is_empty()).count();
    let exported = if strict {
        if named == n && n > 0 { Tri::Yes } else { Tri::No }
    } else if named == 0 {
        Tri::Either
    } else {
        Tri::Yes
    };
    let lead = names.iter().map(|s| s.bytes().take_while(|&b| b == b'_').count()).max().unwrap_or(0);
    let san: Vec<String> = names.iter().map(|s| sanitise(s)).collect();
    let replaced: Vec<bool> = names.iter().map(|s| !s.is_empty() && !valid_name(s)).collect();
    let mut collision = false;
    for i in 0..n {
        if !replaced[i] {
            continue;
        }
        for j in 0..n {
            if j != i && !names[j].is_empty() && (san[j] == san[i]) {
                collision = true;
            }
        }
    }
    // the documentation counts the underscore prefix "over all present variable names" and states the
    // purpose (uniqueness); where sanitising lengthens a prefix only validity + uniqueness are demanded
    let lead_san = san.iter().map(|s| s.bytes().take_while(|&b| b == b'_').count()).max().unwrap_or(0);
    let vars = (0..n)
        .map(|i| {
            if names[i].is_empty() {
                if lead_san != lead { None } else { Some(format!("{}x{i}", "_".repeat(1 + lead))) }
            } else if !replaced[i] {
                Some(names[i].clone())
            } else if collision {
                None
            } else {
                Some(san[i].clone())
            }
        })
        .collect();
    NamesExp { exported, vars, any_replaced: replaced.iter().any(|&b| b) }
}

fn expect_root_name(i: usize, s: &str) -> String {
    if s.is_empty() { format!("_f{i}") } else { sanitise(s) }
}

/// own minimal reading of the header lines (independent of DumpHeader)
fn my_header(bytes: &[u8]) -> Result<BTreeMap<String, String>, String> {
    let mut map = BTreeMap::new();
    let mut pos = 0;
    loop {
        let Some(nl) = bytes[pos..].iter().position(|&b| b == b'\n') else {
            return Err("no .nodes line".into());
        };
        let line = std::str::from_utf8(&bytes[pos..pos + nl]).map_err(|_| "header line is not UTF-8".to_string())?;
        pos += nl + 1;
        if !line.starts_with('.') {
            return Err(format!("header line '{line}' does not start with '.'"));
        }
        if line == ".nodes" {
            map.insert(".nodes@".into(), pos.to_string());
            return Ok(map);
        }
        let (k, v) = line.split_once(' ').unwrap_or((line, ""));
        const KEYS: [&str; 16] = [
            ".ver", ".mode", ".varinfo", ".dd", ".nnodes", ".nvars", ".nsuppvars", ".varnames", ".suppvarnames", ".orderedvarnames", ".ids", ".permids",
            ".auxids", ".nroots", ".rootids", ".rootnames",
        ];
        if !KEYS.contains(&k) {
            return Err(format!("unknown header key '{k}'"));
        }
        map.insert(k.to_string(), v.to_string());
    }
}

fn order_from_header(h: &DumpHeader) -> Result<Vec<u32>, String> {
    let n = h.num_vars() as usize;
    let ids = h.support_vars();
    let lv = h.support_var_to_level();
    if ids.len() != lv.len() || ids.len() != h.num_support_vars() as usize || ids.len() != h.support_var_order().len() {
        return Err(format!("support_vars {:?}, support_var_to_level {:?}, support_var_order {:?}: lengths differ from num_support_vars {}", ids, lv, h.support_var_order(), h.num_support_vars()));
    }
    let mut order = vec![u32::MAX; n];
    let mut used = vec![false; n];
    for (&v, &l) in ids.iter().zip(lv) {
        if v as usize >= n || l as usize >= n {
            return Err(format!("support variable {v} / level {l} not below num_vars {n}"));
        }
        if used[v as usize] || order[l as usize] != u32::MAX {
            return Err(format!("support variable {v} or level {l} occurs twice (support_vars {ids:?}, levels {lv:?})"));
        }
        used[v as usize] = true;
        order[l as usize] = v;
    }
    if !ids.windows(2).all(|w| w[0] < w[1]) {
        return Err(format!("support_vars {ids:?} not strictly ascending"));
    }
    // documented: support_var_order = support variables by position
    let by_level: Vec<u32> = order.iter().copied().filter(|&v| v != u32::MAX).collect();
    if by_level != h.support_var_order() {
        return Err(format!("support_var_order {:?} is not the support sorted by level {:?}", h.support_var_order(), by_level));
    }
    let mut rest = (0..n as u32).filter(|&v| !used[v as usize]);
    for slot in order.iter_mut() {
        if *slot == u32::MAX {
            *slot = rest.next().unwrap();
        }
    }
    Ok(order)
}

// ---------------------------------------------------------------------------
// round trip
// ---------------------------------------------------------------------------

/// Managers are expensive to create (two OS threads each, which terminate
/// asynchronously after the drop), so the importing managers are pooled per
/// (number of variables, order). A manager normally goes back to the pool only
/// after `gc()` brought it back to its initial node count and the audit
/// passed, and is retired after `POOL_USES` uses. The number of managers a
/// worker process creates is capped (`MAX_MANAGERS`): beyond the cap a manager
/// that is not clean is reused nevertheless (a violation has been reported for
/// it already; follow-up reports fall into the same classes). A manager that
/// was in use when a panic unwound is leaked, never dropped or reused.
const POOL_USES: u32 = 1 << 20;
const MAX_MANAGERS: u64 = 48;
static MANAGERS: std::sync::atomic::AtomicU64 = std::sync::atomic::AtomicU64::new(0);
type SharedPool<K> = std::rc::Rc<std::cell::RefCell<Pool<K>>>;
struct Pool<K: K15> {
    map: BTreeMap<Vec<u32>, (MRef<K>, u32)>,
}
struct Lease<K: K15> {
    m: Option<MRef<K>>,
    order: Vec<u32>,
    uses: u32,
}
impl<K: K15> Drop for Lease<K> {
    fn drop(&mut self) {
        if std::thread::panicking() {
            std::mem::forget(self.m.take());
        }
    }
}
impl<K: K15> Lease<K> {
    fn mref(&self) -> &MRef<K> {
        self.m.as_ref().unwrap()
    }
}
impl<K: K15> Pool<K> {
    fn new() -> Self {
        Pool { map: BTreeMap::new() }
    }
}
impl<K: K15> Default for Pool<K> {
    fn default() -> Self {
        Pool::new()
    }
}
impl<K: K15> Pool<K> {
    fn take(&mut self, order: &[u32]) -> Lease<K> {
        match self.map.remove(order) {
            Some((m, uses)) => Lease { m: Some(m), order: order.to_vec(), uses },
            None => {
                MANAGERS.fetch_add(1, std::sync::atomic::Ordering::Relaxed);
                Lease { m: Some(K::manager(&vec![String::new(); order.len()], order)), order: order.to_vec(), uses: 0 }
            }
        }
    }
    /// give a manager back; `clean` = audit passed and node count is at the baseline
    fn give(&mut self, mut lease: Lease<K>, clean: bool) {
        let capped = MANAGERS.load(std::sync::atomic::Ordering::Relaxed) >= MAX_MANAGERS;
        if (clean && lease.uses + 1 < POOL_USES) || capped {
            let m = lease.m.take().unwrap();
            self.map.insert(std::mem::take(&mut lease.order), (m, lease.uses + 1));
        }
    }
}

struct Env<K: K15> {
    n: u32,
    order: Vec<u32>,
    names: Vec<String>,
    mref: MRef<K>,
    tabs: Vec<Tb>,
    fns: Vec<K::F>,
    pool: SharedPool<K>,
}

#[derive(Default)]
struct CaseOut {
    viols: Vec<(String, String)>,
    outcomes: Vec<String>,
}
impl CaseOut {
    fn v(&mut self, class: &str, msg: String) {
        self.viols.push((class.to_string(), msg));
    }
}

struct Case<'a> {
    roots: &'a [usize],
    st: St,
    root_names: Option<Vec<String>>,
}

fn case_json<K: K15>(env: &Env<K>, c: &Case) -> Value {
    json!({
        "part": "roundtrip", "kind": K::NAME, "n": env.n, "order": model::order_str(&env.order),
        "var_names": env.names,
        "roots": c.roots.iter().map(|&i| tb_json(&env.tabs[i], K::BOOLEAN)).collect::<Vec<_>>(),
        "ascii": c.st.ascii, "version": if c.st.v3 { "3.0" } else { "2.0" }, "strict": c.st.strict,
        "root_names": c.root_names, "root_names_mode": c.st.rn, "diagram_name": DD_NAMES[c.st.dd as usize],
    })
}

fn export_settings(st: &St) -> ExportSettings<'static> {
    let mut s = ExportSettings::default().version(if st.v3 { DDDMPVersion::V3_0 } else { DDDMPVersion::V2_0 }).strict(st.strict).diagram_name(DD_NAMES[st.dd as usize]);
    s = if st.ascii { s.ascii() } else { s.binary() };
    s
}

fn audit_msg(info: &AuditInfo) -> String {
    info.errors.iter().take(3).cloned().collect::<Vec<_>>().join("; ")
}

/// one export + three imports; the second/third manager is created here
fn run_case<K: K15>(env: &Env<K>, c: &Case, deep_audit: bool) -> CaseOut {
    let mut out = CaseOut::default();
    let n = env.n;
    let roots: Vec<&K::F> = c.roots.iter().map(|&i| &env.fns[i]).collect();
    let settings = export_settings(&c.st);
    let (bytes, res) = K::export(&env.mref, &settings, &roots, c.root_names.as_deref());

    // ---- strict-mode verdict ------------------------------------------------
    let nexp = expect_var_names(&env.names, c.st.strict);
    let dd = DD_NAMES[c.st.dd as usize];
    let dd_bad = dd.bytes().any(|b| b.is_ascii_control());
    let rn_bad = c.root_names.as_ref().map_or(false, |v| v.iter().any(|s| !valid_name(s)));
    let expect_err = c.st.strict && (dd_bad || rn_bad || (nexp.exported == Tri::Yes && nexp.any_replaced));
    match (&res, expect_err) {
        (Ok(()), true) => out.v(
            "strict_no_error",
            format!("strict export returned Ok although a replacement was necessary (diagram name bad: {dd_bad}, root name bad: {rn_bad}, variable name replaced: {})", nexp.exported == Tri::Yes && nexp.any_replaced),
        ),
        (Err(e), false) => out.v("unexpected_export_error", format!("export returned Err({e}) although no documented strict-mode case applies (strict = {})", c.st.strict)),
        (Err(e), true) => {
            if e.kind() != io::ErrorKind::InvalidInput {
                out.outcomes.push(format!("strict error kind {:?}", e.kind()));
            }
            out.outcomes.push("export:strict_err".into());
        }
        (Ok(()), false) => out.outcomes.push("export:ok".into()),
    }
    // ---- the sink fails after k bytes, for every k: the export must report it -------------------------
    if deep_audit && res.is_ok() {
        for k in 0..bytes.len() {
            FAIL_AFTER.with(|c| c.set(Some(k)));
            let (b2, r2) = K::export(&env.mref, &settings, &roots, c.root_names.as_deref());
            FAIL_AFTER.with(|c| c.set(None));
            if r2.is_ok() {
                out.v("write_error_swallowed", format!("the writer accepted {k} of {} bytes and failed from then on, but export returned Ok (bytes that reached the sink: {})", bytes.len(), b2.len()));
                break;
            }
            if b2.len() > k || b2[..] != bytes[..b2.len()] {
                out.v("write_error_swallowed", format!("with a writer failing after {k} bytes the sink holds {} bytes that are not a prefix of the complete file", b2.len()));
                break;
            }
        }
        out.outcomes.push("export:failing_sink_sweep".into());
    }

    // ---- own header reading -------------------------------------------------
    let file_txt = || String::from_utf8_lossy(&bytes).into_owned();
    let mode_b;
    match my_header(&bytes) {
        Err(e) => {
            out.v("header_syntax", format!("exported header not well-formed: {e}; file: {:?}", file_txt()));
            return out;
        }
        Ok(h) => {
            let ver = if c.st.v3 { "DDDMP-3.0" } else { "DDDMP-2.0" };
            if h.get(".ver").map(|s| s.as_str()) != Some(ver) {
                out.v("header_field", format!(".ver is {:?}, requested {ver}", h.get(".ver")));
            }
            mode_b = h.get(".mode").map(|s| s.as_str()) == Some("B");
            if mode_b && c.st.ascii {
                out.v("header_field", "binary mode although ASCII was enforced".into());
            }
            if !mode_b && h.get(".mode").map(|s| s.as_str()) != Some("A") {
                out.v("header_field", format!(".mode is {:?}", h.get(".mode")));
            }
            if !c.st.v3 && h.contains_key(".varnames") {
                out.v("header_field", ".varnames written in a 2.0 file".into());
            }
            out.outcomes.push(format!("mode:{}", if mode_b { "B" } else { "A" }));
        }
    }
    if !bytes.ends_with(b".end\n") {
        out.v("header_syntax", format!("file does not end with .end: {:?}", file_txt()));
    }

    // ---- DumpHeader::load ----------------------------------------------------
    let mut cur: &[u8] = &bytes[..];
    let header = match DumpHeader::load(&mut cur) {
        Ok(h) => h,
        Err(e) => {
            out.v("load_rejects_export", format!("DumpHeader::load rejects the exported file: {e}; file: {:?}", file_txt()));
            return out;
        }
    };
    let after_header: &[u8] = cur;

    // ---- header fields -------------------------------------------------------
    let level_of = |v: u32| env.order.iter().position(|&x| x == v).unwrap() as u32;
    let supp_mask = c.roots.iter().fold(0u32, |acc, &i| acc | K::support(&env.tabs[i], n));
    let supp: Vec<u32> = (0..n).filter(|v| (supp_mask >> v) & 1 == 1).collect();
    let supp_levels: Vec<u32> = supp.iter().map(|&v| level_of(v)).collect();
    let supp_order: Vec<u32> = env.order.iter().copied().filter(|v| (supp_mask >> v) & 1 == 1).collect();
    let nnodes = K::reach(&env.mref, &roots);
    macro_rules! hf {
        ($name:expr, $ok:expr, $got:expr, $exp:expr $(,)?) => {
            if !$ok {
                out.v("header_field", format!("header field {}: got {}, expected {}", $name, $got, $exp));
            }
        };
    }
    hf!("num_vars", header.num_vars() == n, format!("{}", header.num_vars()), format!("{n}"));
    hf!("num_nodes", header.num_nodes() == nnodes, format!("{}", header.num_nodes()), format!("{nnodes} (nodes reachable from the roots)"));
    hf!("num_support_vars", header.num_support_vars() as usize == supp.len(), format!("{}", header.num_support_vars()), format!("{}", supp.len()));
    hf!("support_vars", header.support_vars() == supp, format!("{:?}", header.support_vars()), format!("{supp:?}"));
    hf!("support_var_to_level", header.support_var_to_level() == supp_levels, format!("{:?}", header.support_var_to_level()), format!("{supp_levels:?}"));
    hf!("support_var_order", header.support_var_order() == supp_order, format!("{:?}", header.support_var_order()), format!("{supp_order:?}"));
    hf!("num_roots", header.num_roots() == roots.len(), format!("{}", header.num_roots()), format!("{}", roots.len()));
    hf!("auxiliary_var_ids", header.auxiliary_var_ids().is_empty(), format!("{:?}", header.auxiliary_var_ids()), "[]".to_string());
    let exp_dd: Option<String> = if dd.is_empty() { None } else { Some(dd.bytes().map(|b| if b.is_ascii_control() { ' ' } else { b as char }).collect()) };
    hf!("diagram_name", header.diagram_name() == exp_dd.as_deref(), format!("{:?}", header.diagram_name()), format!("{exp_dd:?}"));
    let exp_rn: Option<Vec<String>> = match &c.root_names {
        Some(v) if !v.is_empty() => Some(v.iter().enumerate().map(|(i, s)| expect_root_name(i, s)).collect()),
        _ => None,
    };
    hf!("root_names", header.root_names().map(|s| s.to_vec()) == exp_rn, format!("{:?}", header.root_names()), format!("{exp_rn:?}"));
    // variable names
    match (header.var_names(), nexp.exported) {
        (None, Tri::Yes) => hf!("var_names", false, "None".to_string(), "names (documented: exported when all variables are named, in lax mode generated for unnamed ones)".to_string()),
        (Some(g), Tri::No) => hf!("var_names", false, format!("{g:?}"), "None (strict mode: no names unless all variables are named)".to_string()),
        (None, _) => out.outcomes.push("varnames:none".into()),
        (Some(g), _) => {
            out.outcomes.push("varnames:some".into());
            if g.len() != n as usize {
                hf!("var_names", false, format!("{g:?}"), format!("{n} names"));
            } else {
                let uniq: BTreeSet<&String> = g.iter().collect();
                if uniq.len() != g.len() || g.iter().any(|s| !valid_name(s)) {
                    hf!("var_names", false, format!("{g:?}"), "pairwise distinct non-empty names without spaces/control characters".to_string());
                }
                let in_supp = |v: usize| (supp_mask >> v) & 1 == 1;
                let mut rest_got = vec![];
                let mut rest_exp = vec![];
                let mut rest_exact = true;
                for v in 0..n as usize {
                    if c.st.v3 || in_supp(v) {
                        if let Some(e) = &nexp.vars[v] {
                            if &g[v] != e {
                                hf!(&format!("var_names[{v}]"), false, format!("{:?} (all: {g:?})", g[v]), format!("{e:?}"));
                            }
                        }
                    } else {
                        rest_got.push(g[v].clone());
                        match &nexp.vars[v] {
                            Some(e) => rest_exp.push(e.clone()),
                            None => rest_exact = false,
                        }
                    }
                }
                if rest_exact {
                    rest_got.sort();
                    rest_exp.sort();
                    if rest_got != rest_exp {
                        hf!("var_names(unused variables, 2.0)", false, format!("{rest_got:?}"), format!("{rest_exp:?} as a multiset"));
                    }
                }
            }
        }
    }

    // ---- import into the same manager ---------------------------------------
    let sv = header.support_var_order().to_vec();
    if sv != supp_order {
        // mapping would violate import's precondition; already reported above
        return out;
    }
    let mut cur = after_header;
    match K::import(&env.mref, &mut cur, &header, &sv) {
        Err(e) => {
            if K::IMPORT_DEMANDED {
                out.v("import_rejects_export", format!("import (same manager) rejects the exported file: {e}; file: {:?}", file_txt()));
            } else {
                out.outcomes.push("import:err(not demanded)".into());
            }
            return out;
        }
        Ok(got) => {
            out.outcomes.push("import:ok".into());
            if got.len() != roots.len() {
                out.v("wrong_root_count", format!("import returned {} handles for {} roots", got.len(), roots.len()));
            } else {
                for (i, (g, o)) in got.iter().zip(&roots).enumerate() {
                    if g != *o {
                        out.v("same_manager_handle_differs", format!("root {i}: imported handle != exported handle (imported table {:?}, exported {:?}); file: {:?}", K::table(g).map(|t| tb_json(&t, K::BOOLEAN)), tb_json(&env.tabs[c.roots[i]], K::BOOLEAN), file_txt()));
                    }
                }
            }
            // the same file delivered by a reader in pieces of 1, 2, 3 and 5 bytes (every position is a
            // refill boundary for the first one): header and handles must be the same
            for chunk in [1usize, 2, 3, 5] {
                let mut rd = ChunkReader { data: &bytes[..], pos: 0, avail: 0, chunk };
                let h2 = match DumpHeader::load(&mut rd) {
                    Ok(h) => h,
                    Err(e) => {
                        out.v("chunked_reader_differs", format!("DumpHeader::load through a reader that delivers {chunk} byte(s) at a time: {e}; file: {:?}", file_txt()));
                        continue;
                    }
                };
                match K::import_dyn(&env.mref, &mut rd, &h2, &sv) {
                    Err(e) => out.v("chunked_reader_differs", format!("import through a reader that delivers {chunk} byte(s) at a time rejects the exported file: {e}; file: {:?}", file_txt())),
                    Ok(g2) => {
                        if g2.len() != got.len() || g2.iter().zip(got.iter()).any(|(a, b)| a != b) {
                            out.v("chunked_reader_differs", format!("import through a reader that delivers {chunk} byte(s) at a time returns other handles than the import from a slice; file: {:?}", file_txt()));
                        }
                    }
                }
                out.outcomes.push("import:chunked".into());
            }
            if deep_audit {
                let mut live: Vec<&K::F> = env.fns.iter().collect();
                live.extend(got.iter());
                let info = K::audit(&env.mref, &live, true);
                if !info.errors.is_empty() {
                    out.v("audit_same_manager", format!("exporting manager fails the audit after import: {}", audit_msg(&info)));
                }
            }
        }
    }

    // ---- import into a fresh manager, order reconstructed from the header -----
    let order2 = match order_from_header(&header) {
        Ok(o) => o,
        Err(e) => {
            out.v("header_inconsistent", e);
            return out;
        }
    };
    {
        let lease = env.pool.borrow_mut().take(&order2);
        let m2 = lease.mref();
        let mut clean = false;
        let mut cur = after_header;
        match K::import(m2, &mut cur, &header, &sv) {
            Err(e) => out.v("import_rejects_export", format!("import (fresh manager, order {order2:?}) rejects the exported file: {e}; file: {:?}", file_txt())),
            Ok(got) => {
                for (i, g) in got.iter().enumerate() {
                    let exp = &env.tabs[c.roots[i]];
                    match K::table(g) {
                        Ok(t) if &t == exp => {}
                        other => out.v("fresh_manager_table_differs", format!("root {i}: fresh-manager import (order {order2:?}) denotes {:?}, exported {:?}; file: {:?}", other.map(|t| tb_json(&t, K::BOOLEAN)), tb_json(exp, K::BOOLEAN), file_txt())),
                    }
                }
                let live: Vec<&K::F> = got.iter().collect();
                let info = K::audit(m2, &live, true);
                if !info.errors.is_empty() {
                    out.v("audit_fresh_manager", format!("fresh manager fails the audit after import: {}", audit_msg(&info)));
                }
                drop(live);
                drop(got);
                K::gc(m2);
                if K::num_inner(m2) != K::baseline(n) {
                    out.v("leak_after_import", format!("fresh manager: {} inner nodes remain after dropping the imported handles and gc (expected {})", K::num_inner(m2), K::baseline(n)));
                } else {
                    clean = info.errors.is_empty();
                }
            }
        }
        env.pool.borrow_mut().give(lease, clean);
    }
    // ---- import under a renaming: i-th support position -> variable i ----------
    {
        let n2 = n + 1;
        let ident: Vec<u32> = (0..n2).collect();
        let lease = env.pool.borrow_mut().take(&ident);
        let m3 = lease.mref();
        let mut clean = false;
        let sv3: Vec<u32> = (0..sv.len() as u32).collect();
        let mut cur = after_header;
        match K::import(m3, &mut cur, &header, &sv3) {
            Err(e) => out.v("import_rejects_export", format!("import (renaming {sv:?} -> {sv3:?}) rejects the exported file: {e}; file: {:?}", file_txt())),
            Ok(got) => {
                for (i, g) in got.iter().enumerate() {
                    let exp = K::remap(&env.tabs[c.roots[i]], &sv, n2);
                    match K::table(g) {
                        Ok(t) if t == exp => {}
                        other => out.v("renamed_import_table_differs", format!("root {i}: import with support_vars {sv3:?} for file positions {sv:?} denotes {:?}, expected {:?}; file: {:?}", other.map(|t| tb_json(&t, K::BOOLEAN)), tb_json(&exp, K::BOOLEAN), file_txt())),
                    }
                }
                let live: Vec<&K::F> = got.iter().collect();
                let info = K::audit(m3, &live, true);
                if !info.errors.is_empty() {
                    out.v("audit_fresh_manager", format!("renaming manager fails the audit after import: {}", audit_msg(&info)));
                }
                drop(live);
                drop(got);
                K::gc(m3);
                if K::num_inner(m3) != K::baseline(n2) {
                    out.v("leak_after_import", format!("renaming manager: {} inner nodes remain after dropping the imported handles and gc (expected {})", K::num_inner(m3), K::baseline(n2)));
                } else {
                    clean = info.errors.is_empty();
                }
            }
        }
        env.pool.borrow_mut().give(lease, clean);
    }
    // ---- import into a larger manager: the support positions -> its last variables, i.e. onto levels
    // ---- that do not exist in the exporting manager ---------------------------------------------------
    if !sv.is_empty() {
        // (at most 6 variables: the Boolean kinds' tables are 64-bit words)
        let n4 = (2 * n).min(6);
        let ident: Vec<u32> = (0..n4).collect();
        let lease = env.pool.borrow_mut().take(&ident);
        let m4 = lease.mref();
        let mut clean = false;
        let sv4: Vec<u32> = (0..sv.len() as u32).map(|i| n4 - sv.len() as u32 + i).collect();
        let mut cur = after_header;
        match K::import(m4, &mut cur, &header, &sv4) {
            Err(e) => out.v("import_rejects_export", format!("import into a manager with {n4} variables (renaming {sv:?} -> {sv4:?}) rejects the exported file: {e}; file: {:?}", file_txt())),
            Ok(got) => {
                for (i, g) in got.iter().enumerate() {
                    let exp = K::remap_to(&env.tabs[c.roots[i]], &sv, &sv4, n4);
                    match K::table(g) {
                        Ok(t) if t == exp => {}
                        other => out.v("renamed_import_table_differs", format!("root {i}: import into a manager with {n4} variables with support_vars {sv4:?} for file positions {sv:?} denotes {:?}, expected {:?}; file: {:?}", other.map(|t| tb_json(&t, K::BOOLEAN)), tb_json(&exp, K::BOOLEAN), file_txt())),
                    }
                }
                let live: Vec<&K::F> = got.iter().collect();
                let info = K::audit(m4, &live, true);
                if !info.errors.is_empty() {
                    out.v("audit_fresh_manager", format!("larger manager fails the audit after import: {}", audit_msg(&info)));
                }
                drop(live);
                drop(got);
                K::gc(m4);
                if K::num_inner(m4) != K::baseline(n4) {
                    out.v("leak_after_import", format!("larger manager: {} inner nodes remain after dropping the imported handles and gc (expected {})", K::num_inner(m4), K::baseline(n4)));
                } else {
                    clean = info.errors.is_empty();
                }
            }
        }
        env.pool.borrow_mut().give(lease, clean);
    }
    out
}

/// run one round-trip case under a panic guard and report; false = the
/// environment was abandoned after a panic
fn exec_case<K: K15>(ctx: &mut Ctx, env: &mut Option<Env<K>>, case: &Case, base_attrs: &BTreeMap<String, String>, deep: bool) -> bool {
    let e = env.as_ref().unwrap();
    let (n, order) = (e.n, e.order.clone());
    let r = ctx.guarded(base_attrs, || case_json::<K>(e, case), || run_case::<K>(e, case, deep));
    ctx.count("evaluations", 1);
    if case.roots.iter().any(|&i| K::support(&e.tabs[i], n) != 0) {
        ctx.count("nontrivial", 1);
    }
    match r {
        None => {
            // the manager may be in an arbitrary state
            // (pooled managers were not in use: a leased one is leaked by `Lease::drop`)
            std::mem::forget(env.take());
            false
        }
        Some(out) => {
            for o in &out.outcomes {
                ctx.outcome(o);
            }
            for (class, msg) in &out.viols {
                let mut a = base_attrs.clone();
                a.insert("class".into(), class.clone());
                if class == "header_field" {
                    // field name = first word after "header field "
                    let f = msg.trim_start_matches("header field ").split(|c: char| c == ':' || c == '[' || c == '(').next().unwrap_or("").to_string();
                    a.insert("field".into(), f);
                }
                ctx.viol(a, case_json::<K>(e, case), &format!("{} n={n} order {}: {msg}", K::NAME, model::order_str(&order)));
            }
            true
        }
    }
}

/// MTBDD manager that holds a single terminal: `binary_supported` is then true
/// and binary mode is chosen unless ASCII is enforced.
fn run_mt_single(ctx: &mut Ctx, n: u32, order: &[u32]) {
    let pool: SharedPool<KMtbdd> = Default::default();
    ctx.group(&format!("roundtrip mtbdd n={n} order {} manager with a single terminal", model::order_str(order)), |ctx| {
        let base_attrs = attrs(&[("kind", "mtbdd"), ("part", "roundtrip"), ("names", "none"), ("manager", "single_terminal")]);
        for val in [0u8, 2, 5] {
            let mut env: Option<Env<KMtbdd>> = None;
            for (xi, &(ascii, v3, strict, rn)) in settings_list().iter().enumerate() {
                if env.is_none() {
                    // (re)created after a panic only; the manager never holds a second terminal
                    let names = vec![String::new(); n as usize];
                    let mref = KMtbdd::manager(&names, order);
                    let tabs = vec![vec![val; 1 << n]];
                    let fns = vec![KMtbdd::build(&mref, &tabs[0])];
                    env = Some(Env::<KMtbdd> { n, order: order.to_vec(), names, mref, tabs, fns, pool: pool.clone() });
                }
                let set = [0usize];
                let root_names = match rn {
                    0 => None,
                    1 => Some(vec!["r0".to_string()]),
                    _ => Some(vec!["b c".to_string()]),
                };
                let case = Case { roots: &set, st: St { ascii, v3, strict, rn, dd: (xi % 3) as u8 }, root_names };
                if !exec_case::<KMtbdd>(ctx, &mut env, &case, &base_attrs, true) {
                    if PANICS.fetch_add(1, std::sync::atomic::Ordering::Relaxed) >= MAX_PANICS {
                        return;
                    }
                }
            }
        }
    });
}

fn root_sets<K: K15>(env_tabs: &[Tb], n: u32, singles_only: bool) -> Vec<Vec<usize>> {
    // env_tabs = universe ++ pairset ++ triple members (indices resolved here)
    let uni = K::universe(n).len();
    let ps = K::pairset(n).len();
    let mut sets: Vec<Vec<usize>> = vec![vec![]];
    for i in 0..uni {
        sets.push(vec![i]);
    }
    if !singles_only {
        for i in 0..ps {
            for j in (i + 1)..ps {
                if (i + j) % 2 == 0 { sets.push(vec![uni + i, uni + j]) } else { sets.push(vec![uni + j, uni + i]) }
            }
        }
    }
    // triples with a repeated and a constant root (pairset entries 0 and 1 are constants where Boolean)
    let p = |k: usize| uni + (k % ps);
    sets.push(vec![p(13), p(13), p(1)]);
    sets.push(vec![p(0), p(14), p(11)]);
    sets.push(vec![p(7), p(1), p(7)]);
    let _ = env_tabs;
    sets
}

fn make_env<K: K15>(n: u32, order: &[u32], names: &[String], pool: &SharedPool<K>) -> Env<K> {
    let mref = K::manager(names, order);
    let mut tabs = K::universe(n);
    tabs.extend(K::pairset(n));
    let fns: Vec<K::F> = tabs.iter().map(|t| K::build(&mref, t)).collect();
    Env { n, order: order.to_vec(), names: names.to_vec(), mref, tabs, fns, pool: pool.clone() }
}

fn run_rt<K: K15>(ctx: &mut Ctx, n: u32, order: &[u32]) {
    let settings = settings_list();
    // importing managers are shared by the groups of a shard (a pooled manager is
    // indistinguishable from a new one: no nodes, audit passed)
    let pool: SharedPool<K> = Default::default();
    for (cfg_name, cfg) in VAR_CFGS.iter() {
        let names: Vec<String> = cfg[..n as usize].iter().map(|s| s.to_string()).collect();
        ctx.group(&format!("roundtrip {} n={n} order {} names {cfg_name}", K::NAME, model::order_str(order)), |ctx| {
            let mut env = Some(make_env::<K>(n, order, &names, &pool));
            // sanity of builder and interpreter (views 1 and 2)
            {
                let e = env.as_ref().unwrap();
                for (t, f) in e.tabs.iter().zip(&e.fns) {
                    if K::table(f).as_ref() != Ok(t) {
                        ctx.viol(attrs(&[("kind", K::NAME), ("part", "roundtrip"), ("class", "harness_build")]), json!({"table": tb_json(t, K::BOOLEAN)}), "table built through reduce/then_insert does not read back");
                        return;
                    }
                }
            }
            let sets = root_sets::<K>(&env.as_ref().unwrap().tabs, n, false);
            let base_attrs = attrs(&[("kind", K::NAME), ("part", "roundtrip"), ("names", cfg_name)]);
            for (si, set) in sets.iter().enumerate() {
                for (xi, &(ascii, v3, strict, rn)) in settings.iter().enumerate() {
                    let st = St { ascii, v3, strict, rn, dd: ((si + xi) % 3) as u8 };
                    let root_names: Option<Vec<String>> = match rn {
                        0 => None,
                        1 => Some((0..set.len()).map(|i| ROOT_GOOD[(i + si) % ROOT_GOOD.len()].to_string()).collect()),
                        _ => Some((0..set.len()).map(|i| ROOT_BAD[(i + si) % ROOT_BAD.len()].to_string()).collect()),
                    };
                    let case = Case { roots: set, st, root_names };
                    let deep = xi == settings.len() - 1 && si % 8 == 0;
                    if !exec_case::<K>(ctx, &mut env, &case, &base_attrs, deep) {
                        return;
                    }
                }
            }
            // final audit: exactly the handles we hold are referenced
            let e = env.as_ref().unwrap();
            let live: Vec<&K::F> = e.fns.iter().collect();
            let info = K::audit(&e.mref, &live, true);
            if !info.errors.is_empty() {
                ctx.viol(
                    attrs(&[("kind", K::NAME), ("part", "roundtrip"), ("class", "audit_final")]),
                    json!({"part": "roundtrip", "kind": K::NAME, "n": n, "order": model::order_str(order), "var_names": names}),
                    &format!("{}: exporting manager fails the audit after all round trips (leaked or lost references): {}", K::NAME, audit_msg(&info)),
                );
            }
            ctx.sample(|| {
                let c = Case { roots: &sets[sets.len() - 1], st: St { ascii: true, v3: true, strict: false, rn: 2, dd: 1 }, root_names: Some(vec!["a".into(), "b c".into(), "".into()]) };
                case_json::<K>(e, &c)
            });
        });
    }
}

// ---------------------------------------------------------------------------
// faults
// ---------------------------------------------------------------------------

struct FileSpec {
    kind: &'static str,
    n: u32,
    order: &'static str,
    cfg: usize,
    roots: Vec<Tb>,
    ascii: bool,
    v3: bool,
    rn: u8,
    dd: u8,
}

fn b3(t: Tab) -> Tb {
    tab_to_tb(t, 3)
}
fn b4(t: Tab) -> Tb {
    tab_to_tb(t, 4)
}

fn file_specs(tier: &str) -> Vec<FileSpec> {
    let mt = |f: &dyn Fn(usize) -> usize, n: u32| -> Tb { (0..(1usize << n)).map(|a| f(a) as u8).collect() };
    let mut v = vec![
        FileSpec { kind: "bdd", n: 3, order: "012", cfg: 0, roots: vec![b3(0xe8), b3(0x96)], ascii: true, v3: false, rn: 0, dd: 0 },
        FileSpec { kind: "bdd", n: 3, order: "201", cfg: 1, roots: vec![b3(0xca), b3(0x88), b3(0xff)], ascii: true, v3: true, rn: 1, dd: 1 },
        FileSpec { kind: "bcdd", n: 3, order: "012", cfg: 0, roots: vec![b3(0x96), b3(0xe8)], ascii: false, v3: false, rn: 0, dd: 0 },
        FileSpec { kind: "bcdd", n: 3, order: "120", cfg: 1, roots: vec![b3(0xca), b3(0x17), b3(0x16)], ascii: false, v3: true, rn: 1, dd: 1 },
        FileSpec { kind: "bcdd", n: 3, order: "021", cfg: 1, roots: vec![b3(0x16), b3(0x33)], ascii: true, v3: false, rn: 0, dd: 0 },
        FileSpec { kind: "bcdd", n: 3, order: "210", cfg: 1, roots: vec![b3(0xa0), b3(0x5f)], ascii: true, v3: true, rn: 1, dd: 0 },
        FileSpec { kind: "zbdd", n: 3, order: "012", cfg: 0, roots: vec![b3(0x16), b3(0x80)], ascii: true, v3: false, rn: 0, dd: 0 },
        FileSpec { kind: "zbdd", n: 3, order: "102", cfg: 1, roots: vec![b3(0xe8), b3(0x01), b3(0x00)], ascii: true, v3: true, rn: 1, dd: 1 },
        FileSpec { kind: "mtbdd", n: 3, order: "012", cfg: 0, roots: vec![mt(&|a| a % 3, 3), mt(&|a| (a & 5) % 4, 3)], ascii: true, v3: false, rn: 0, dd: 0 },
        FileSpec { kind: "mtbdd", n: 3, order: "210", cfg: 1, roots: vec![mt(&|a| [5, 6, 7, 4][a % 4], 3), mt(&|a| (a >> 1) & 1, 3)], ascii: true, v3: true, rn: 1, dd: 1 },
        FileSpec { kind: "bdd", n: 3, order: "012", cfg: 0, roots: vec![], ascii: true, v3: false, rn: 0, dd: 0 },
        FileSpec { kind: "bcdd", n: 3, order: "012", cfg: 0, roots: vec![b3(0x00)], ascii: false, v3: false, rn: 1, dd: 0 },
        // binary, support {0, 2} is a proper subset of the variables
        FileSpec { kind: "bcdd", n: 3, order: "012", cfg: 0, roots: vec![b3(0xa0), b3(0x0f)], ascii: false, v3: false, rn: 0, dd: 0 },
    ];
    if tier == "thorough" {
        v.extend([
            FileSpec { kind: "bdd", n: 4, order: "2031", cfg: 1, roots: vec![b4(0x0ac0), b4(0x3c3c), b4(0xffff)], ascii: true, v3: true, rn: 1, dd: 1 },
            FileSpec { kind: "bcdd", n: 4, order: "3210", cfg: 1, roots: vec![b4(0x6996), b4(0x0ff0), b4(0xa0a0)], ascii: false, v3: true, rn: 1, dd: 0 },
            FileSpec { kind: "bcdd", n: 4, order: "0123", cfg: 0, roots: vec![b4(0xfee8), b4(0x5050)], ascii: false, v3: false, rn: 0, dd: 0 },
            FileSpec { kind: "bcdd", n: 4, order: "1302", cfg: 1, roots: vec![b4(0x5a5a), b4(0x1ee1)], ascii: true, v3: false, rn: 0, dd: 0 },
            FileSpec { kind: "zbdd", n: 4, order: "2031", cfg: 1, roots: vec![b4(0x0116), b4(0x8000), b4(0x0001)], ascii: true, v3: true, rn: 1, dd: 0 },
            FileSpec { kind: "mtbdd", n: 4, order: "3210", cfg: 1, roots: vec![mt(&|a| (a & 10) % 8, 4), mt(&|a| (a & 3) % 3, 4)], ascii: true, v3: false, rn: 1, dd: 1 },
        ]);
    }
    v
}

fn spec_json(s: &FileSpec, idx: usize) -> Value {
    json!({"file": idx, "kind": s.kind, "n": s.n, "order": s.order, "var_names": VAR_CFGS[s.cfg].1[..s.n as usize], "roots": s.roots, "ascii": s.ascii,
           "version": if s.v3 { "3.0" } else { "2.0" }, "root_names": s.rn, "diagram_name": DD_NAMES[s.dd as usize]})
}

fn gen_file<K: K15>(s: &FileSpec) -> Result<Vec<u8>, String> {
    let order = model::parse_order(s.order);
    let names: Vec<String> = VAR_CFGS[s.cfg].1[..s.n as usize].iter().map(|x| x.to_string()).collect();
    let mref = K::manager(&names, &order);
    let fns: Vec<K::F> = s.roots.iter().map(|t| K::build(&mref, t)).collect();
    let st = St { ascii: s.ascii, v3: s.v3, strict: true, rn: s.rn, dd: s.dd };
    let rn: Option<Vec<String>> = if s.rn == 0 { None } else { Some((0..fns.len()).map(|i| ROOT_GOOD[i % 4].to_string()).collect()) };
    let (bytes, res) = K::export(&mref, &export_settings(&st), &fns.iter().collect::<Vec<_>>(), rn.as_deref());
    res.map_err(|e| format!("export of the base file failed: {e}"))?;
    Ok(bytes)
}

#[derive(Debug, PartialEq, Clone)]
enum MutOut {
    LoadErr,
    Skipped(String),
    ImportErr,
    ImportOk(Vec<Tb>),
    /// violations found while handling the mutant
    Bad(Vec<(String, String)>),
}

/// import `bytes` into a fresh manager; returns None after a panic
fn import_mutant<K: K15>(ctx: &mut Ctx, pool: &mut Pool<K>, a: &BTreeMap<String, String>, case: &dyn Fn() -> Value, bytes: &[u8]) -> Option<MutOut> {
    let mut cur: &[u8] = bytes;
    let header = match ctx.guarded(a, case, || DumpHeader::load(&mut cur))? {
        Ok(h) => h,
        Err(_) => return Some(MutOut::LoadErr),
    };
    if header.num_vars() > 64 {
        return Some(MutOut::Skipped("more than 64 variables".into()));
    }
    let order = match order_from_header(&header) {
        Ok(o) => o,
        Err(e) => return Some(MutOut::Bad(vec![("header_inconsistent".into(), format!("DumpHeader::load accepted the file but {e}"))])),
    };
    let nvars = order.len() as u32;
    let mut lease = pool.take(&order);
    let mref = lease.mref();
    let sv = header.support_var_order().to_vec();
    let r = ctx.guarded(a, case, || {
        let mut bad = vec![];
        let mut c2 = cur;
        match K::import(mref, &mut c2, &header, &sv) {
            Ok(fs) => {
                let live: Vec<&K::F> = fs.iter().collect();
                let info = K::audit(mref, &live, true);
                if !info.errors.is_empty() {
                    bad.push(("audit_after_ok".to_string(), format!("import returned Ok but the manager fails the audit: {}", audit_msg(&info))));
                }
                if fs.len() != header.num_roots() {
                    bad.push(("wrong_root_count".to_string(), format!("import returned {} handles, header.num_roots() = {}", fs.len(), header.num_roots())));
                }
                let mut tabs = vec![];
                if nvars <= 6 {
                    for (i, f) in fs.iter().enumerate() {
                        match K::table(f) {
                            Ok(t) => tabs.push(t),
                            Err(e) => bad.push(("malformed_result".to_string(), format!("import returned Ok but root {i} is not a well-formed diagram: {e}"))),
                        }
                    }
                }
                drop(live);
                drop(fs);
                K::gc(mref);
                if K::num_inner(mref) != K::baseline(nvars) {
                    bad.push(("leak_after_ok".to_string(), format!("{} inner nodes remain after dropping the returned handles and gc (expected {})", K::num_inner(mref), K::baseline(nvars))));
                }
                if bad.is_empty() { MutOut::ImportOk(tabs) } else { MutOut::Bad(bad) }
            }
            Err(_) => {
                let info = K::audit(mref, &[], true);
                if !info.errors.is_empty() {
                    bad.push(("leak_after_err".to_string(), format!("import returned Err and left references behind: {}", audit_msg(&info))));
                }
                K::gc(mref);
                if K::num_inner(mref) != K::baseline(nvars) {
                    bad.push(("leak_after_err".to_string(), format!("import returned Err; {} inner nodes remain after gc (expected {})", K::num_inner(mref), K::baseline(nvars))));
                }
                if bad.is_empty() { MutOut::ImportErr } else { MutOut::Bad(bad) }
            }
        }
    });
    match &r {
        None => std::mem::forget(lease.m.take()),
        Some(MutOut::ImportOk(_)) | Some(MutOut::ImportErr) => pool.give(lease, true),
        Some(_) => pool.give(lease, false),
    }
    r
}

const ALPHABET: [u8; 11] = [0x00, b'\n', b' ', b'0', b'9', b'-', b'.', b'A', b'B', 0x7f, 0xff];
const FAULT_GROUPS: usize = 6;
/// caught panics per worker process (each one leaks a manager with its two threads)
const MAX_PANICS: u64 = 100;
static PANICS: std::sync::atomic::AtomicU64 = std::sync::atomic::AtomicU64::new(0);

fn hex(b: &[u8]) -> String {
    b.iter().map(|x| format!("{x:02x}")).collect()
}

fn run_fault<K: K15>(ctx: &mut Ctx, idx: usize, spec: &FileSpec, part: &str) {
    let thorough = ctx.thorough();
    let shard_pool: SharedPool<K> = Default::default();
    for g in 0..FAULT_GROUPS {
        ctx.group(&format!("fault file {idx} ({} {}) {part} #{g}", spec.kind, if spec.ascii { "ascii" } else { "binary" }), |ctx| {
            let base = attrs(&[("kind", K::NAME), ("part", "fault")]);
            let mut pool_guard = shard_pool.borrow_mut();
            let pool: &mut Pool<K> = &mut pool_guard;
            let orig = match gen_file::<K>(spec) {
                Ok(b) => b,
                Err(e) => {
                    // reported by the round-trip part; nothing to mutate
                    ctx.outcome(&format!("base file unavailable: {e}"));
                    return;
                }
            };
            let sj = spec_json(spec, idx);
            let orig_case = || json!({"part": "fault", "spec": sj, "mutation": "none", "file_hex": hex(&orig)});
            let expected: Vec<Tb> = spec.roots.clone();
            match import_mutant::<K>(ctx, pool, &base, &orig_case, &orig) {
                Some(MutOut::ImportOk(t)) if t == expected => {}
                other => {
                    let mut a = base.clone();
                    a.insert("class".into(), "base_file_rejected".into());
                    ctx.viol(a, orig_case(), &format!("{}: the unmodified exported file does not import to the exported functions: {other:?}; file {:?}", K::NAME, String::from_utf8_lossy(&orig)));
                    return;
                }
            }
            let node_start: usize = my_header(&orig).ok().and_then(|h| h.get(".nodes@").and_then(|s| s.parse().ok())).unwrap_or(orig.len());
            let trailing_ws = orig.iter().rev().take_while(|b| b.is_ascii_whitespace()).count();
            let len = orig.len();
            // mutants of this part: (description, bytes, must_be_err)
            let in_group = |pos: usize| pos * FAULT_GROUPS / len.max(1) == g;
            let mut run_one = |ctx: &mut Ctx, desc: Value, bytes: Vec<u8>, must_err: bool, ws_only: bool| {
                if PANICS.load(std::sync::atomic::Ordering::Relaxed) >= MAX_PANICS {
                    ctx.count("skipped_after_panics", 1);
                    return;
                }
                let sj2 = &sj;
                let case = || json!({"part": "fault", "spec": sj2, "mutation": desc, "file_hex": hex(&bytes)});
                ctx.count("evaluations", 1);
                ctx.count("nontrivial", 1);
                let r = import_mutant::<K>(ctx, pool, &base, &case, &bytes);
                let v = |class: &str, msg: String, ctx: &mut Ctx| {
                    let mut a = base.clone();
                    a.insert("class".into(), class.into());
                    a.insert("mode".into(), if spec.ascii { "ascii".into() } else { "binary".into() });
                    ctx.viol(a, case(), &format!("{} file {idx}, mutation {desc}: {msg}", K::NAME));
                };
                match r {
                    None => {
                        PANICS.fetch_add(1, std::sync::atomic::Ordering::Relaxed);
                        ctx.outcome("panic");
                    }
                    Some(MutOut::LoadErr) => ctx.outcome("load_err"),
                    Some(MutOut::ImportErr) => ctx.outcome("import_err"),
                    Some(MutOut::Skipped(s)) => ctx.outcome(&format!("skipped: {s}")),
                    Some(MutOut::Bad(list)) => {
                        ctx.outcome("bad");
                        for (c, m) in list {
                            v(&c, m, ctx);
                        }
                    }
                    Some(MutOut::ImportOk(t)) => {
                        if must_err {
                            v("truncated_accepted", format!("a file truncated inside its content is accepted (tables {t:?})"), ctx);
                        } else if ws_only && t != expected {
                            v("wrong_value", format!("file without its trailing whitespace imports to {t:?}, expected {expected:?}"), ctx);
                        }
                        ctx.outcome(if t == expected { "ok_same" } else { "ok_other" });
                    }
                }
            };
            match part {
                "pre" => {
                    for cut in 0..len {
                        if !in_group(cut) {
                            continue;
                        }
                        let must_err = cut < len - trailing_ws;
                        run_one(ctx, json!({"prefix": cut}), orig[..cut].to_vec(), must_err, !must_err);
                    }
                }
                "bin" => {
                    // binary node section: all 256 values on the first 64 node bytes
                    let end = (node_start + 64).min(len);
                    for pos in node_start..end {
                        if (pos - node_start) * FAULT_GROUPS / (end - node_start).max(1) != g {
                            continue;
                        }
                        for b in 0..=255u8 {
                            if orig[pos] == b {
                                continue;
                            }
                            let mut m = orig.clone();
                            m[pos] = b;
                            run_one(ctx, json!({"pos": pos, "byte": b}), m, false, false);
                        }
                    }
                }
                _ => {
                    // "subK": positions with pos % 4 == K
                    let k: usize = part.trim_start_matches("sub").parse().unwrap();
                    for pos in 0..len {
                        if pos % 4 != k || !in_group(pos) {
                            continue;
                        }
                        let bytes_iter: Vec<u8> = if thorough { (0..=255).collect() } else { ALPHABET.to_vec() };
                        for b in bytes_iter {
                            if orig[pos] == b {
                                continue;
                            }
                            let mut m = orig.clone();
                            m[pos] = b;
                            run_one(ctx, json!({"pos": pos, "byte": b}), m, false, false);
                        }
                    }
                }
            }
            ctx.sample(|| json!({"part": "fault", "spec": sj, "mutation": {"prefix": len / 2}, "file": String::from_utf8_lossy(&orig)}));
        });
    }
}

/// hand-made headers with counts that do not fit (outside the substitution
/// alphabet: a digit string is inserted)
fn run_hand(ctx: &mut Ctx) {
    let specs = file_specs("quick");
    let cases: [(&str, &str, &str); 4] = [
        ("nnodes_usize_max", ".nnodes ", "18446744073709551615"),
        ("nroots_usize_max", ".nroots ", "18446744073709551615"),
        ("nnodes_2pow62", ".nnodes ", "4611686018427387904"),
        ("nsuppvars_u32_max", ".nsuppvars ", "4294967295"),
    ];
    for (name, key, val) in cases {
        for (idx, fi) in [(0usize, "ascii"), (2usize, "binary")] {
            ctx.group(&format!("hand {name} {fi}"), |ctx| {
                let spec = &specs[idx];
                let orig = match if idx == 0 { gen_file::<KBdd>(spec) } else { gen_file::<KBcdd>(spec) } {
                    Ok(b) => b,
                    Err(_) => return,
                };
                let txt = orig.clone();
                let Some(p) = txt.windows(key.len()).position(|w| w == key.as_bytes()) else {
                    return;
                };
                let eol = p + txt[p..].iter().position(|&b| b == b'\n').unwrap();
                let mut m = txt[..p + key.len()].to_vec();
                m.extend_from_slice(val.as_bytes());
                m.extend_from_slice(&txt[eol..]);
                let base = attrs(&[("kind", spec.kind), ("part", "fault"), ("mutation", name)]);
                let sj = spec_json(spec, idx);
                let case = || json!({"part": "fault", "spec": sj, "mutation": {"replace_value_of": key, "with": val}, "file_hex": hex(&m)});
                ctx.count("evaluations", 1);
                ctx.count("nontrivial", 1);
                let r = if idx == 0 { import_mutant::<KBdd>(ctx, &mut Pool::new(), &base, &case, &m) } else { import_mutant::<KBcdd>(ctx, &mut Pool::new(), &base, &case, &m) };
                match r {
                    None => ctx.outcome("panic"),
                    Some(MutOut::Bad(list)) => {
                        for (c, msg) in list {
                            let mut a = base.clone();
                            a.insert("class".into(), c);
                            ctx.viol(a, case(), &msg);
                        }
                    }
                    Some(MutOut::ImportOk(t)) => {
                        let mut a = base.clone();
                        a.insert("class".into(), "oversized_count_accepted".into());
                        ctx.viol(a, case(), &format!("file with {key}{val} is accepted ({t:?})"));
                    }
                    Some(o) => ctx.outcome(&format!("{o:?}")),
                }
            });
        }
    }
}

// ---------------------------------------------------------------------------
// shards
// ---------------------------------------------------------------------------

pub fn shards(tier: &str) -> Vec<String> {
    let mut v = vec![];
    for k in ["bdd", "bcdd", "zbdd", "mtbdd"] {
        for o in model::perms(3) {
            v.push(format!("rt:{k}:3:{}", model::order_str(&o)));
        }
    }
    for o in ["01", "10"] {
        v.push(format!("rt:tdd:2:{o}"));
    }
    if tier == "thorough" {
        for k in ["bdd", "bcdd", "zbdd", "mtbdd"] {
            for o in ["0123", "3210", "2031", "1302"] {
                v.push(format!("rt:{k}:4:{o}"));
            }
        }
        v.push("rt:tdd:3:201".into());
    }
    for (i, s) in file_specs(tier).iter().enumerate() {
        for p in ["pre", "sub0", "sub1", "sub2", "sub3"] {
            v.push(format!("fault:{i}:{p}"));
        }
        if !s.ascii {
            v.push(format!("fault:{i}:bin"));
        }
    }
    v.push("hand".into());
    v.extend(super::c15x::shards_extra(tier));
    v
}

pub fn run(ctx: &mut Ctx) {
    if ctx.shard.starts_with("x:") {
        return super::c15x::run_extra(ctx);
    }
    // Every manager owns a worker and a gc thread; the default worker stack is 1 GiB of address
    // space. The diagrams here have at most a few dozen nodes, so a small stack is ample, and many
    // managers can be created per second. (Set before any manager exists; single-threaded here.)
    if std::env::var_os("OXIDD_STACK_SIZE").is_none() {
        unsafe { std::env::set_var("OXIDD_STACK_SIZE", (8usize << 20).to_string()) };
    }
    let shard = ctx.shard.clone();
    let parts: Vec<&str> = shard.split(':').collect();
    match parts[0] {
        "rt" => {
            let n: u32 = parts[2].parse().unwrap();
            let order = model::parse_order(parts[3]);
            match parts[1] {
                "bdd" => run_rt::<KBdd>(ctx, n, &order),
                "bcdd" => run_rt::<KBcdd>(ctx, n, &order),
                "zbdd" => run_rt::<KZbdd>(ctx, n, &order),
                "mtbdd" => {
                    run_rt::<KMtbdd>(ctx, n, &order);
                    run_mt_single(ctx, n, &order);
                }
                "tdd" => run_rt::<KTdd>(ctx, n, &order),
                k => panic!("bad kind {k}"),
            }
        }
        "fault" => {
            let idx: usize = parts[1].parse().unwrap();
            let specs = file_specs(&ctx.tier.clone());
            let spec = &specs[idx];
            match spec.kind {
                "bdd" => run_fault::<KBdd>(ctx, idx, spec, parts[2]),
                "bcdd" => run_fault::<KBcdd>(ctx, idx, spec, parts[2]),
                "zbdd" => run_fault::<KZbdd>(ctx, idx, spec, parts[2]),
                "mtbdd" => run_fault::<KMtbdd>(ctx, idx, spec, parts[2]),
                k => panic!("bad kind {k}"),
            }
        }
        "hand" => run_hand(ctx),
        p => panic!("bad shard {p}"),
    }
}

/// a reader that hands out the data in pieces of at most `chunk` bytes (a partially consumed piece
/// is offered again, like `BufReader`)
struct ChunkReader<'a> {
    data: &'a [u8],
    pos: usize,
    avail: usize,
    chunk: usize,
}

impl io::Read for ChunkReader<'_> {
    fn read(&mut self, buf: &mut [u8]) -> io::Result<usize> {
        let src = io::BufRead::fill_buf(self)?;
        let n = src.len().min(buf.len());
        buf[..n].copy_from_slice(&src[..n]);
        io::BufRead::consume(self, n);
        Ok(n)
    }
}

impl io::BufRead for ChunkReader<'_> {
    fn fill_buf(&mut self) -> io::Result<&[u8]> {
        if self.avail == 0 {
            self.avail = self.chunk.min(self.data.len() - self.pos);
        }
        Ok(&self.data[self.pos..self.pos + self.avail])
    }
    fn consume(&mut self, n: usize) {
        let n = n.min(self.avail);
        self.pos += n;
        self.avail -= n;
    }
}
