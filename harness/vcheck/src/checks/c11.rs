//! C11 — TDD operations are the pointwise lifting of one fixed three-valued
//! logic. E-INPUT: every operand tuple over the 27 one-variable functions;
//! for two variables (both orders) all 3^9 = 19683 functions for the unary
//! operations / eval / cofactors, all of them against a 60-function
//! representative set for the 8 binary connectives (thorough: all 19683^2
//! ordered pairs), and ite over all triples of the 60-function set (thorough:
//! plus a sweep of every function through each ite position against all
//! pairs of a 30-function set).
//!
//! Oracle: `tdd::m3` (literal truth tables typed in from the statement);
//! results are read back by the harness's own interpreter over
//! `Manager::get_node`; `eval` is compared against that interpreter.

use std::collections::BTreeMap;

use oxidd::TVLFunction;
use oxidd_core::util::AllocResult;
use serde_json::{Value, json};

use crate::driver::Meta;
use crate::model;
use crate::proto::{Ctx, attrs};
use crate::tdd::m3::{self, F, OPS3, Op3, T, Tab3, U, Val};
use crate::tdd::{self, TddF, TddRef};

pub fn meta() -> Meta {
    Meta {
        level: "exploration",
        rule: "exhaustive enumeration of operand tuples of TDD functions. n=1 (threads 1 and 2): all 27 functions for build/not/eval(3 assignments, omitted argument)/cofactors, all 27^2 ordered pairs for each of the 8 binary connectives (once per connective in its own manager, once with all connectives interleaved in one manager), all 27^3 triples for ite, constants f/t/u and var under all assignments. n=2, both variable orders: all 19683 functions for build/not/eval(9 assignments, both argument orders, duplicate arguments, omitted arguments)/cofactors; the 8 binary connectives, interleaved in one manager with a rotating operator order, quick: on (f,g), (g,f), (f,f) for every f of all 19683 functions and every g of a 60-function representative set (constants, 10 one-variable shapes per variable, all connectives of the two literals, mixed and irregular tables), thorough: on all 19683^2 ordered pairs; ite on all triples of the 60-set, thorough adds every one of the 19683 functions in each ite position against all ordered pairs of a 30-function subset of the 60-set. A case is non-trivial when all operands are non-constant and pairwise distinct (no terminal/equality shortcut at the root); the enumerated tuples of one configuration (n, order) are distinct, plus one 40-variable manager on which every variable and every pair of variables under the 8 connectives is evaluated at all value combinations (three background patterns for the other variables, arguments ascending and descending), except that n=1 pairs are run in two groups (per connective, interleaved) and n=1 is run with threads 1 and 2.",
        assumptions: vec![
            "operands are built through DiagramRules::reduce + then_insert with children in the documented order (true, unknown, false), not through the operators under test".into(),
            "results are read back by the harness's own interpreter over Manager::get_node; eval is compared against it separately".into(),
            "eval with an omitted variable is outside the property statement; a deviation from the documentation ('unknown is used as the decision value') is only recorded as an observed outcome".into(),
            "TDD has no multi-threaded apply variant; threads in {1,2} only changes the worker pool of the manager".into(),
            "index-based backend here; the pointer backend is exercised by C20".into(),
            "quick tier: n=2 binary connectives are enumerated against a 60-function representative set; the thorough tier enumerates all 19683^2 ordered pairs".into(),
            "ite for n=2 is enumerated over sets (60^3 triples, thorough: + 19683 x 30 x 30 x 3 positions), not all 19683^3 triples".into(),
        ],
        hang_is_violation: false,
        shard_timeout: (300, 3600),
    }
}

const UN_PARTS: u32 = 3;
const ORDERS2: [&str; 2] = ["01", "10"];

fn bin_parts(tier: &str) -> u32 {
    if tier == "thorough" { 32 } else { 8 }
}
fn ite_parts(tier: &str) -> u32 {
    if tier == "thorough" { 4 } else { 2 }
}

pub fn shards(tier: &str) -> Vec<String> {
    let mut v = vec!["n1:0:t1:all:0".to_string(), "n1:0:t2:all:0".to_string()];
    // eval on a manager with 40 variables (more levels than one word of packed choices holds)
    v.push("n40:0:t1:wide:0".to_string());
    for o in ORDERS2 {
        for p in 0..UN_PARTS {
            v.push(format!("n2:{o}:t{}:un:{p}", 1 + p % 2));
        }
        for p in 0..bin_parts(tier) {
            v.push(format!("n2:{o}:t{}:bin:{p}", 1 + p % 2));
        }
        for p in 0..ite_parts(tier) {
            v.push(format!("n2:{o}:t{}:ite:{p}", 1 + p % 2));
        }
    }
    v
}

#[derive(Clone)]
struct Cfg {
    n: u32,
    order: Vec<u32>,
    threads: u32,
}

impl Cfg {
    fn ostr(&self) -> String {
        model::order_str(&self.order)
    }
    fn fresh(&self, cache: usize) -> TddRef {
        tdd::fresh(self.n, &self.order, 1 << 16, cache, self.threads)
    }
}

pub fn run(ctx: &mut Ctx) {
    let complaints = m3::selfcheck();
    if !complaints.is_empty() {
        eprintln!("harness: three-valued reference tables are inconsistent: {complaints:?}");
        std::process::exit(2);
    }
    let shard = ctx.shard.clone();
    let p: Vec<&str> = shard.split(':').collect();
    assert!(p.len() == 5, "bad shard {shard}");
    let n: u32 = p[0].trim_start_matches('n').parse().unwrap();
    let order = model::parse_order(p[1]);
    let threads: u32 = p[2].trim_start_matches('t').parse().unwrap();
    let part: u32 = p[4].parse().unwrap();
    let cfg = Cfg { n, order, threads };
    match (n, p[3]) {
        (40, "wide") => run_wide(ctx, 40),
        (1, "all") => run_n1(ctx, &cfg),
        (2, "un") => run_unary(ctx, &cfg, part, UN_PARTS),
        (2, "bin") => run_binary(ctx, &cfg, part),
        (2, "ite") => run_ite(ctx, &cfg, part),
        _ => panic!("bad shard {shard}"),
    }
}

// ---------------------------------------------------------------------------
// bookkeeping
// ---------------------------------------------------------------------------

#[derive(Default)]
struct Tally {
    evals: u64,
    nontrivial: u64,
    /// results by root shape: F, U, T, inner node
    res_shape: [u64; 4],
    eval_vals: [u64; 3],
}

impl Tally {
    fn flush(&mut self, ctx: &mut Ctx) {
        ctx.count("evaluations", self.evals);
        ctx.count("nontrivial", self.nontrivial);
        for (i, l) in ["result=F", "result=U", "result=T", "result=inner"].iter().enumerate() {
            if self.res_shape[i] > 0 {
                ctx.outcome(l);
            }
        }
        for (i, l) in ["eval=false", "eval=unknown", "eval=true"].iter().enumerate() {
            if self.eval_vals[i] > 0 {
                ctx.outcome(l);
            }
        }
        *self = Tally::default();
    }
}

fn const_of(t: Tab3, n: u32) -> Option<Val> {
    let top = m3::nfun(n) - 1;
    if t == 0 {
        Some(F)
    } else if t == top / 2 {
        Some(U)
    } else if t == top {
        Some(T)
    } else {
        None
    }
}

fn nontrivial(ops: &[Tab3], n: u32) -> bool {
    for (i, &a) in ops.iter().enumerate() {
        if const_of(a, n).is_some() || ops[..i].contains(&a) {
            return false;
        }
    }
    true
}

/// operand shape for the root-cause attributes: terminal value or 'x' (inner node)
fn shape(ops: &[Tab3], n: u32) -> String {
    ops.iter()
        .map(|&t| match const_of(t, n) {
            Some(v) => m3::val_char(v).to_string(),
            None => "x".to_string(),
        })
        .collect::<Vec<_>>()
        .join(",")
}

const ENCODING: &str = "a table lists f(a) for a = 0,1,.. with a = value(x0) + 3*value(x1), values F=0 U=1 T=2; '|' separates the rows x1=F, x1=U, x1=T; code = sum f(a)*3^a";

fn case(cfg: &Cfg, op: &str, operands: &[Tab3], expected: &str, got: &str) -> Value {
    json!({
        "kind": "tdd", "n": cfg.n, "order": cfg.ostr(), "threads": cfg.threads, "op": op,
        "operands": operands,
        "operand_tables": operands.iter().map(|&t| m3::tab_str(t, cfg.n)).collect::<Vec<_>>(),
        "expected": expected, "got": got, "encoding": ENCODING,
    })
}

/// case of an evaluation under the total assignment `a`
fn case_at(cfg: &Cfg, op: &str, operands: &[Tab3], a: usize, expected: &str, got: &str) -> Value {
    let mut c = case(cfg, op, operands, expected, got);
    c["assignment"] = json!(a);
    c["assignment_values"] = json!(assignment_str(a, cfg.n));
    c
}

fn viol_attrs(op: &str, class: &str, shape: &str) -> BTreeMap<String, String> {
    let mut a = attrs(&[("kind", "tdd"), ("op", op), ("class", class)]);
    if !shape.is_empty() {
        a.insert("shape".into(), shape.into());
    }
    a
}

/// compare a result handle with the model table
fn check_result(ctx: &mut Ctx, tl: &mut Tally, cfg: &Cfg, op: &str, operands: &[Tab3], expected: Tab3, res: AllocResult<TddF>) {
    let n = cfg.n;
    tl.evals += 1;
    if nontrivial(operands, n) {
        tl.nontrivial += 1;
    }
    match res {
        Err(_) => ctx.viol(
            viol_attrs(op, "unexpected_oom", &shape(operands, n)),
            case(cfg, op, operands, &m3::tab_str(expected, n), "OutOfMemory"),
            &format!("tdd {op}{operands:?}: OutOfMemory on a manager with ample capacity"),
        ),
        Ok(h) => match tdd::table(&h) {
            Err(e) => ctx.viol(
                viol_attrs(op, "malformed", &shape(operands, n)),
                case(cfg, op, operands, &m3::tab_str(expected, n), &e),
                &format!("tdd {op}{operands:?}: result diagram malformed: {e}"),
            ),
            Ok(t) => {
                tl.res_shape[match const_of(t, n) {
                    Some(v) => v as usize,
                    None => 3,
                }] += 1;
                if t != expected {
                    let ops: Vec<String> = operands.iter().map(|&o| m3::tab_str(o, n)).collect();
                    ctx.viol(
                        viol_attrs(op, "wrong_value", &shape(operands, n)),
                        case(cfg, op, operands, &m3::tab_str(expected, n), &m3::tab_str(t, n)),
                        &format!(
                            "tdd n={n} order {} {op}({}): expected table {}, got {}",
                            cfg.ostr(),
                            ops.join(", "),
                            m3::tab_str(expected, n),
                            m3::tab_str(t, n)
                        ),
                    );
                }
            }
        },
    }
}

fn audit_group(ctx: &mut Ctx, cfg: &Cfg, mref: &TddRef, live: &[&TddF], what: &str) {
    let info = tdd::audit(mref, live, true);
    ctx.count("evaluations", 1);
    if !info.errors.is_empty() {
        ctx.viol(
            viol_attrs("audit", "structure", ""),
            json!({"kind": "tdd", "n": cfg.n, "order": cfg.ostr(), "threads": cfg.threads, "after": what, "errors": info.errors}),
            &format!("tdd structural audit after {what}: {}", info.errors.join("; ")),
        );
    }
}

// ---------------------------------------------------------------------------
// per-function checks: build, eval, cofactors, not
// ---------------------------------------------------------------------------

/// all non-empty proper-or-full subsets of omitted variables, as masks
fn eval_checks(ctx: &mut Ctx, tl: &mut Tally, cfg: &Cfg, t: Tab3, f: &TddF, interp: Tab3) {
    let n = cfg.n;
    let npts = m3::npts(n);
    // total assignments: library eval vs. interpreter (and thereby the model)
    for a in 0..npts {
        let exp = m3::at(interp, a);
        let got = tdd::eval_total(f, a, n);
        tl.evals += 1;
        tl.eval_vals[got as usize] += 1;
        if got != exp {
            ctx.viol(
                viol_attrs("eval", "wrong_value", &shape(&[t], n)),
                case_at(cfg, "eval", &[t], a, &m3::val_char(exp).to_string(), &m3::val_char(got).to_string()),
                &format!("tdd n={n} order {}: eval of {} under assignment a={a} ({}) = {}, interpreter/model say {}",
                    cfg.ostr(), m3::tab_str(t, n), assignment_str(a, n), m3::val_char(got), m3::val_char(exp)),
            );
        }
        if n >= 2 {
            // argument order is irrelevant
            let got_r = m3::opt_val(f.eval((0..n).rev().map(|v| (v, m3::val_opt(m3::val_of(a, v))))));
            // a value given several times: the last one counts
            let got_d = m3::opt_val(f.eval(
                (0..n).map(|v| (v, m3::val_opt((m3::val_of(a, v) + 1) % 3))).chain((0..n).map(|v| (v, m3::val_opt(m3::val_of(a, v))))),
            ));
            tl.evals += 2;
            for (label, g) in [("eval_reversed_args", got_r), ("eval_duplicate_args", got_d)] {
                if g != exp {
                    ctx.viol(
                        viol_attrs(label, "wrong_value", &shape(&[t], n)),
                        case_at(cfg, label, &[t], a, &m3::val_char(exp).to_string(), &m3::val_char(g).to_string()),
                        &format!("tdd n={n} order {}: {label} of {} under a={a} ({}) = {}, expected {}",
                            cfg.ostr(), m3::tab_str(t, n), assignment_str(a, n), m3::val_char(g), m3::val_char(exp)),
                    );
                }
            }
        }
    }
    // omitted variables: documented to be treated as unknown
    for omit in 1u32..(1 << n) {
        for a in 0..npts {
            // canonical representative: omitted variables are U in `a`
            if (0..n).any(|v| (omit >> v) & 1 == 1 && m3::val_of(a, v) != U) {
                continue;
            }
            let exp = m3::at(interp, a);
            let got = m3::opt_val(f.eval((0..n).filter(|v| (omit >> v) & 1 == 0).map(|v| (v, m3::val_opt(m3::val_of(a, v))))));
            tl.evals += 1;
            if got != exp {
                // Outside the statement of C11 (which speaks about assignments of all
                // variables): the documentation of `TVLFunction::eval` says an omitted
                // variable is decided as unknown, the implementation takes the true child
                // (the BDD `eval` has the same doc/implementation mismatch). Recorded as an
                // observed outcome, not as a violation.
                ctx.outcome("doc_deviation:eval_with_omitted_variable_takes_true_child");
            } else {
                ctx.outcome("eval_with_omitted_variable_as_documented");
            }
        }
    }
}

fn assignment_str(a: usize, n: u32) -> String {
    (0..n).map(|v| format!("x{v}={}", m3::val_char(m3::val_of(a, v)))).collect::<Vec<_>>().join(",")
}

fn cofactor_checks(ctx: &mut Ctx, tl: &mut Tally, cfg: &Cfg, t: Tab3, f: &TddF) {
    let n = cfg.n;
    let tv = m3::top_var(t, n, &cfg.order);
    let cof = f.cofactors();
    let singles = [f.cofactor_true(), f.cofactor_unknown(), f.cofactor_false()];
    tl.evals += 1;
    match (tv, cof) {
        (None, None) => {
            if singles.iter().any(|s| s.is_some()) {
                ctx.viol(
                    viol_attrs("cofactors", "some_on_terminal", &shape(&[t], n)),
                    case(cfg, "cofactor_true/unknown/false", &[t], "None", "Some"),
                    &format!("tdd cofactor_true/unknown/false of the terminal {} is Some", m3::tab_str(t, n)),
                );
            }
        }
        (Some(v), Some((ht, hu, hf))) => {
            tl.nontrivial += 1;
            let exp = [m3::cofactor(t, v, T, n), m3::cofactor(t, v, U, n), m3::cofactor(t, v, F, n)];
            let got = [tdd::table(&ht), tdd::table(&hu), tdd::table(&hf)];
            let got1: Vec<Option<Result<Tab3, String>>> = singles.iter().map(|s| s.as_ref().map(tdd::table)).collect();
            let ok = (0..3).all(|i| got[i] == Ok(exp[i]) && got1[i] == Some(Ok(exp[i])));
            if !ok {
                let es: Vec<String> = exp.iter().map(|&e| m3::tab_str(e, n)).collect();
                let show = |r: &Result<Tab3, String>| match r {
                    Ok(x) => m3::tab_str(*x, n),
                    Err(e) => format!("<{e}>"),
                };
                let gs: Vec<String> = got.iter().map(show).collect();
                let g1: Vec<String> = got1.iter().map(|o| o.as_ref().map(show).unwrap_or_else(|| "None".into())).collect();
                ctx.viol(
                    viol_attrs("cofactors", "wrong_value", &shape(&[t], n)),
                    case(cfg, "cofactors", &[t], &es.join(" ; "), &format!("cofactors(): {} / cofactor_true,unknown,false: {}", gs.join(" ; "), g1.join(" ; "))),
                    &format!("tdd n={n} order {}: cofactors of {} w.r.t. the top variable x{v}: expected (true, unknown, false) = ({}), got cofactors() = ({}), single = ({})",
                        cfg.ostr(), m3::tab_str(t, n), es.join(", "), gs.join(", "), g1.join(", ")),
                );
            }
        }
        (tv, cof) => ctx.viol(
            viol_attrs("cofactors", "none_some_mismatch", &shape(&[t], n)),
            case(cfg, "cofactors", &[t], &format!("is_some = {}", tv.is_some()), &format!("is_some = {}", cof.is_some())),
            &format!("tdd cofactors of {}: top variable {tv:?} but result is_some = {}", m3::tab_str(t, n), cof.is_some()),
        ),
    }
}

/// build / read back / eval / cofactors / not for one function
fn unary_checks(ctx: &mut Ctx, tl: &mut Tally, cfg: &Cfg, mref: &TddRef, t: Tab3) {
    let n = cfg.n;
    let f = tdd::build(mref, t).expect("harness: out of memory while building an operand");
    tl.evals += 1;
    let interp = match tdd::table(&f) {
        Ok(tt) if tt == t => tt,
        other => {
            let got = match &other {
                Ok(x) => m3::tab_str(*x, n),
                Err(e) => format!("<{e}>"),
            };
            ctx.viol(
                viol_attrs("build", "wrong_value", &shape(&[t], n)),
                case(cfg, "build", &[t], &m3::tab_str(t, n), &got),
                &format!("tdd order {}: table {} built through reduce/then_insert reads back as {got}", cfg.ostr(), m3::tab_str(t, n)),
            );
            match other {
                Ok(x) => x,
                Err(_) => return,
            }
        }
    };
    eval_checks(ctx, tl, cfg, t, &f, interp);
    cofactor_checks(ctx, tl, cfg, t, &f);
    check_result(ctx, tl, cfg, "not", &[t], m3::not(t, n), f.not());
    check_result(ctx, tl, cfg, "not_owned", &[t], m3::not(t, n), f.clone().not_owned());
}

/// constants f/t/u and var: table and eval under every assignment
fn constants_and_vars(ctx: &mut Ctx, tl: &mut Tally, cfg: &Cfg, mref: &TddRef) {
    use oxidd::ManagerRef;
    let n = cfg.n;
    let (cf, cu, ct, vars) = mref.with_manager_shared(|m| {
        let vars: Vec<AllocResult<TddF>> = (0..n).map(|v| TddF::var(m, v)).collect();
        (TddF::f(m), TddF::u(m), TddF::t(m), vars)
    });
    for (name, h, val) in [("f", cf, F), ("u", cu, U), ("t", ct, T)] {
        for a in 0..m3::npts(n) {
            let got = tdd::eval_total(&h, a, n);
            tl.evals += 1;
            tl.eval_vals[got as usize] += 1;
            if got != val {
                ctx.viol(
                    viol_attrs(name, "wrong_eval", ""),
                    case_at(cfg, name, &[], a, &m3::val_char(val).to_string(), &m3::val_char(got).to_string()),
                    &format!("tdd constant {name}() evaluates to {} under assignment a={a} ({}), expected {}", m3::val_char(got), assignment_str(a, n), m3::val_char(val)),
                );
            }
        }
        check_result(ctx, tl, cfg, name, &[], m3::konst(val, n), Ok(h));
    }
    for (v, h) in vars.into_iter().enumerate() {
        let v = v as u32;
        if let Ok(hh) = &h {
            for a in 0..m3::npts(n) {
                let got = tdd::eval_total(hh, a, n);
                tl.evals += 1;
                if got != m3::val_of(a, v) {
                    ctx.viol(
                        viol_attrs("var", "wrong_eval", ""),
                        json!({"kind": "tdd", "n": n, "order": cfg.ostr(), "threads": cfg.threads, "op": "var", "var": v, "assignment": a,
                               "assignment_values": assignment_str(a, n), "expected": m3::val_char(m3::val_of(a, v)).to_string(), "got": m3::val_char(got).to_string()}),
                        &format!("tdd var({v}) evaluates to {} under assignment a={a} ({})", m3::val_char(got), assignment_str(a, n)),
                    );
                }
            }
        }
        // operand list: the variable number (not a table code)
        tl.evals += 1;
        match h {
            Err(_) => ctx.viol(
                viol_attrs("var", "unexpected_oom", ""),
                json!({"kind": "tdd", "n": n, "order": cfg.ostr(), "threads": cfg.threads, "op": "var", "var": v, "got": "OutOfMemory"}),
                "tdd var: OutOfMemory on a manager with ample capacity",
            ),
            Ok(hh) => {
                let exp = m3::var_tab(v, n);
                let got = tdd::table(&hh);
                if got != Ok(exp) {
                    let gs = match &got {
                        Ok(x) => m3::tab_str(*x, n),
                        Err(e) => format!("<{e}>"),
                    };
                    ctx.viol(
                        viol_attrs("var", "wrong_value", ""),
                        json!({"kind": "tdd", "n": n, "order": cfg.ostr(), "threads": cfg.threads, "op": "var", "var": v,
                               "expected": m3::tab_str(exp, n), "got": gs, "encoding": ENCODING}),
                        &format!("tdd n={n} order {}: var({v}) has table {gs}, expected {}", cfg.ostr(), m3::tab_str(exp, n)),
                    );
                }
            }
        }
    }
}

// ---------------------------------------------------------------------------
// n = 1: everything, exhaustively
// ---------------------------------------------------------------------------

/// `eval` on a manager with many variables: every variable, and every pair of variables under all 8 binary
/// connectives, at all value combinations, with every other variable set to a value that depends on its number
/// (so that reading the wrong position is visible), arguments given in ascending and in descending order.
fn run_wide(ctx: &mut Ctx, n: u32) {
    use oxidd::{Manager, ManagerRef};
    ctx.group(&format!("eval with {n} variables"), |ctx| {
        let mref = tdd::new_manager(1 << 16, 1 << 12, 1);
        mref.with_manager_exclusive(|m| {
            m.add_vars(n);
        });
        let vars: Vec<TddF> = mref.with_manager_shared(|m| (0..n).map(|v| TddF::var(m, v).unwrap()).collect());
        let mut evals = 0u64;
        let mut seen = [false; 3];
        // background value of variable w when it is not one of the variables under test
        let bg = |w: u32, salt: u32| -> Val { ((w * 2 + salt + w / 16) % 3) as Val };
        let mut check = |ctx: &mut Ctx, what: &str, f: &TddF, fixed: &[(u32, Val)], expected: Val| {
            for salt in 0..3u32 {
                let val = |w: u32| fixed.iter().find(|(v, _)| *v == w).map(|(_, x)| *x).unwrap_or_else(|| bg(w, salt));
                for rev in [false, true] {
                    let args: Vec<(u32, Option<bool>)> = if rev { (0..n).rev().map(|w| (w, m3::val_opt(val(w)))).collect() } else { (0..n).map(|w| (w, m3::val_opt(val(w)))).collect() };
                    let got = m3::opt_val(f.eval(args));
                    evals += 1;
                    seen[got as usize] = true;
                    if got != expected {
                        ctx.viol(
                            viol_attrs("eval", "wrong_eval_wide", what.split('(').next().unwrap_or("")),
                            json!({"n": n, "function": what, "fixed": fixed, "background_salt": salt, "descending_arguments": rev, "expected": m3::val_char(expected).to_string(), "got": m3::val_char(got).to_string()}),
                            &format!("tdd with {n} variables: eval of {what} with {:?} (other variables: value (2w + {salt} + w/16) mod 3, arguments {}) = {}, expected {}",
                                fixed.iter().map(|(v, x)| format!("x{v}={}", m3::val_char(*x))).collect::<Vec<_>>(), if rev { "descending" } else { "ascending" }, m3::val_char(got), m3::val_char(expected)),
                        );
                        return;
                    }
                }
            }
        };
        for v in 0..n {
            for x in [F, U, T] {
                check(ctx, &format!("var({v})"), &vars[v as usize], &[(v, x)], x);
            }
        }
        for a in 0..n {
            for b in 0..n {
                if a == b {
                    continue;
                }
                for op in OPS3 {
                    let Ok(f) = tdd::apply_bin(op, &vars[a as usize], &vars[b as usize]) else { continue };
                    for x in [F, U, T] {
                        for y in [F, U, T] {
                            check(ctx, &format!("{}(x{a}, x{b})", op.name()), &f, &[(a, x), (b, y)], op.truth()[x as usize][y as usize]);
                        }
                    }
                }
            }
        }
        ctx.count("evaluations", evals);
        ctx.count("nontrivial", evals);
        for (i, l) in ["eval=false", "eval=unknown", "eval=true"].iter().enumerate() {
            if seen[i] {
                ctx.outcome(l);
            }
        }
    });
}

fn run_n1(ctx: &mut Ctx, cfg: &Cfg) {
    let n = 1u32;
    let all: Vec<Tab3> = (0..m3::nfun(n)).collect();

    ctx.group("n1 basics", |ctx| {
        let mut tl = Tally::default();
        let mref = cfg.fresh(1024);
        constants_and_vars(ctx, &mut tl, cfg, &mref);
        for &t in &all {
            unary_checks(ctx, &mut tl, cfg, &mref, t);
        }
        audit_group(ctx, cfg, &mref, &[], "n1 basics");
        tl.flush(ctx);
        ctx.sample(|| case_at(cfg, "eval", &[m3::var_tab(0, 1)], 1, "U", "-"));
    });

    for op in OPS3 {
        ctx.group(&format!("n1 {}", op.name()), |ctx| {
            let mut tl = Tally::default();
            let mref = cfg.fresh(1024);
            let fns: Vec<TddF> = all.iter().map(|&t| tdd::build(&mref, t).expect("harness: oom")).collect();
            for (a, f) in fns.iter().enumerate() {
                for (b, g) in fns.iter().enumerate() {
                    let (a, b) = (a as Tab3, b as Tab3);
                    check_result(ctx, &mut tl, cfg, op.name(), &[a, b], op.apply(a, b, n), tdd::apply_bin(op, f, g));
                }
            }
            let live: Vec<&TddF> = fns.iter().collect();
            audit_group(ctx, cfg, &mref, &live, op.name());
            tl.flush(ctx);
            ctx.sample(|| case(cfg, op.name(), &[5, 21], &m3::tab_str(op.apply(5, 21, n), n), "-"));
        });
    }

    // all connectives interleaved in one manager (apply cache shared between operators)
    ctx.group("n1 connectives interleaved", |ctx| {
        let mut tl = Tally::default();
        let mref = cfg.fresh(1024);
        let fns: Vec<TddF> = all.iter().map(|&t| tdd::build(&mref, t).expect("harness: oom")).collect();
        for round in 0..8usize {
            for (a, f) in fns.iter().enumerate() {
                for (b, g) in fns.iter().enumerate() {
                    let op = OPS3[(round + a + b) % 8];
                    let (a, b) = (a as Tab3, b as Tab3);
                    check_result(ctx, &mut tl, cfg, op.name(), &[a, b], op.apply(a, b, n), tdd::apply_bin(op, f, g));
                }
            }
        }
        let live: Vec<&TddF> = fns.iter().collect();
        audit_group(ctx, cfg, &mref, &live, "interleaved connectives");
        tl.flush(ctx);
    });

    ctx.group("n1 ite", |ctx| {
        let mut tl = Tally::default();
        let mref = cfg.fresh(1024);
        let fns: Vec<TddF> = all.iter().map(|&t| tdd::build(&mref, t).expect("harness: oom")).collect();
        for (a, f) in fns.iter().enumerate() {
            for (b, g) in fns.iter().enumerate() {
                for (c, h) in fns.iter().enumerate() {
                    let (a, b, c) = (a as Tab3, b as Tab3, c as Tab3);
                    check_result(ctx, &mut tl, cfg, "ite", &[a, b, c], m3::ite(a, b, c, n), f.ite(g, h));
                }
            }
            if a % 9 == 8 {
                tdd::gc(&mref);
            }
        }
        let live: Vec<&TddF> = fns.iter().collect();
        audit_group(ctx, cfg, &mref, &live, "ite");
        tl.flush(ctx);
    });
}

// ---------------------------------------------------------------------------
// n = 2
// ---------------------------------------------------------------------------

/// the 60-function representative set (n = 2), in a fixed order
fn rep60() -> Vec<Tab3> {
    let n = 2;
    let (x0, x1) = (m3::var_tab(0, n), m3::var_tab(1, n));
    let mut v: Vec<Tab3> = vec![m3::konst(F, n), m3::konst(U, n), m3::konst(T, n)];
    // one-variable shapes, values at (F, U, T)
    let shapes: [(Val, Val, Val); 10] =
        [(F, U, T), (T, U, F), (F, F, T), (F, T, F), (T, F, F), (T, F, T), (F, U, U), (U, U, T), (U, F, T), (T, U, U)];
    for var in 0..2 {
        for (a, b, c) in shapes {
            v.push(m3::unary_of(var, a, b, c, n));
        }
    }
    for op in OPS3 {
        v.push(op.apply(x0, x1, n));
    }
    v.push(Op3::Imp.apply(x1, x0, n));
    v.push(Op3::ImpStrict.apply(x1, x0, n));
    let nx0 = m3::not(x0, n);
    let nx1 = m3::not(x1, n);
    let is_u0 = m3::unary_of(0, F, T, F, n);
    let is_u1 = m3::unary_of(1, F, T, F, n);
    let uu = m3::konst(U, n);
    v.extend([
        Op3::And.apply(x0, nx1, n),
        Op3::Or.apply(x0, nx1, n),
        Op3::Xor.apply(x0, is_u1, n),
        m3::ite(x0, x1, uu, n),
        m3::ite(x0, uu, x1, n),
        m3::ite(x1, x0, nx0, n),
        Op3::And.apply(is_u0, is_u1, n),
        Op3::Or.apply(m3::unary_of(0, F, F, T, n), m3::unary_of(1, T, F, F, n), n),
        Op3::Equiv.apply(m3::unary_of(0, F, U, U, n), m3::unary_of(1, U, U, T, n), n),
        Op3::Imp.apply(x0, Op3::And.apply(x1, uu, n), n),
    ]);
    // irregular tables, spread over the code range
    let mut k = 0u32;
    let mut out: Vec<Tab3> = vec![];
    for t in v {
        if !out.contains(&t) {
            out.push(t);
        }
    }
    while out.len() < 60 {
        let t = (k * 1153 + 77) % m3::nfun(n);
        k += 1;
        if !out.contains(&t) {
            out.push(t);
        }
    }
    out
}

/// 30-function subset of `rep60` for the ite triples
fn ite30(reps: &[Tab3]) -> Vec<Tab3> {
    let n = 2;
    let (x0, x1) = (m3::var_tab(0, n), m3::var_tab(1, n));
    let mut v: Vec<Tab3> = vec![m3::konst(F, n), m3::konst(U, n), m3::konst(T, n)];
    for var in 0..2 {
        for (a, b, c) in [(F, U, T), (T, U, F), (F, T, F)] {
            v.push(m3::unary_of(var, a, b, c, n));
        }
    }
    v.push(m3::unary_of(0, F, U, U, n));
    v.push(m3::unary_of(1, U, U, T, n));
    for op in OPS3 {
        v.push(op.apply(x0, x1, n));
    }
    v.push(Op3::Imp.apply(x1, x0, n));
    v.push(Op3::ImpStrict.apply(x1, x0, n));
    // fill up with the tail of the representative set (mixed + irregular)
    for &t in reps.iter().rev() {
        if v.len() >= 30 {
            break;
        }
        if !v.contains(&t) {
            v.push(t);
        }
    }
    let mut out: Vec<Tab3> = vec![];
    for t in v {
        if !out.contains(&t) {
            out.push(t);
        }
    }
    for &t in reps {
        if out.len() >= 30 {
            break;
        }
        if !out.contains(&t) {
            out.push(t);
        }
    }
    assert!(out.len() == 30 && out.iter().all(|t| reps.contains(t)));
    out
}

fn slice_of(len: usize, part: u32, parts: u32) -> (usize, usize) {
    let lo = len * part as usize / parts as usize;
    let hi = len * (part as usize + 1) / parts as usize;
    (lo, hi)
}

fn run_unary(ctx: &mut Ctx, cfg: &Cfg, part: u32, parts: u32) {
    let n = cfg.n;
    let (lo, hi) = slice_of(m3::nfun(n) as usize, part, parts);
    // chunks of ~2200 functions per group
    let chunks = 3usize;
    for c in 0..chunks {
        let (clo, chi) = slice_of(hi - lo, c as u32, chunks as u32);
        ctx.group(&format!("unary {}..{}", lo + clo, lo + chi), |ctx| {
            let mut tl = Tally::default();
            let mref = cfg.fresh(1024);
            if c == 0 {
                constants_and_vars(ctx, &mut tl, cfg, &mref);
            }
            for t in (lo + clo)..(lo + chi) {
                unary_checks(ctx, &mut tl, cfg, &mref, t as Tab3);
                if t % 512 == 511 {
                    tdd::gc(&mref);
                }
            }
            audit_group(ctx, cfg, &mref, &[], "unary block");
            tl.flush(ctx);
            ctx.sample(|| case(cfg, "cofactors", &[(lo + clo) as Tab3], "-", "-"));
        });
    }
}

/// Binary connectives, n = 2. All 8 connectives are applied to each operand
/// pair in one manager, in an order that rotates with the pair, so that apply
/// cache entries of different operators coexist (a wrong cache key shows up
/// as a wrong value of the operator that is asked later).
/// quick: every f of this part x the 60-set, both operand orders, and (f, f).
/// thorough: every f of this part x all 19683 functions (ordered pairs; the
/// mirrored pair belongs to the part that owns the other operand).
fn run_binary(ctx: &mut Ctx, cfg: &Cfg, part: u32) {
    let n = cfg.n;
    let nf = m3::nfun(n) as usize;
    let reps = rep60();
    let (lo, hi) = slice_of(nf, part, bin_parts(&ctx.tier));
    if !ctx.thorough() {
        let chunks = 2u32;
        for c in 0..chunks {
            let (clo, chi) = slice_of(hi - lo, c, chunks);
            let (clo, chi) = (lo + clo, lo + chi);
            ctx.group(&format!("8 connectives, f in {clo}..{chi} x rep60, both operand orders"), |ctx| {
                let mut tl = Tally::default();
                let mref = cfg.fresh(1024);
                let rf: Vec<TddF> = reps.iter().map(|&t| tdd::build(&mref, t).expect("harness: oom")).collect();
                for t in clo..chi {
                    let t = t as Tab3;
                    let f = tdd::build(&mref, t).expect("harness: oom");
                    // pairs inside the representative set are enumerated once (as (t, g))
                    let t_in_reps = reps.contains(&t);
                    for (gi, g) in rf.iter().enumerate() {
                        let gt = reps[gi];
                        for k in 0..8usize {
                            let op = OPS3[(k + t as usize + gi) % 8];
                            check_result(ctx, &mut tl, cfg, op.name(), &[t, gt], op.apply(t, gt, n), tdd::apply_bin(op, &f, g));
                            if !t_in_reps {
                                check_result(ctx, &mut tl, cfg, op.name(), &[gt, t], op.apply(gt, t, n), tdd::apply_bin(op, g, &f));
                            }
                        }
                    }
                    if !t_in_reps {
                        for op in OPS3 {
                            check_result(ctx, &mut tl, cfg, op.name(), &[t, t], op.apply(t, t, n), tdd::apply_bin(op, &f, &f));
                        }
                    }
                    drop(f);
                    if t % 256 == 255 {
                        tdd::gc(&mref);
                    }
                }
                let live: Vec<&TddF> = rf.iter().collect();
                audit_group(ctx, cfg, &mref, &live, "binary connectives");
                tl.flush(ctx);
                ctx.sample(|| case(cfg, "imp", &[clo as Tab3, reps[30]], &m3::tab_str(Op3::Imp.apply(clo as Tab3, reps[30], n), n), "-"));
            });
        }
    } else {
        let chunks = 8u32;
        for c in 0..chunks {
            let (clo, chi) = slice_of(hi - lo, c, chunks);
            let (clo, chi) = (lo + clo, lo + chi);
            ctx.group(&format!("8 connectives, f in {clo}..{chi} x all {nf} functions"), |ctx| {
                let mut tl = Tally::default();
                let mref = cfg.fresh(1024);
                let all: Vec<TddF> = (0..nf).map(|t| tdd::build(&mref, t as Tab3).expect("harness: oom")).collect();
                for t in clo..chi {
                    let f = &all[t];
                    for (gt, g) in all.iter().enumerate() {
                        for k in 0..8usize {
                            let op = OPS3[(k + t + gt) % 8];
                            check_result(ctx, &mut tl, cfg, op.name(), &[t as Tab3, gt as Tab3], op.apply(t as Tab3, gt as Tab3, n), tdd::apply_bin(op, f, g));
                        }
                    }
                    if t % 16 == 15 {
                        tdd::gc(&mref);
                    }
                }
                let live: Vec<&TddF> = all.iter().collect();
                audit_group(ctx, cfg, &mref, &live, "binary connectives");
                tl.flush(ctx);
                ctx.sample(|| case(cfg, "imp_strict", &[clo as Tab3, 12345], &m3::tab_str(Op3::ImpStrict.apply(clo as Tab3, 12345, n), n), "-"));
            });
        }
    }
}

/// ite, n = 2: all triples of the 60-set (split by the index of the first
/// operand); thorough adds a sweep of every function through each of the
/// three positions against all ordered pairs of the 30-set.
fn run_ite(ctx: &mut Ctx, cfg: &Cfg, part: u32) {
    let n = cfg.n;
    let reps = rep60();
    let parts = ite_parts(&ctx.tier);
    let set = &reps;
    ctx.group(&format!("ite triples over the {}-function set, first operand index = {part} mod {parts}", set.len()), |ctx| {
        let mut tl = Tally::default();
        let mref = cfg.fresh(1024);
        let fns: Vec<TddF> = set.iter().map(|&t| tdd::build(&mref, t).expect("harness: oom")).collect();
        for (ia, &a) in set.iter().enumerate() {
            if ia as u32 % parts != part {
                continue;
            }
            for (ib, &b) in set.iter().enumerate() {
                for (ic, &c) in set.iter().enumerate() {
                    check_result(ctx, &mut tl, cfg, "ite", &[a, b, c], m3::ite(a, b, c, n), fns[ia].ite(&fns[ib], &fns[ic]));
                }
            }
            if ia % 8 == 7 {
                tdd::gc(&mref);
            }
        }
        let live: Vec<&TddF> = fns.iter().collect();
        audit_group(ctx, cfg, &mref, &live, "ite triples");
        tl.flush(ctx);
        ctx.sample(|| case(cfg, "ite", &[set[3], set[10], set[20]], &m3::tab_str(m3::ite(set[3], set[10], set[20], n), n), "-"));
    });
    if ctx.thorough() {
        let s30 = ite30(&reps);
        let (lo, hi) = slice_of(m3::nfun(n) as usize, part, parts);
        let chunks = 4u32;
        for c in 0..chunks {
            let (clo, chi) = slice_of(hi - lo, c, chunks);
            ctx.group(&format!("ite sweep: every function {}..{} in each position x 30x30", lo + clo, lo + chi), |ctx| {
                let mut tl = Tally::default();
                let mref = cfg.fresh(1024);
                let sf: Vec<TddF> = s30.iter().map(|&t| tdd::build(&mref, t).expect("harness: oom")).collect();
                for t in (lo + clo)..(lo + chi) {
                    let t = t as Tab3;
                    if reps.contains(&t) {
                        continue; // all such triples are part of the 60^3 block
                    }
                    let f = tdd::build(&mref, t).expect("harness: oom");
                    for (ig, &g) in s30.iter().enumerate() {
                        for (ih, &h) in s30.iter().enumerate() {
                            check_result(ctx, &mut tl, cfg, "ite", &[t, g, h], m3::ite(t, g, h, n), f.ite(&sf[ig], &sf[ih]));
                            check_result(ctx, &mut tl, cfg, "ite", &[g, t, h], m3::ite(g, t, h, n), sf[ig].ite(&f, &sf[ih]));
                            check_result(ctx, &mut tl, cfg, "ite", &[g, h, t], m3::ite(g, h, t, n), sf[ig].ite(&sf[ih], &f));
                        }
                    }
                    drop(f);
                    if t % 256 == 255 {
                        tdd::gc(&mref);
                    }
                }
                let live: Vec<&TddF> = sf.iter().collect();
                audit_group(ctx, cfg, &mref, &live, "ite sweep");
                tl.flush(ctx);
            });
        }
    }
}
