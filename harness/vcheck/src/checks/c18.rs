//! C18 — circuit simplification is equivalence preserving and total; the
//! DIMACS / AIGER / NNF parsers are total; ASCII and binary AIGER agree.
//!
//! E-INPUT + E-FAULT, bounded exhaustive:
//!  * `simp:*`   every circuit inside a stated bound through `Circuit::simplify`, every gate in
//!               turn (and all gates together) as roots; oracle = own Kleene evaluator over the
//!               *input* circuit + reachability/cycle analysis + the documented normal form.
//!  * `tok:*`    every token sequence up to a length bound over per-format alphabets through the
//!               three `parse` entry points (all option combinations) and through `load_file`
//!               (diagnostic rendering included).
//!  * `mut:*`    every proper prefix and every position x 10-byte substitution of the crate's own
//!               example inputs.
//!  * `huge`     header counts at the crate's own `MAX_CAPACITY` limit (one input per group).
//!  * `aigeq:*`  every AIG inside a bound, written by an own serialiser as `aag` and `aig`.

use std::collections::BTreeMap;

use oxidd_parser::{Circuit, GateKind, Literal, ParseOptions, ParseOptionsBuilder, Problem, ProblemDetails, VarSet};
use serde_json::{Value, json};

use crate::driver::Meta;
use crate::proto::{Ctx, attrs};

pub fn meta() -> Meta {
    Meta {
        level: "exploration",
        rule: "bounded exhaustive. simplify: every circuit of the tiers g1 (1 gate, 0..3 inputs, <=3 literals, wide alphabet), g2i0w, g2i1c, g2i2k (2 gates, <=3 literals), g3i1l (3 gates, 1 input, <=2 literals, lean alphabet), oob tiers g1i1o/g2i1o; thorough adds g2i1w, g2i2w, g2i3c, g3i0c, g3i1c, g3i2c (<=2 literals), g3i2s (3 gates, 2 inputs, <=3 literals, slim alphabet), g3i1o. alphabets: core = {F,T,+-input,+-gate (self, forward, backward),+first unknown input}, wide = core+{-unknown,+-UNDEF}, lean = {T,+-input,+-gate}, known (k) = core without the unknown input, slim = {T,+i0,-i0,+i1,+next gate,-gate after next}, oob = core+{+-gate not present}; kinds and/or/xor; roots = each gate alone, all gates (mixed polarity), all gates reversed. A simplify case is non-trivial when the reachable fragment is acyclic, free of unknown inputs and the simplified circuit still has a gate. parsers: all token sequences up to length 5/4 (thorough 6/5) over a raw and a line-level alphabet per format x all parse-option combinations, sequences up to length 3 (4) also through load_file; all proper prefixes and all position x 10 byte (thorough 256 byte) substitutions of the crate's test inputs; header counts at MAX_CAPACITY. A parser case is non-trivial when the input is accepted (the accepted problem is then simplified and compared by truth table). aiger: every AIG of the listed (inputs, latches, ands, outputs) tiers with all and-gate operand pairs, latch next-state literals x 4 init forms and output literals, plus AIGER-1.9 sections and symbol tables (every subset of the symbol lines in every order, for 4 input/latch count shapes), in both encodings; all non-trivial; binary and-gate sections with every delta pair 0..lhs+2 (valid or not) for the gates of one- and two-gate circuits: accepted iff lhs > rhs0 >= rhs1. Every enumerated case is distinct.",
        assumptions: vec![
            "simplify oracle demands exactly the documented contract: Err(gate on a cycle) / Err(unknown input literal) for the reachable fragment, otherwise equal root functions through the gate map, the five normal-form conditions, topological order, result gates are images of reachable gates".into(),
            "an unknown input that is absorbed by a constant of the same AND/OR gate (x AND false) may be answered with Ok (the doc says 'depends on'); Ok is then accepted iff every root is definite under Kleene evaluation and equal to the result; such cases are counted under outcome ok_unknown_masked".into(),
            "gate literals that refer to gates not present in the circuit can be built with push_gate_input (no documented precondition) but simplify documents nothing about them: they are enumerated in the `oob` tiers, the behaviour is recorded (outcomes dangling:*) and not judged as long as the dangling reference is reachable; unreachable dangling references must not matter".into(),
            "the full bound of the property (3 inputs x 3 gates x 3 literals over the full alphabet, about 4e12 circuits) is not enumerable; the tiers cover it by g<=2 with 3 literals, g=3 with 2 literals over the full alphabet and g=3 with 3 literals over a reduced alphabet".into(),
            "header counts large enough to make the parser allocate gigabytes are only probed at the crate's own MAX_CAPACITY limit (shard `huge`); medium-sized counts (environment dependent out-of-memory) are not enumerated".into(),
            "random larger circuits of the property's quantifier are replaced by the simplification + truth-table check of every circuit that the parsers accept in the token/mutation enumerations (up to 6 inputs, 64 gates)".into(),
        ],
        hang_is_violation: true,
        shard_timeout: (900, 7200),
    }
}

// ---------------------------------------------------------------------------------------------
// own circuit model
// ---------------------------------------------------------------------------------------------

/// literal of the model: constant / input / gate, `true` = negated (for constants: the value)
#[derive(Clone, Copy, PartialEq, Eq, PartialOrd, Ord, Debug, Hash)]
enum L {
    C(bool),
    I(bool, usize),
    G(bool, usize),
}

const UNDEF_IN: usize = Literal::MAX_INPUT + 1;
const KNAMES: [&str; 3] = ["and", "or", "xor"];

fn kind_lib(k: u8) -> GateKind {
    match k {
        0 => GateKind::And,
        1 => GateKind::Or,
        _ => GateKind::Xor,
    }
}
fn kind_model(k: GateKind) -> u8 {
    match k {
        GateKind::And => 0,
        GateKind::Or => 1,
        GateKind::Xor => 2,
    }
}

fn to_lib(l: L) -> Literal {
    match l {
        L::C(false) => Literal::FALSE,
        L::C(true) => Literal::TRUE,
        L::I(neg, n) if n == UNDEF_IN => {
            if neg {
                !Literal::UNDEF
            } else {
                Literal::UNDEF
            }
        }
        L::I(neg, n) => Literal::from_input(neg, n),
        L::G(neg, n) => Literal::from_gate(neg, n),
    }
}

fn from_lib(l: Literal) -> L {
    if let Some(g) = l.get_gate_no() {
        L::G(l.is_negative(), g)
    } else if let Some(i) = l.get_input() {
        L::I(l.is_negative(), i)
    } else {
        L::C(l.is_negative())
    }
}

fn lstr(l: L) -> String {
    match l {
        L::C(false) => "F".into(),
        L::C(true) => "T".into(),
        L::I(neg, n) if n == UNDEF_IN => format!("{}UNDEF", if neg { "-" } else { "+" }),
        L::I(neg, n) => format!("{}i{n}", if neg { "-" } else { "+" }),
        L::G(neg, n) => format!("{}g{n}", if neg { "-" } else { "+" }),
    }
}

#[derive(Clone, Debug, PartialEq, Eq)]
struct MGate {
    kind: u8,
    lits: Vec<L>,
}

fn gstr(g: &MGate) -> String {
    format!("{}({})", KNAMES[g.kind as usize], g.lits.iter().map(|&l| lstr(l)).collect::<Vec<_>>().join(","))
}
fn cstr(ninputs: usize, gates: &[MGate]) -> String {
    let mut s = format!("inputs={ninputs}");
    for (i, g) in gates.iter().enumerate() {
        s += &format!("; g{i}={}", gstr(g));
    }
    s
}

fn build_lib(ninputs: usize, gates: &[MGate]) -> Circuit {
    let mut c = Circuit::new(VarSet::new(ninputs));
    for g in gates {
        c.push_gate(kind_lib(g.kind));
        c.push_gate_inputs(g.lits.iter().map(|&l| to_lib(l)));
    }
    c
}

fn read_lib(c: &Circuit) -> Vec<MGate> {
    c.iter_gates().map(|g| MGate { kind: kind_model(g.kind), lits: g.inputs.iter().map(|&l| from_lib(l)).collect() }).collect()
}

/// Kleene value over all assignments: bit a of `t` = definitely true under assignment a, of `f` =
/// definitely false; neither = unknown (depends on an unknown input)
#[derive(Clone, Copy, PartialEq, Eq, Debug, Default)]
struct V {
    t: u64,
    f: u64,
}

fn full_mask(ninputs: usize) -> u64 {
    if ninputs >= 6 { u64::MAX } else { (1u64 << (1u32 << ninputs)) - 1 }
}
fn var_table(k: usize, ninputs: usize) -> u64 {
    let mut t = 0u64;
    for a in 0..(1u32 << ninputs) {
        if (a >> k) & 1 == 1 {
            t |= 1 << a;
        }
    }
    t
}

struct Ev {
    ninputs: usize,
    full: u64,
    vars: [u64; 6],
}
impl Ev {
    fn new(ninputs: usize) -> Self {
        assert!(ninputs <= 6);
        let mut vars = [0u64; 6];
        for (k, v) in vars.iter_mut().enumerate().take(ninputs) {
            *v = var_table(k, ninputs);
        }
        Ev { ninputs, full: full_mask(ninputs), vars }
    }
    fn lit(&self, l: L, gate_vals: &[V]) -> V {
        let (neg, v) = match l {
            L::C(b) => (false, if b { V { t: self.full, f: 0 } } else { V { t: 0, f: self.full } }),
            L::I(neg, n) => (neg, if n < self.ninputs { V { t: self.vars[n], f: !self.vars[n] & self.full } } else { V::default() }),
            L::G(neg, g) => (neg, gate_vals.get(g).copied().unwrap_or_default()),
        };
        if neg { V { t: v.f, f: v.t } } else { v }
    }
    fn gate(&self, g: &MGate, gate_vals: &[V]) -> V {
        match g.kind {
            0 => {
                let mut r = V { t: self.full, f: 0 };
                for &l in &g.lits {
                    let v = self.lit(l, gate_vals);
                    r.t &= v.t;
                    r.f |= v.f;
                }
                r
            }
            1 => {
                let mut r = V { t: 0, f: self.full };
                for &l in &g.lits {
                    let v = self.lit(l, gate_vals);
                    r.t |= v.t;
                    r.f &= v.f;
                }
                r
            }
            _ => {
                let mut known = self.full;
                let mut par = 0u64;
                for &l in &g.lits {
                    let v = self.lit(l, gate_vals);
                    known &= v.t | v.f;
                    par ^= v.t;
                }
                V { t: par & known, f: !par & known }
            }
        }
    }
    fn definite(&self, v: V) -> bool {
        v.t | v.f == self.full
    }
}

/// root-independent analysis of a circuit with at most 64 gates
#[allow(dead_code)]
struct Ana {
    /// gates reachable in >= 1 steps
    reach: Vec<u64>,
    /// gate has a child literal that refers to a gate not present
    dangling: Vec<bool>,
    /// Kleene value; meaningful only for gates that neither reach a cycle nor a dangling reference
    val: Vec<V>,
    /// gate lies on a cycle / reaches one / reaches a dangling reference
    bad: Vec<bool>,
}

fn analyse(ev: &Ev, gates: &[MGate]) -> Ana {
    let n = gates.len();
    assert!(n <= 64);
    let mut adj = vec![0u64; n];
    let mut dangling = vec![false; n];
    for (i, g) in gates.iter().enumerate() {
        for &l in &g.lits {
            if let L::G(_, j) = l {
                if j < n {
                    adj[i] |= 1 << j;
                } else {
                    dangling[i] = true;
                }
            }
        }
    }
    let mut reach = adj.clone();
    loop {
        let mut changed = false;
        for i in 0..n {
            let mut r = reach[i];
            let mut m = reach[i];
            while m != 0 {
                let j = m.trailing_zeros() as usize;
                m &= m - 1;
                r |= reach[j];
            }
            if r != reach[i] {
                reach[i] = r;
                changed = true;
            }
        }
        if !changed {
            break;
        }
    }
    let mut bad = vec![false; n];
    for i in 0..n {
        let closure = reach[i] | (1 << i);
        let mut m = closure;
        while m != 0 {
            let j = m.trailing_zeros() as usize;
            m &= m - 1;
            if dangling[j] || reach[j] & (1 << j) != 0 {
                bad[i] = true;
            }
        }
    }
    // evaluate the good gates, children first (a good gate reaches good gates only)
    let mut val = vec![V::default(); n];
    let mut done = vec![false; n];
    let mut remaining = (0..n).filter(|&i| !bad[i]).count();
    while remaining > 0 {
        for i in 0..n {
            if bad[i] || done[i] {
                continue;
            }
            let mut ready = true;
            let mut m = adj[i];
            while m != 0 {
                let j = m.trailing_zeros() as usize;
                m &= m - 1;
                ready &= done[j];
            }
            if ready {
                val[i] = ev.gate(&gates[i], &val);
                done[i] = true;
                remaining -= 1;
            }
        }
    }
    Ana { reach, dangling, val, bad }
}

struct Verdict {
    class: &'static str,
    kind: String,
    msg: String,
}
fn verdict(class: &'static str, g: Option<&MGate>, msg: String) -> Verdict {
    Verdict {
        class,
        kind: g.map(|g| KNAMES[g.kind as usize].to_string()).unwrap_or_else(|| "-".into()),
        msg,
    }
}

/// Judge the answer of `simplify` for `roots` against the documentation. `Ok(label)` = accepted
/// (label = observed outcome class), `Err` = violation.
fn judge(
    ev: &Ev,
    gates: &[MGate],
    ana: &Ana,
    roots: &[L],
    res: &Result<(Circuit, Vec<Literal>), Literal>,
    nontrivial: &mut bool,
) -> Result<&'static str, Verdict> {
    let n = gates.len();
    // reachable fragment
    let mut r = 0u64;
    let mut root_dangling = false;
    for &l in roots {
        if let L::G(_, g) = l {
            if g < n {
                r |= (1 << g) | ana.reach[g];
            } else {
                root_dangling = true;
            }
        }
    }
    let mut any_dangling = root_dangling;
    let mut cyc = 0u64;
    let mut unknown: Vec<usize> = vec![];
    {
        let mut m = r;
        while m != 0 {
            let i = m.trailing_zeros() as usize;
            m &= m - 1;
            any_dangling |= ana.dangling[i];
            if ana.reach[i] & (1 << i) != 0 {
                cyc |= 1 << i;
            }
            for &l in &gates[i].lits {
                if let L::I(_, k) = l {
                    if k >= ev.ninputs && !unknown.contains(&k) {
                        unknown.push(k);
                    }
                }
            }
        }
    }
    if any_dangling {
        // undocumented territory: nothing is demanded
        return Ok(match res {
            Ok(_) => "dangling:ok",
            Err(_) => "dangling:err",
        });
    }

    let (new, map) = match res {
        Err(l) => {
            let l = from_lib(*l);
            return match l {
                L::G(_, g) if g < n && cyc & (1u64 << g) != 0 => Ok("err_cycle"),
                L::I(_, k) if unknown.contains(&k) => Ok("err_unknown"),
                _ if cyc == 0 && unknown.is_empty() => Err(verdict(
                    "spurious_err",
                    None,
                    format!("Err({}) although the reachable fragment is acyclic and has no unknown input", lstr(l)),
                )),
                _ => Err(verdict(
                    "wrong_err_literal",
                    None,
                    format!("Err({}) is neither a gate on a reachable cycle nor a reachable unknown input literal", lstr(l)),
                )),
            };
        }
        Ok(x) => x,
    };
    if cyc != 0 {
        let g = cyc.trailing_zeros() as usize;
        return Err(verdict("cycle_not_reported", Some(&gates[g]), format!("Ok although gate g{g} of the reachable fragment lies on a cycle")));
    }
    let mut masked = false;
    if !unknown.is_empty() {
        // accepted only if no root depends on the unknown inputs (Kleene)
        for &l in roots {
            if let L::G(_, g) = l {
                if !ev.definite(ana.val[g]) {
                    let culprit = (0..n).find(|&i| r & (1 << i) != 0 && gates[i].lits.iter().any(|l| matches!(l, L::I(_, k) if *k >= ev.ninputs)));
                    return Err(verdict(
                        "unknown_input_not_reported",
                        culprit.map(|i| &gates[i]),
                        format!("Ok although root g{g} depends on unknown input(s) {:?} (inputs().len() = {})", unknown, ev.ninputs),
                    ));
                }
            }
        }
        masked = true;
    }

    // ---- the result circuit ----
    if new.inputs().len() != ev.ninputs {
        return Err(verdict("inputs_changed", None, format!("result has {} inputs, original {}", new.inputs().len(), ev.ninputs)));
    }
    if map.len() != n {
        return Err(verdict("gate_map_len", None, format!("gate map has {} entries for {} gates", map.len(), n)));
    }
    let ng = read_lib(new);
    let m = ng.len();
    if m != new.num_gates() {
        return Err(verdict("num_gates", None, format!("num_gates() = {} but iter_gates() yields {}", new.num_gates(), m)));
    }
    let mut up = false;
    let mut down = false;
    for (j, g) in ng.iter().enumerate() {
        let mut seen: Vec<(bool, usize)> = vec![];
        for &l in &g.lits {
            match l {
                L::C(_) => return Err(verdict("nf1_constant_input", Some(g), format!("result gate g{j} = {} has a constant input", gstr(g)))),
                L::I(neg, k) => {
                    if k >= ev.ninputs {
                        return Err(verdict("result_unknown_input", Some(g), format!("result gate g{j} = {} refers to an unknown input", gstr(g))));
                    }
                    if neg && g.kind == 2 {
                        return Err(verdict("nf2_negated_xor_input", Some(g), format!("result gate g{j} = {} has a negated input", gstr(g))));
                    }
                    if seen.contains(&(false, k)) {
                        return Err(verdict("nf3_duplicate_input", Some(g), format!("result gate g{j} = {} uses input i{k} twice", gstr(g))));
                    }
                    seen.push((false, k));
                }
                L::G(neg, k) => {
                    if k >= m {
                        return Err(verdict("result_dangling_gate", Some(g), format!("result gate g{j} = {} refers to a gate not in the result ({m} gates)", gstr(g))));
                    }
                    if neg && g.kind == 2 {
                        return Err(verdict("nf2_negated_xor_input", Some(g), format!("result gate g{j} = {} has a negated input", gstr(g))));
                    }
                    if seen.contains(&(true, k)) {
                        return Err(verdict("nf3_duplicate_input", Some(g), format!("result gate g{j} = {} uses gate g{k} twice", gstr(g))));
                    }
                    seen.push((true, k));
                    if k < j {
                        down = true;
                    } else {
                        up = true; // includes k == j
                    }
                }
            }
        }
        if g.lits.len() < 2 {
            return Err(verdict("nf4_less_than_two_inputs", Some(g), format!("result gate g{j} = {} has {} input(s)", gstr(g), g.lits.len())));
        }
    }
    for j in 0..m {
        for k in 0..j {
            if ng[j].kind == ng[k].kind && ng[j].lits.len() == ng[k].lits.len() {
                let mut a = ng[j].lits.clone();
                let mut b = ng[k].lits.clone();
                a.sort();
                b.sort();
                if a == b {
                    return Err(verdict("nf5_structurally_equal_gates", Some(&ng[j]), format!("result gates g{k} = {} and g{j} = {} are structurally equal", gstr(&ng[k]), gstr(&ng[j]))));
                }
            }
        }
    }
    if up && down || ng.iter().enumerate().any(|(j, g)| g.lits.contains(&L::G(false, j)) || g.lits.contains(&L::G(true, j))) {
        return Err(verdict("not_topologically_sorted", None, format!("result gates are not topologically sorted: {}", cstr(ev.ninputs, &ng))));
    }
    // values of the result gates (sorted, so one sweep in the right direction suffices)
    let mut nval = vec![V::default(); m];
    if up {
        for j in (0..m).rev() {
            nval[j] = ev.gate(&ng[j], &nval);
        }
    } else {
        for j in 0..m {
            nval[j] = ev.gate(&ng[j], &nval);
        }
    }
    // gate map: every reachable gate (with a definite value) is mapped to an equal literal
    let mut image = 0u64;
    let mut mism = 0u64;
    let mut first_msg = None;
    {
        let mut rm = r;
        while rm != 0 {
            let i = rm.trailing_zeros() as usize;
            rm &= rm - 1;
            let ml = from_lib(map[i]);
            if let L::G(_, k) = ml {
                if k < m && k < 64 {
                    image |= 1 << k;
                }
            }
            if !ev.definite(ana.val[i]) {
                continue; // depends on a masked unknown input
            }
            let valid = match ml {
                L::C(_) => true,
                L::I(_, k) => k < ev.ninputs,
                L::G(_, k) => k < m,
            };
            if !valid {
                return Err(verdict("gate_map_invalid_literal", Some(&gates[i]), format!("gate_map[{i}] = {} is not valid in the result ({m} gates)", lstr(ml))));
            }
            let got = ev.lit(ml, &nval);
            if got != ana.val[i] {
                mism |= 1 << i;
                if first_msg.is_none() {
                    first_msg = Some(format!("gate g{i} = {} denotes {:#x} but gate_map[{i}] = {} denotes {:#x} in the result [{}]", gstr(&gates[i]), ana.val[i].t, lstr(ml), got.t, cstr(ev.ninputs, &ng)));
                }
            }
        }
    }
    if mism != 0 {
        // culprit: a wrong gate all of whose descendants are right
        let mut culprit = mism.trailing_zeros() as usize;
        let mut mm = mism;
        while mm != 0 {
            let i = mm.trailing_zeros() as usize;
            mm &= mm - 1;
            if ana.reach[i] & mism == 0 {
                culprit = i;
                break;
            }
        }
        let ml = from_lib(map[culprit]);
        let got = ev.lit(ml, &nval);
        return Err(verdict(
            "wrong_function",
            Some(&gates[culprit]),
            format!("gate g{culprit} = {} denotes {:#x} but gate_map[{culprit}] = {} denotes {:#x} in the result [{}]", gstr(&gates[culprit]), ana.val[culprit].t, lstr(ml), got.t, cstr(ev.ninputs, &ng)),
        ));
    }
    // roots through the documented mapping function
    for &l in roots {
        if let L::G(_, g) = l {
            let nl = from_lib(to_lib(l).apply_gate_map(map));
            let want = ev.lit(l, &ana.val);
            let got = ev.lit(nl, &nval);
            if ev.definite(ana.val[g]) && want != got {
                return Err(verdict("wrong_root", Some(&gates[g]), format!("root {} denotes {:#x}, mapped root {} denotes {:#x}", lstr(l), want.t, lstr(nl), got.t)));
            }
        }
    }
    if m <= 64 && image != full_low(m) {
        let j = (!image).trailing_zeros() as usize;
        return Err(verdict("gate_not_from_reachable", Some(&ng[j]), format!("result gate g{j} = {} is not the image of any gate reachable from the roots", gstr(&ng[j]))));
    }
    if m > 0 && !masked {
        *nontrivial = true;
    }
    Ok(if masked { "ok_unknown_masked" } else if m == 0 { "ok_collapsed" } else { "ok_gates" })
}

/// what the documentation promises for these roots (attribute of violation records)
fn expectation(ev: &Ev, gates: &[MGate], ana: &Ana, roots: &[L]) -> &'static str {
    let n = gates.len();
    let mut r = 0u64;
    let mut dangling = false;
    for &l in roots {
        if let L::G(_, g) = l {
            if g < n {
                r |= (1 << g) | ana.reach[g];
            } else {
                dangling = true;
            }
        }
    }
    let mut cyc = false;
    let mut unknown = false;
    for i in 0..n {
        if r & (1 << i) != 0 {
            dangling |= ana.dangling[i];
            cyc |= ana.reach[i] & (1 << i) != 0;
            unknown |= gates[i].lits.iter().any(|l| matches!(l, L::I(_, k) if *k >= ev.ninputs));
        }
    }
    match (dangling, cyc, unknown) {
        (true, _, _) => "undocumented",
        (_, true, true) => "err_cycle_or_unknown",
        (_, true, false) => "err_cycle",
        (_, false, true) => "err_unknown",
        _ => "ok",
    }
}

fn full_low(m: usize) -> u64 {
    if m >= 64 { u64::MAX } else { (1u64 << m) - 1 }
}

// ---------------------------------------------------------------------------------------------
// part 1: exhaustive circuits through Circuit::simplify
// ---------------------------------------------------------------------------------------------

#[derive(Clone, Copy, PartialEq, Eq, Debug)]
enum Alpha {
    /// F, T, +-i_k (k < inputs), +-g_j (j < gates), +i_inputs (unknown input)
    Core,
    /// Core + -i_inputs, +UNDEF, -UNDEF
    Wide,
    /// Core + +-g_gates (gate not present)
    Oob,
    /// T, +i0, -i0, +i1, and relative to gate k: +g_{k+1}, -g_{k+2} (indices mod gates)
    Slim,
    /// T, +-i_k, +-g_j
    Lean,
    /// F, T, +-i_k, +-g_j (core without the unknown input)
    Known,
}

#[derive(Clone, Copy, Debug)]
struct SimpCfg {
    name: &'static str,
    inputs: usize,
    gates: usize,
    maxlits: usize,
    alpha: Alpha,
    shards: usize,
    thorough_only: bool,
}

const fn sc(name: &'static str, inputs: usize, gates: usize, maxlits: usize, alpha: Alpha, shards: usize, thorough_only: bool) -> SimpCfg {
    SimpCfg { name, inputs, gates, maxlits, alpha, shards, thorough_only }
}

fn simp_cfgs() -> Vec<SimpCfg> {
    vec![
        // one gate: everything, wide alphabet, up to 3 inputs
        sc("g1i0w", 0, 1, 3, Alpha::Wide, 1, false),
        sc("g1i1w", 1, 1, 3, Alpha::Wide, 1, false),
        sc("g1i2w", 2, 1, 3, Alpha::Wide, 1, false),
        sc("g1i3w", 3, 1, 3, Alpha::Wide, 1, false),
        // two gates, three literals
        sc("g2i0w", 0, 2, 3, Alpha::Wide, 8, false),
        sc("g2i1c", 1, 2, 3, Alpha::Core, 4, false),
        sc("g2i2k", 2, 2, 3, Alpha::Known, 12, false),
        sc("g2i1w", 1, 2, 3, Alpha::Wide, 8, true),
        sc("g2i2w", 2, 2, 3, Alpha::Wide, 16, true),
        sc("g2i3c", 3, 2, 3, Alpha::Core, 16, true),
        // three gates, two literals
        sc("g3i0c", 0, 3, 2, Alpha::Core, 16, true),
        sc("g3i1l", 1, 3, 2, Alpha::Lean, 16, false),
        sc("g3i1c", 1, 3, 2, Alpha::Core, 16, true),
        sc("g3i2c", 2, 3, 2, Alpha::Core, 48, true),
        // three gates, three literals, reduced alphabet
        sc("g3i2s", 2, 3, 3, Alpha::Slim, 96, true),
        // dangling gate references (behaviour recorded, judged only when unreachable)
        sc("g1i1o", 1, 1, 3, Alpha::Oob, 1, false),
        sc("g2i1o", 1, 2, 2, Alpha::Oob, 1, false),
        sc("g3i1o", 1, 3, 1, Alpha::Oob, 1, true),
    ]
}

fn alphabet(cfg: &SimpCfg, gate: usize) -> Vec<L> {
    let mut v = vec![];
    if cfg.alpha == Alpha::Slim {
        v.push(L::C(true));
        v.push(L::I(false, 0));
        v.push(L::I(true, 0));
        v.push(L::I(false, 1));
        v.push(L::G(false, (gate + 1) % cfg.gates));
        v.push(L::G(true, (gate + 2) % cfg.gates));
        return v;
    }
    if cfg.alpha == Alpha::Lean {
        v.push(L::C(true));
        for k in 0..cfg.inputs {
            v.push(L::I(false, k));
            v.push(L::I(true, k));
        }
        for j in 0..cfg.gates {
            v.push(L::G(false, j));
            v.push(L::G(true, j));
        }
        return v;
    }
    v.push(L::C(false));
    v.push(L::C(true));
    for k in 0..cfg.inputs {
        v.push(L::I(false, k));
        v.push(L::I(true, k));
    }
    for j in 0..cfg.gates {
        v.push(L::G(false, j));
        v.push(L::G(true, j));
    }
    if cfg.alpha == Alpha::Known {
        return v;
    }
    v.push(L::I(false, cfg.inputs));
    match cfg.alpha {
        Alpha::Wide => {
            v.push(L::I(true, cfg.inputs));
            v.push(L::I(false, UNDEF_IN));
            v.push(L::I(true, UNDEF_IN));
        }
        Alpha::Oob => {
            v.push(L::G(false, cfg.gates));
            v.push(L::G(true, cfg.gates));
        }
        _ => {}
    }
    v
}

/// number of gate definitions: 3 kinds x sum_{l <= maxlits} a^l
fn gate_codes(a: usize, maxlits: usize) -> usize {
    let mut s = 0;
    let mut p = 1;
    for _ in 0..=maxlits {
        s += p;
        p *= a;
    }
    3 * s
}

/// decode a gate code: shorter literal lists first, kind varies fastest
fn decode_gate(code: usize, alpha: &[L], out: &mut MGate) {
    out.kind = (code % 3) as u8;
    let mut s = code / 3;
    let a = alpha.len();
    let mut len = 0;
    let mut p = 1;
    while s >= p {
        s -= p;
        p *= a;
        len += 1;
    }
    out.lits.clear();
    for _ in 0..len {
        out.lits.push(alpha[s % a]);
        s /= a;
    }
}

fn root_sets(g: usize) -> Vec<Vec<L>> {
    let mut v: Vec<Vec<L>> = (0..g).map(|i| vec![L::G(false, i)]).collect();
    if g >= 2 {
        v.push((0..g).map(|i| L::G(i % 2 == 1, i)).collect());
        v.push((0..g).rev().map(|i| L::G(false, i)).collect());
    }
    v
}

fn quiet_panics<T>(f: impl FnOnce() -> T) -> T {
    // a defect in simplify can panic millions of times inside one tier; keep stderr small
    let old = std::panic::take_hook();
    std::panic::set_hook(Box::new(|info| {
        let loc = info.location().map(|l| format!("{}:{}", l.file(), l.line())).unwrap_or_else(|| "<unknown>".into());
        let msg = if let Some(s) = info.payload().downcast_ref::<&str>() {
            s.to_string()
        } else if let Some(s) = info.payload().downcast_ref::<String>() {
            s.clone()
        } else {
            "<non-string panic payload>".to_string()
        };
        if let Ok(mut g) = crate::proto::LAST_PANIC.lock() {
            *g = Some((loc, msg));
        }
    }));
    let r = f();
    std::panic::set_hook(old);
    r
}

struct Tally(BTreeMap<&'static str, u64>);
impl Tally {
    fn add(&mut self, k: &'static str) {
        *self.0.entry(k).or_insert(0) += 1;
    }
    fn flush(self, ctx: &mut Ctx, prefix: &str) {
        for (k, n) in self.0 {
            ctx.outcome(&format!("{prefix}{k}"));
            ctx.count(&format!("outcome:{prefix}{k}"), n);
        }
    }
}

fn simp_case_json(cfg: &SimpCfg, gates: &[MGate], roots: &[L], res: &str, expected: &str) -> Value {
    json!({
        "part": "simplify", "tier_cfg": cfg.name, "inputs": cfg.inputs,
        "gates": gates.iter().map(gstr).collect::<Vec<_>>(),
        "roots": roots.iter().map(|&l| lstr(l)).collect::<Vec<_>>(),
        "result": res,
        "documented_expectation": expected,
        "how_to_rerun": "Circuit::new(VarSet::new(inputs)); per gate push_gate(kind) + push_gate_inputs(literals); simplify(roots)",
    })
}

fn run_simp(ctx: &mut Ctx, cfg: SimpCfg, shard: usize) {
    let g = cfg.gates;
    let alphas: Vec<Vec<L>> = (0..g).map(|k| alphabet(&cfg, k)).collect();
    let p = gate_codes(alphas[0].len(), cfg.maxlits);
    let inner: usize = (1..g).map(|_| p).product();
    // group = chunk of values of the outermost gate code
    let chunk = (400_000 / inner.max(1)).clamp(1, p);
    let my: Vec<usize> = (0..p).filter(|c0| c0 % cfg.shards == shard).collect();
    let rsets = root_sets(g);
    let ev = Ev::new(cfg.inputs);
    for part in my.chunks(chunk) {
        let label = format!("simp:{}:c0={}..{}", cfg.name, part[0], part[part.len() - 1]);
        ctx.group(&label, |ctx| {
            let mut tally = Tally(BTreeMap::new());
            let mut evals = 0u64;
            let mut nontriv = 0u64;
            let mut gates: Vec<MGate> = (0..g).map(|_| MGate { kind: 0, lits: vec![] }).collect();
            let mut body = |ctx: &mut Ctx| {
                for &c0 in part {
                    decode_gate(c0, &alphas[0], &mut gates[0]);
                    for rest in 0..inner {
                        let mut x = rest;
                        for k in 1..g {
                            decode_gate(x % p, &alphas[k], &mut gates[k]);
                            x /= p;
                        }
                        let ana = analyse(&ev, &gates);
                        let lib = build_lib(cfg.inputs, &gates);
                        for roots in &rsets {
                            evals += 1;
                            let lroots: Vec<Literal> = roots.iter().map(|&l| to_lib(l)).collect();
                            let res = std::panic::catch_unwind(std::panic::AssertUnwindSafe(|| lib.simplify(lroots.iter().copied())));
                            let res = match res {
                                Ok(r) => r,
                                Err(_) => {
                                    let (loc, msg) = crate::proto::take_panic();
                                    // a panic is acceptable only in undocumented territory
                                    let mut nt = false;
                                    let dummy: Result<(Circuit, Vec<Literal>), Literal> = Err(Literal::FALSE);
                                    if let Ok(lbl) = judge(&ev, &gates, &ana, roots, &dummy, &mut nt) {
                                        if lbl.starts_with("dangling") {
                                            tally.add("dangling:panic");
                                            continue;
                                        }
                                    }
                                    let site = shorten_site(&crate::proto::short_site(&loc));
                                    ctx.viol(
                                        attrs(&[("part", "simplify"), ("class", "panic"), ("panic", "1"), ("site", &site)]),
                                        simp_case_json(&cfg, &gates, roots, "panic", expectation(&ev, &gates, &ana, roots)),
                                        &format!("simplify panicked at {site}: {msg} on [{}] roots {:?}", cstr(cfg.inputs, &gates), roots.iter().map(|&l| lstr(l)).collect::<Vec<_>>()),
                                    );
                                    continue;
                                }
                            };
                            let mut nt = false;
                            match judge(&ev, &gates, &ana, roots, &res, &mut nt) {
                                Ok(lbl) => {
                                    tally.add(lbl);
                                    if nt {
                                        nontriv += 1;
                                    }
                                }
                                Err(v) => {
                                    let rs = match &res {
                                        Ok((c, m)) => format!("Ok([{}], map={:?})", cstr(cfg.inputs, &read_lib(c)), m.iter().map(|&l| lstr(from_lib(l))).collect::<Vec<_>>()),
                                        Err(l) => format!("Err({})", lstr(from_lib(*l))),
                                    };
                                    ctx.viol(
                                        attrs(&[("part", "simplify"), ("class", v.class), ("kind", &v.kind)]),
                                        simp_case_json(&cfg, &gates, roots, &rs, expectation(&ev, &gates, &ana, roots)),
                                        &format!("[{}] roots {:?}: {} -- got {rs}", cstr(cfg.inputs, &gates), roots.iter().map(|&l| lstr(l)).collect::<Vec<_>>(), v.msg),
                                    );
                                }
                            }
                        }
                    }
                }
            };
            quiet_panics(|| body(ctx));
            ctx.count("evaluations", evals);
            ctx.count("simplify_calls", evals);
            ctx.count("nontrivial", nontriv);
            tally.flush(ctx, "simp:");
        });
    }
    if shard == 0 {
        ctx.sample(|| json!({"part": "simplify", "cfg": cfg.name, "alphabet_gate0": alphas[0].iter().map(|&l| lstr(l)).collect::<Vec<_>>(), "gate_definitions_per_gate": p, "root_sets": rsets.len()}));
    }
}


// ---------------------------------------------------------------------------------------------
// simplification of parsed problems (Problem::simplify) against the same oracle
// ---------------------------------------------------------------------------------------------

fn shorten_site(site: &str) -> String {
    match site.find("/registry/src/") {
        Some(i) => {
            let rest = &site[i + "/registry/src/".len()..];
            rest.split_once('/').map(|x| x.1.to_string()).unwrap_or_else(|| rest.to_string())
        }
        None => site.to_string(),
    }
}

/// `roots`: None = the detail literals cannot be read through the public API (AIGER files with
/// bad/invariant/justice/fairness sections): only absence of a panic is demanded
fn check_problem_simplify(ctx: &mut Ctx, p: &Problem, roots: Option<Vec<L>>, base: &BTreeMap<String, String>, case: &dyn Fn() -> Value, tally: &mut Tally) {
    let mut a = base.clone();
    a.insert("entry".into(), "Problem::simplify".into());
    let Some(res) = ctx.guarded(&a, case, || p.simplify()) else { return };
    let ninputs = p.circuit.inputs().len();
    let gates = read_lib(&p.circuit);
    let Some(roots) = roots else { return };
    if ninputs > 6 || gates.len() > 64 {
        tally.add("psimp:too_large_for_truth_table");
        return;
    }
    let ev = Ev::new(ninputs);
    let ana = analyse(&ev, &gates);
    let res2: Result<(Circuit, Vec<Literal>), Literal> = match &res {
        Ok((np, map)) => {
            if np.details != p.details.apply_gate_map(map) {
                a.insert("class".into(), "details_not_mapped".into());
                ctx.viol(a.clone(), case(), "Problem::simplify: details of the result differ from details.apply_gate_map(map)");
            }
            Ok((np.circuit.clone(), map.clone()))
        }
        Err(l) => Err(*l),
    };
    let mut nt = false;
    match judge(&ev, &gates, &ana, &roots, &res2, &mut nt) {
        Ok(lbl) => tally.add(match lbl {
            "ok_gates" => "psimp:ok_gates",
            "ok_collapsed" => "psimp:ok_collapsed",
            "err_cycle" => "psimp:err_cycle",
            "err_unknown" => "psimp:err_unknown",
            "ok_unknown_masked" => "psimp:ok_unknown_masked",
            _ => "psimp:dangling",
        }),
        Err(v) => {
            a.insert("class".into(), v.class.into());
            a.insert("kind".into(), v.kind.clone());
            let rs = match &res2 {
                Ok((c, m)) => format!("Ok([{}], map={:?})", cstr(ninputs, &read_lib(c)), m.iter().map(|&l| lstr(from_lib(l))).collect::<Vec<_>>()),
                Err(l) => format!("Err({})", lstr(from_lib(*l))),
            };
            ctx.viol(a, case(), &format!("Problem::simplify of the parsed circuit [{}] roots {:?}: {} -- got {rs}", cstr(ninputs, &gates), roots.iter().map(|&l| lstr(l)).collect::<Vec<_>>(), v.msg));
        }
    }
}

fn problem_roots(p: &Problem, aiger_plain: bool) -> Option<Vec<L>> {
    match &p.details {
        ProblemDetails::Root(l) => Some(vec![from_lib(*l)]),
        ProblemDetails::AIGER(aig) => {
            if !aiger_plain {
                return None;
            }
            Some(aig.latches().iter().chain(aig.outputs().iter()).map(|&l| from_lib(l)).collect())
        }
    }
}

// ---------------------------------------------------------------------------------------------
// part 2: parser totality
// ---------------------------------------------------------------------------------------------

#[derive(Clone, Copy, PartialEq, Eq, Debug)]
enum Fmt {
    Cnf,
    Sat,
    Aag,
    Aig,
    Nnf,
}
const FMTS: [Fmt; 5] = [Fmt::Cnf, Fmt::Sat, Fmt::Aag, Fmt::Aig, Fmt::Nnf];

impl Fmt {
    fn name(self) -> &'static str {
        match self {
            Fmt::Cnf => "cnf",
            Fmt::Sat => "sat",
            Fmt::Aag => "aag",
            Fmt::Aig => "aig",
            Fmt::Nnf => "nnf",
        }
    }
    fn from_name(s: &str) -> Fmt {
        *FMTS.iter().find(|f| f.name() == s).expect("format")
    }
    /// (var_order, clause_tree, check_acyclic) combinations that the format's parser looks at
    fn opt_combos(self) -> Vec<(bool, bool, bool)> {
        match self {
            Fmt::Cnf | Fmt::Sat => vec![(false, false, true), (true, false, true), (false, true, true), (true, true, true)],
            Fmt::Aag | Fmt::Aig => vec![(false, false, true), (false, false, false)],
            Fmt::Nnf => vec![(false, false, true), (true, false, true), (false, false, false), (true, false, false)],
        }
    }
}

fn mkopts(o: (bool, bool, bool)) -> ParseOptions {
    ParseOptionsBuilder::default().var_order(o.0).clause_tree(o.1).check_acyclic(o.2).build().unwrap()
}

/// the nom-level entry points, error type `()`
fn parse_direct(fmt: Fmt, opts: &ParseOptions, input: &[u8]) -> Result<(usize, Problem), ()> {
    match fmt {
        Fmt::Cnf | Fmt::Sat => match oxidd_parser::dimacs::parse::<()>(opts)(input) {
            Ok((rest, p)) => Ok((rest.len(), p)),
            Err(_) => Err(()),
        },
        Fmt::Aag | Fmt::Aig => {
            let mut f = oxidd_parser::aiger::parse::<()>(opts);
            match f(input) {
                Ok((rest, p)) => Ok((rest.len(), p)),
                Err(_) => Err(()),
            }
        }
        Fmt::Nnf => {
            let mut f = oxidd_parser::nnf::parse::<()>(opts);
            match f(input) {
                Ok((rest, p)) => Ok((rest.len(), p)),
                Err(_) => Err(()),
            }
        }
    }
}

fn show_bytes(b: &[u8]) -> String {
    let mut s = String::new();
    for &c in b {
        match c {
            b'\n' => s += "\\n",
            b'\\' => s += "\\\\",
            0x20..=0x7e => s.push(c as char),
            _ => s += &format!("\\x{c:02x}"),
        }
    }
    s
}

fn parser_case_json(fmt: Fmt, o: (bool, bool, bool), input: &[u8], origin: &str) -> Value {
    json!({"part": "parser", "format": fmt.name(), "origin": origin, "input": show_bytes(input), "input_hex": input.iter().map(|b| format!("{b:02x}")).collect::<String>(),
           "options": {"var_order": o.0, "clause_tree": o.1, "check_acyclic": o.2},
           "how_to_rerun": "oxidd_parser::{dimacs|aiger|nnf}::parse::<()>(&options)(input) resp. write the bytes to a file with the format's extension and call oxidd_parser::load_file(path, &options)"})
}

fn aiger_is_plain(input: &[u8]) -> bool {
    let line = input.split(|&b| b == b'\n' || b == b'\r').next().unwrap_or(&[]);
    let toks: Vec<&[u8]> = line.split(|&b| b == b' ' || b == b'\t').filter(|t| !t.is_empty()).collect();
    toks.iter().skip(6).all(|t| t.iter().all(|&b| b == b'0'))
}

struct TmpDir(std::path::PathBuf);
impl TmpDir {
    fn new() -> Self {
        let p = std::env::temp_dir().join(format!("vcheck_c18_{}", std::process::id()));
        let _ = std::fs::create_dir_all(&p);
        TmpDir(p)
    }
    fn file(&self, fmt: Fmt) -> std::path::PathBuf {
        self.0.join(format!("in.{}", fmt.name()))
    }
}
impl Drop for TmpDir {
    fn drop(&mut self) {
        let _ = std::fs::remove_dir_all(&self.0);
    }
}

struct PStats {
    evals: u64,
    accepted: u64,
    tally: Tally,
}

/// one input through all option combinations of its parser (+ `load_file` if `tmp` is given)
fn run_parser_case(ctx: &mut Ctx, fmt: Fmt, input: &[u8], tmp: Option<&TmpDir>, st: &mut PStats, origin: &str) {
    for o in fmt.opt_combos() {
        let opts = mkopts(o);
        st.evals += 1;
        let case = || parser_case_json(fmt, o, input, origin);
        let a = attrs(&[("part", "parser"), ("format", fmt.name()), ("entry", "parse")]);
        let direct = match ctx.guarded(&a, case, || parse_direct(fmt, &opts, input)) {
            None => {
                st.tally.add("parse:panic");
                None
            }
            Some(Err(())) => {
                st.tally.add("parse:err");
                Some(false)
            }
            Some(Ok((rest, p))) => {
                st.accepted += 1;
                st.tally.add(if rest == 0 { "parse:ok" } else { "parse:ok_with_rest" });
                let base = attrs(&[("part", "parsed_simplify"), ("format", fmt.name())]);
                let plain = !matches!(fmt, Fmt::Aag | Fmt::Aig) || aiger_is_plain(input);
                check_problem_simplify(ctx, &p, problem_roots(&p, plain), &base, &case, &mut st.tally);
                Some(true)
            }
        };
        if let (Some(tmp), Some(_)) = (tmp, direct) {
            let path = tmp.file(fmt);
            if std::fs::write(&path, input).is_err() {
                panic!("cannot write {path:?}");
            }
            st.evals += 1;
            let a = attrs(&[("part", "parser"), ("format", fmt.name()), ("entry", "load_file")]);
            match ctx.guarded(&a, case, || oxidd_parser::load_file(&path, &opts).is_some()) {
                None => st.tally.add("load_file:panic"),
                Some(ok) => {
                    st.tally.add(if ok { "load_file:some" } else { "load_file:none" });
                    if let Some(d) = direct {
                        if d != ok {
                            let mut a = a.clone();
                            a.insert("class".into(), "load_file_disagrees".into());
                            ctx.viol(a, case(), &format!("parse returned {} but load_file returned {} for {}", if d { "Ok" } else { "Err" }, if ok { "Some" } else { "None" }, show_bytes(input)));
                        }
                    }
                }
            }
        }
    }
}

const BIG: &[u8] = b"99999999999999999999";

macro_rules! toks {
    ($($t:expr),* $(,)?) => { vec![$(&$t[..]),*] };
}

fn token_alphabet(fmt: Fmt, structured: bool) -> Vec<&'static [u8]> {
    match (fmt, structured) {
        (Fmt::Cnf, false) => toks![b"p", b"cnf", b" ", b"\n", b"0", b"1", b"2", BIG, b"-", b"c", b"x", b"\xff"],
        (Fmt::Cnf, true) => toks![b"p cnf 2 2\n", b"p cnf 1 0\n", b"c\n", b"c 1 a\n", b"c 2\n", b"c vo [1,2]\n", b"c co [0,1]\n", b"1 ", b"-2 ", b"0\n", b"x ", b"3 ", b"\xff"],
        (Fmt::Sat, false) => toks![b"p", b"sat", b"satex", b" ", b"\n", b"1", b"2", b"(", b")", b"-", b"*", b"+", b"xor", b"=", b"\xff"],
        (Fmt::Sat, true) => toks![b"p sat 2\n", b"p satex 2\n", b"c 1 a\n", b"c 2\n", b"(", b")", b"-", b"*", b"+", b"xor ", b"=", b"1 ", b"2 ", b"3 ", b"\xff"],
        (Fmt::Aag, false) => toks![b"aag", b" ", b"\n", b"0", b"1", b"2", b"3", b"4", BIG, b"c", b"i0 x\n", b"\xff"],
        (Fmt::Aag, true) => toks![b"aag 1 1 0 1 0\n", b"aag 2 1 0 1 1\n", b"aag 1 0 1 1 0\n", b"aag 3 1 0 1 2\n", b"2\n", b"3\n", b"4 2 3\n", b"4 6 2\n", b"6 4 4\n", b"2 3\n", b"2 3 2\n", b"i0 x\n", b"o0 y\n", b"l0 z\n", b"c\n", b"\xff"],
        (Fmt::Aig, false) => toks![b"aig", b" ", b"\n", b"0", b"1", b"2", b"3", b"\x01", b"\x02", b"\x80", b"\xff", b"i0 x\n", b"c"],
        (Fmt::Aig, true) => toks![b"aig 1 1 0 1 0\n", b"aig 2 1 0 1 1\n", b"aig 2 0 1 1 1\n", b"aig 3 1 1 1 1\n", b"2\n", b"3\n", b"4 1\n", b"2 4\n", b"\x01\x01", b"\x02\x01", b"\x03\x00", b"\x80", b"\x81\x00", b"i0 x\n", b"l0 z\n", b"c\n", b"\xff"],
        (Fmt::Nnf, false) => toks![b"nnf", b" ", b"\n", b"0", b"1", b"2", b"A", b"O", b"L", b"X", b"-", b"c", BIG, b"\xff"],
        (Fmt::Nnf, true) => toks![b"nnf 1 0 1\n", b"nnf 2 1 1\n", b"nnf 3 2 2\n", b"c 1 a\n", b"c 2 b\n", b"c vo [1,2]\n", b"L 1\n", b"L -2\n", b"A 0\n", b"A 1 0\n", b"A 2 0 1\n", b"A 1 1\n", b"O 0 0\n", b"O 0 2 0 1\n", b"O 1 2 0 1\n", b"X 2 0 0\n", b"\xff"],
    }
}

fn tok_maxlen(structured: bool, thorough: bool) -> usize {
    match (structured, thorough) {
        (false, false) => 5,
        (false, true) => 6,
        (true, false) => 4,
        (true, true) => 5,
    }
}
/// sequences up to this length additionally go through `load_file`
fn tok_loadfile_len(thorough: bool) -> usize {
    if thorough { 4 } else { 3 }
}

fn seq_count(a: usize, maxlen: usize) -> usize {
    let mut s = 0;
    let mut p = 1;
    for _ in 0..=maxlen {
        s += p;
        p *= a;
    }
    s
}

fn decode_seq(mut idx: usize, alpha: &[&'static [u8]], out: &mut Vec<u8>) -> usize {
    let a = alpha.len();
    let mut len = 0;
    let mut p = 1;
    while idx >= p {
        idx -= p;
        p *= a;
        len += 1;
    }
    out.clear();
    for _ in 0..len {
        out.extend_from_slice(alpha[idx % a]);
        idx /= a;
    }
    len
}

const TOK_GROUP: usize = 25_000;
const TOK_GROUP_LF: usize = 500;
const TOK_SHARDS: usize = 4;

fn run_tok(ctx: &mut Ctx, fmt: Fmt, structured: bool, shard: usize) {
    let alpha = token_alphabet(fmt, structured);
    let thorough = ctx.thorough();
    let maxlen = tok_maxlen(structured, thorough);
    let lf_len = tok_loadfile_len(thorough);
    let total = seq_count(alpha.len(), maxlen);
    // group boundaries: small groups where load_file is used (slow), large ones afterwards
    let lf_total = seq_count(alpha.len(), lf_len.min(maxlen));
    let mut bounds = vec![];
    let mut lo = 0;
    while lo < total {
        let hi = if lo < lf_total { (lo + TOK_GROUP_LF).min(lf_total) } else { (lo + TOK_GROUP).min(total) };
        bounds.push((lo, hi));
        lo = hi;
    }
    let kind = if structured { "lines" } else { "raw" };
    for (gi, &(lo, hi)) in bounds.iter().enumerate() {
        if gi % TOK_SHARDS != shard {
            continue;
        }
        ctx.group(&format!("tok:{}:{kind}:seq={lo}..{hi}", fmt.name()), |ctx| {
            let tmp = TmpDir::new();
            let mut st = PStats { evals: 0, accepted: 0, tally: Tally(BTreeMap::new()) };
            let mut buf = Vec::new();
            for idx in lo..hi {
                let len = decode_seq(idx, &alpha, &mut buf);
                let origin = format!("token sequence #{idx} over the {kind} alphabet");
                run_parser_case(ctx, fmt, &buf, if len <= lf_len { Some(&tmp) } else { None }, &mut st, &origin);
            }
            ctx.count("evaluations", st.evals);
            ctx.count("parser_inputs", (hi - lo) as u64);
            ctx.count("parser_calls", st.evals);
            ctx.count("nontrivial", st.accepted);
            st.tally.flush(ctx, &format!("{}:", fmt.name()));
        });
    }
    if shard == 0 {
        ctx.sample(|| json!({"part": "parser", "format": fmt.name(), "alphabet": alpha.iter().map(|t| show_bytes(t)).collect::<Vec<_>>(), "max_len": maxlen, "sequences": total}));
    }
}

/// the example inputs of the crate's own tests (dimacs.rs, aiger.rs, nnf.rs) plus two inputs with
/// variable order / clause tree comments (the tests have none)
fn examples(fmt: Fmt) -> Vec<(&'static str, Vec<u8>)> {
    let v: Vec<(&'static str, &[u8])> = match fmt {
        Fmt::Cnf => vec![
            ("example_cnf", &b"c Example CNF format file\nc\np cnf 4 3\n1 3 -4 0\n4 0 2\n-3"[..]),
            ("example_cnf_0term", &b"c Example CNF format file\nc\np cnf 4 3\n1 3 -4 0\n4 0 2\n-3 0"[..]),
            ("empty_cnf", &b"p cnf 0 0\n"[..]),
            ("own_ordered_cnf", &b"c 2 b\nc 1 a\nc 3\nc co [[0, 1], 2]\np cnf 3 3\n1 -2 0\nx 2 3 0\n-1 0\n"[..]),
            ("own_tree_cnf", &b"c vo [[1, 2], 3]\nc 1 a\nc co [0, [1, 2]]\np cnf 3 3\n1 -2 0\n2 3 0\n-1 0\n"[..]),
        ],
        Fmt::Sat => vec![
            ("example_sat", &b"c Sample SAT format\nc\np sat 4\n(*(+(1 3 -4)\n    +(4)\n    +(2 3)))"[..]),
            ("preamble_satx", &b"p satx 1337 \n"[..]),
            ("preamble_sate", &b"p sate 1\n"[..]),
            ("preamble_satex", &b"p satex 42 \n"[..]),
            ("own_ordered_satex", &b"c 1 a\nc 2 b\nc vo [2, 1]\np satex 2\n=(xor(1 -2) *(1 2) -(+(1)))"[..]),
        ],
        Fmt::Aag => vec![
            ("empty", &b"aag 0 0 0 0 0\n"[..]),
            ("false_out", &b"aag 0 0 0 1 0\n0\n"[..]),
            ("true_out", &b"aag 0 0 0 1 0\n1\n"[..]),
            ("in_out", &b"aag 1 1 0 1 0\n2\n2\n"[..]),
            ("neg", &b"aag 1 1 0 1 0\n2\n3\n"[..]),
            ("and", &b"aag 3 2 0 1 1\n2\n4\n6\n6 4 2\n"[..]),
            ("or", &b"aag 3 2 0 1 1\n2\n4\n7\n6 5 3\n"[..]),
            ("half_adder", &b"aag 7 2 0 2 3\n2\n4\n6\n12\n6 13 15\n12 2 4\n14 3 5\ni0 x\ni1 y\no0 s\no1 c\nc\nhalf adder\n"[..]),
            ("toggle", &b"aag 1 0 1 2 0\n2 3\n2\n3\n"[..]),
            ("toggle_with_reset", &b"aag 7 2 1 2 4\n2\n4\n6 8\n6\n7\n8 4 10\n10 13 15\n12 2 6\n14 3 7\ni0 toggle\ni1 ~reset\no0 q\no1 ~q\nl0 q\nc foobar\n"[..]),
            ("bad_and_invariant", &b"aag 5 1 1 0 3 1 1\n2\n4 10 0\n4\n3\n6 5 3\n8 4 2\n10 9 7\n"[..]),
            ("extra_properties", &b"aag 3 2 0 1 1 1 1 2 1\n2\n4\n6\n2\n3\n1\n2\n1\n4\n5\n6\n6 4 2\n"[..]),
        ],
        Fmt::Aig => vec![
            ("empty", &b"aig 0 0 0 0 0\n"[..]),
            ("false_out", &b"aig 0 0 0 1 0\n0\n"[..]),
            ("true_out", &b"aig 0 0 0 1 0\n1\n"[..]),
            ("in_out", &b"aig 1 1 0 1 0\n2\n"[..]),
            ("neg", &b"aig 1 1 0 1 0\n3\n"[..]),
            ("and", &b"aig 3 2 0 1 1\n6\n\x02\x02"[..]),
            ("or", &b"aig 3 2 0 1 1\n7\n\x01\x02"[..]),
            ("half_adder", &b"aig 5 2 0 2 3\n10\n6\n\x02\x02\x03\x02\x01\x02i0 x\ni1 y\no0 s\no1 c\nc\nhalf adder\n"[..]),
            ("toggle", &b"aig 1 0 1 2 0\n3\n2\n3\n"[..]),
            ("toggle_with_reset", &b"aig 7 2 1 2 4\n14\n6\n7\n\x02\x04\x03\x04\x01\x02\x02\x08"[..]),
            ("bad_and_invariant", &b"aig 5 1 1 0 3 1 1\n10 0\n4\n3\n\x01\x02\x04\x02\x01\x02"[..]),
            ("extra_properties", &b"aig 3 2 0 1 1 1 1 2 1\n6\n2\n3\n1\n2\n1\n4\n5\n6\n\x02\x02"[..]),
        ],
        Fmt::Nnf => vec![
            ("c2d_example", &b"nnf 15 17 4\nL -3\nL -2\nL 1\nA 3 2 1 0\nL 3\nO 3 2 4 3\nL -4\nA 2 6 5\nL 4\nA 2 2 8\nA 2 1 4\nL 2\nO 2 2 11 10\nA 2 12 9\nO 4 2 13 7\n"[..]),
            ("own_ordered_nnf", &b"c 2 b\nc 1 a\nc vo [[2], 1]\nnnf 5 4 2\nL 1\nL -2\nX 2 0 1\nA 0\nO 0 2 2 3\n"[..]),
        ],
    };
    v.into_iter().map(|(n, b)| (n, b.to_vec())).collect()
}

const SUBST: [u8; 10] = [b'0', b'1', b'9', b'-', b' ', b'\n', b'a', b'[', 0x80, 0xff];

fn run_mut(ctx: &mut Ctx, fmt: Fmt) {
    let thorough = ctx.thorough();
    for (name, ex) in examples(fmt) {
        // the unmodified example must be accepted under the default options (sanity of the seeds)
        ctx.group(&format!("mut:{}:{name}:prefixes", fmt.name()), |ctx| {
            let tmp = TmpDir::new();
            let mut st = PStats { evals: 0, accepted: 0, tally: Tally(BTreeMap::new()) };
            for cut in 0..=ex.len() {
                run_parser_case(ctx, fmt, &ex[..cut], Some(&tmp), &mut st, &format!("prefix of length {cut} of example {name}"));
            }
            ctx.count("evaluations", st.evals);
            ctx.count("parser_inputs", ex.len() as u64 + 1);
            ctx.count("parser_calls", st.evals);
            ctx.count("nontrivial", st.accepted);
            st.tally.flush(ctx, &format!("{}:", fmt.name()));
        });
        let bytes: Vec<u8> = if thorough { (0..=255u8).collect() } else { SUBST.to_vec() };
        for (ci, chunk) in (0..ex.len()).collect::<Vec<_>>().chunks(if thorough { 8 } else { 64 }).enumerate() {
            ctx.group(&format!("mut:{}:{name}:subst:{ci}", fmt.name()), |ctx| {
                let tmp = TmpDir::new();
                let mut st = PStats { evals: 0, accepted: 0, tally: Tally(BTreeMap::new()) };
                let mut n = 0u64;
                for &pos in chunk {
                    for &b in &bytes {
                        if ex[pos] == b {
                            continue;
                        }
                        let mut m = ex.clone();
                        m[pos] = b;
                        n += 1;
                        run_parser_case(ctx, fmt, &m, Some(&tmp), &mut st, &format!("example {name} with byte {pos} replaced by {b:#04x}"));
                    }
                }
                ctx.count("evaluations", st.evals);
                ctx.count("parser_inputs", n);
                ctx.count("parser_calls", st.evals);
                ctx.count("nontrivial", st.accepted);
                st.tally.flush(ctx, &format!("{}:", fmt.name()));
            });
        }
    }
}

// ---- header counts at the crate's own limit; every case in a child process -------------------

const MAXCAP: &str = "1152921504606846975"; // util::MAX_CAPACITY on 64 bit

fn huge_cases() -> Vec<(Fmt, &'static str, String, (bool, bool, bool))> {
    let m = MAXCAP;
    let d = (false, false, true);
    vec![
        (Fmt::Aag, "vars", format!("aag {m} 0 0 0 0\n"), d),
        (Fmt::Aag, "ands", format!("aag {m} 0 0 0 {m}\n"), d),
        (Fmt::Aag, "latches", format!("aag {m} 0 {m} 0 0\n"), d),
        (Fmt::Aag, "outputs", format!("aag 0 0 0 {m} 0\n"), d),
        (Fmt::Aag, "justice_len", format!("aag 0 0 0 0 0 0 0 1\n{m}\n"), d),
        (Fmt::Aig, "ands", format!("aig {m} 0 0 0 {m}\n"), d),
        (Fmt::Aig, "latches", format!("aig {m} 0 {m} 0 0\n"), d),
        (Fmt::Cnf, "vars", format!("p cnf {m} 0\n"), d),
        (Fmt::Cnf, "clauses", format!("p cnf 0 {m}\n"), d),
        (Fmt::Cnf, "order_var", format!("c {m} a\np cnf 1 0\n"), (true, false, true)),
        (Fmt::Cnf, "order_tree", format!("c vo [{m}]\np cnf 1 0\n"), (true, false, true)),
        (Fmt::Cnf, "clause_tree", format!("c co [{m}]\np cnf 1 1\n1 0\n"), (false, true, true)),
        (Fmt::Sat, "vars", format!("p sat {m}\n1"), d),
        (Fmt::Nnf, "nodes", format!("nnf {m} 0 0\n"), d),
        (Fmt::Nnf, "edges", format!("nnf 1 {m} 1\nL 1\n"), d),
        (Fmt::Nnf, "inputs", format!("nnf 1 0 {m}\nL 1\n"), d),
    ]
}

fn run_huge(ctx: &mut Ctx) {
    let mut spawn_failures = 0;
    for (i, (fmt, what, input, o)) in huge_cases().into_iter().enumerate() {
        ctx.group(&format!("huge:{}:{what}", fmt.name()), |ctx| {
            let exe = std::env::current_exe().expect("current_exe");
            let mut child = None;
            for _attempt in 0..100 {
                match std::process::Command::new(&exe)
                    .args(["worker", "C18", &format!("hugecase:{i}"), "--tier", "quick"])
                    .stdin(std::process::Stdio::null())
                    .stdout(std::process::Stdio::null())
                    .stderr(std::process::Stdio::piped())
                    .spawn()
                {
                    Ok(c) => {
                        child = Some(c);
                        break;
                    }
                    Err(_) => std::thread::sleep(std::time::Duration::from_millis(200)),
                }
            }
            let Some(mut child) = child else {
                spawn_failures += 1;
                return;
            };
            let start = std::time::Instant::now();
            let status = loop {
                match child.try_wait() {
                    Ok(Some(st)) => break Some(st),
                    Ok(None) if start.elapsed().as_secs() > 60 => {
                        let _ = child.kill();
                        let _ = child.wait();
                        break None;
                    }
                    Ok(None) => std::thread::sleep(std::time::Duration::from_millis(2)),
                    Err(_) => break None,
                }
            };
            let mut err = String::new();
            if let Some(mut e) = child.stderr.take() {
                use std::io::Read;
                let _ = e.read_to_string(&mut err);
            }
            let last = err.lines().rev().find(|l| !l.trim().is_empty()).unwrap_or("").to_string();
            ctx.count("evaluations", 1);
            ctx.count("parser_inputs", 1);
            ctx.count("parser_calls", 1);
            let case = parser_case_json(fmt, o, input.as_bytes(), &format!("header count {what} = MAX_CAPACITY"));
            let base = [("part", "parser"), ("format", fmt.name()), ("entry", "parse")];
            match status {
                None => {
                    let mut a = attrs(&base);
                    a.insert("class".into(), "huge_count_hang".into());
                    ctx.viol(a, case, &format!("no answer within 60 s for {}", show_bytes(input.as_bytes())));
                    ctx.outcome("huge:hang");
                }
                Some(st) if st.code() == Some(0) => ctx.outcome("huge:ok_or_err"),
                Some(st) if st.code() == Some(3) => {
                    let mut a = attrs(&base);
                    a.insert("class".into(), "huge_count_panic".into());
                    ctx.viol(a, case, &format!("panic for {}: {last}", show_bytes(input.as_bytes())));
                    ctx.outcome("huge:panic");
                }
                Some(st) => {
                    let mut a = attrs(&base);
                    a.insert("class".into(), "huge_count_abort".into());
                    ctx.viol(a, case, &format!("process died ({st}) for {}: {last}", show_bytes(input.as_bytes())));
                    ctx.outcome("huge:abort");
                }
            }
        });
    }
    if spawn_failures > 0 {
        // not a verdict about the subject: let the driver report a machinery error
        eprintln!("C18 huge: could not spawn {spawn_failures} child process(es)");
        std::process::exit(98);
    }
}

fn run_hugecase(i: usize) -> ! {
    let (fmt, _, input, o) = huge_cases().swap_remove(i);
    let opts = mkopts(o);
    let r = std::panic::catch_unwind(|| parse_direct(fmt, &opts, input.as_bytes()).is_ok());
    std::process::exit(if r.is_ok() { 0 } else { 3 });
}

// ---------------------------------------------------------------------------------------------
// part 3: AIGER ASCII == binary
// ---------------------------------------------------------------------------------------------

/// and-inverter graph in AIGER numbering: variables 1..=i inputs, then l latches, then the and
/// gates; and gate k has lhs 2*(i+l+k+1) > rhs0 >= rhs1 (what the binary format can express)
#[derive(Clone, Debug, Default)]
struct Aig {
    i: usize,
    /// (next-state literal, init: 0 absent, 1 "0", 2 "1", 3 the latch literal itself)
    latches: Vec<(usize, u8)>,
    outputs: Vec<usize>,
    ands: Vec<(usize, usize)>,
    bad: Vec<usize>,
    inv: Vec<usize>,
    justice: Vec<Vec<usize>>,
    fair: Vec<usize>,
    /// write all nine header fields even if the trailing ones are 0
    full_header: bool,
    /// symbol table + comment section, identical in both encodings
    trailer: Vec<u8>,
}

impl Aig {
    fn m(&self) -> usize {
        self.i + self.latches.len() + self.ands.len()
    }
    fn header(&self, tag: &str) -> String {
        let mut h = format!("{tag} {} {} {} {} {}", self.m(), self.i, self.latches.len(), self.outputs.len(), self.ands.len());
        let ext = [self.bad.len(), self.inv.len(), self.justice.len(), self.fair.len()];
        let used = if self.full_header { 4 } else { ext.iter().rposition(|&x| x != 0).map_or(0, |p| p + 1) };
        for e in &ext[..used] {
            h += &format!(" {e}");
        }
        h + "\n"
    }
    fn init_str(&self, latch: usize) -> String {
        match self.latches[latch].1 {
            0 => String::new(),
            1 => " 0".into(),
            2 => " 1".into(),
            _ => format!(" {}", 2 * (self.i + latch + 1)),
        }
    }
    fn props(&self, s: &mut String) {
        for &o in &self.outputs {
            *s += &format!("{o}\n");
        }
        for &b in &self.bad {
            *s += &format!("{b}\n");
        }
        for &c in &self.inv {
            *s += &format!("{c}\n");
        }
        for j in &self.justice {
            *s += &format!("{}\n", j.len());
        }
        for j in &self.justice {
            for &x in j {
                *s += &format!("{x}\n");
            }
        }
        for &f in &self.fair {
            *s += &format!("{f}\n");
        }
    }
    fn ascii(&self) -> Vec<u8> {
        let mut s = self.header("aag");
        for k in 0..self.i {
            s += &format!("{}\n", 2 * (k + 1));
        }
        for (k, &(next, _)) in self.latches.iter().enumerate() {
            s += &format!("{} {next}{}\n", 2 * (self.i + k + 1), self.init_str(k));
        }
        self.props(&mut s);
        for (k, &(r0, r1)) in self.ands.iter().enumerate() {
            s += &format!("{} {r0} {r1}\n", 2 * (self.i + self.latches.len() + k + 1));
        }
        let mut v = s.into_bytes();
        v.extend_from_slice(&self.trailer);
        v
    }
    fn binary(&self) -> Vec<u8> {
        let mut s = self.header("aig");
        for (k, &(next, _)) in self.latches.iter().enumerate() {
            s += &format!("{next}{}\n", self.init_str(k));
        }
        self.props(&mut s);
        let mut v = s.into_bytes();
        for (k, &(r0, r1)) in self.ands.iter().enumerate() {
            let lhs = 2 * (self.i + self.latches.len() + k + 1);
            enc7(lhs - r0, &mut v);
            enc7(r0 - r1, &mut v);
        }
        v.extend_from_slice(&self.trailer);
        v
    }
    /// model literal of an AIGER literal
    fn lit(&self, x: usize) -> L {
        let var = x >> 1;
        let neg = x & 1 == 1;
        let il = self.i + self.latches.len();
        if var == 0 {
            L::C(neg)
        } else if var <= il {
            L::I(neg, var - 1)
        } else {
            L::G(neg, var - 1 - il)
        }
    }
    fn describe(&self) -> String {
        show_bytes(&self.ascii())
    }
}

fn enc7(mut x: usize, out: &mut Vec<u8>) {
    while x >= 0x80 {
        out.push((x & 0x7f) as u8 | 0x80);
        x >>= 7;
    }
    out.push(x as u8);
}

/// compare a parsed problem with the AIG it was serialised from, through the documented getters
fn aig_model_mismatch(aig: &Aig, p: &Problem) -> Option<(&'static str, String)> {
    let il = aig.i + aig.latches.len();
    if p.circuit.inputs().len() != il {
        return Some(("inputs", format!("circuit has {} inputs, expected inputs + latches = {il}", p.circuit.inputs().len())));
    }
    let gates = read_lib(&p.circuit);
    if gates.len() != aig.ands.len() {
        return Some(("gates", format!("circuit has {} gates, expected {}", gates.len(), aig.ands.len())));
    }
    for (k, &(r0, r1)) in aig.ands.iter().enumerate() {
        let mut want = vec![aig.lit(r0), aig.lit(r1)];
        let mut got = gates[k].lits.clone();
        want.sort();
        got.sort();
        if gates[k].kind != 0 || want != got {
            return Some(("gates", format!("gate {k} is {}, expected and({},{})", gstr(&gates[k]), lstr(aig.lit(r0)), lstr(aig.lit(r1)))));
        }
    }
    let ProblemDetails::AIGER(d) = &p.details else {
        return Some(("details", "details are not ProblemDetails::AIGER".into()));
    };
    if d.inputs() != aig.i {
        return Some(("inputs", format!("details.inputs() = {}, expected {}", d.inputs(), aig.i)));
    }
    let want: Vec<L> = aig.latches.iter().map(|&(n, _)| aig.lit(n)).collect();
    let got: Vec<L> = d.latches().iter().map(|&l| from_lib(l)).collect();
    if want != got {
        return Some(("latches", format!("latches() = {:?}, expected {:?}", got.iter().map(|&l| lstr(l)).collect::<Vec<_>>(), want.iter().map(|&l| lstr(l)).collect::<Vec<_>>())));
    }
    for (k, &(_, init)) in aig.latches.iter().enumerate() {
        let want = match init {
            0 | 1 => Some(false),
            2 => Some(true),
            _ => None,
        };
        let got = d.latch_init_value(k);
        if got != want {
            return Some(("latch_init_value", format!("latch_init_value({k}) = {got:?}, expected {want:?}")));
        }
        if d.get_latch_no(Literal::from_input(false, aig.i + k)) != Some(k) {
            return Some(("get_latch_no", format!("get_latch_no(input {}) = {:?}, expected Some({k})", aig.i + k, d.get_latch_no(Literal::from_input(false, aig.i + k)))));
        }
    }
    let want: Vec<L> = aig.outputs.iter().map(|&x| aig.lit(x)).collect();
    let got: Vec<L> = d.outputs().iter().map(|&l| from_lib(l)).collect();
    if want != got {
        return Some(("outputs", format!("outputs() = {:?}, expected {:?}", got.iter().map(|&l| lstr(l)).collect::<Vec<_>>(), want.iter().map(|&l| lstr(l)).collect::<Vec<_>>())));
    }
    for x in 0..2 * (aig.m() + 1) {
        let got = d.map_aiger_literal(x).map(from_lib);
        if got != Some(aig.lit(x)) {
            return Some(("map_aiger_literal", format!("map_aiger_literal({x}) = {:?}, expected {}", got.map(lstr), lstr(aig.lit(x)))));
        }
    }
    None
}

struct AigStats {
    cases: u64,
    evals: u64,
    tally: Tally,
}

fn run_aig_case(ctx: &mut Ctx, aig: &Aig, names: &[(char, usize, &str)], st: &mut AigStats) {
    st.cases += 1;
    let aag = aig.ascii();
    let bin = aig.binary();
    let plain = aig.bad.is_empty() && aig.inv.is_empty() && aig.justice.is_empty() && aig.fair.is_empty();
    for ca in [true, false] {
        let o = (false, false, ca);
        let opts = mkopts(o);
        let mut parsed: Vec<Option<Problem>> = vec![];
        for (fmt, bytes) in [(Fmt::Aag, &aag), (Fmt::Aig, &bin)] {
            st.evals += 1;
            let case = || {
                let mut c = parser_case_json(fmt, o, bytes, "own serialiser (part aiger_eq)");
                c["aag"] = json!(show_bytes(&aag));
                c["aig"] = json!(show_bytes(&bin));
                c
            };
            let a = attrs(&[("part", "aiger_eq"), ("format", fmt.name()), ("entry", "parse")]);
            let r = ctx.guarded(&a, case, || parse_direct(fmt, &opts, bytes));
            match r {
                None => parsed.push(None),
                Some(Err(())) => {
                    let mut a = a.clone();
                    a.insert("class".into(), "valid_file_rejected".into());
                    a.insert("latches".into(), aig.latches.len().to_string());
                    ctx.viol(a, case(), &format!("valid {} file rejected: {}", fmt.name(), show_bytes(bytes)));
                    parsed.push(None);
                }
                Some(Ok((rest, p))) => {
                    if rest != 0 {
                        let mut a = a.clone();
                        a.insert("class".into(), "input_not_consumed".into());
                        ctx.viol(a, case(), &format!("{} bytes left over after parsing {}", rest, show_bytes(bytes)));
                    }
                    if let Some((what, msg)) = aig_model_mismatch(aig, &p) {
                        let mut a = a.clone();
                        a.insert("class".into(), "model_mismatch".into());
                        a.insert("what".into(), what.into());
                        ctx.viol(a, case(), &format!("parsed {} problem differs from the serialised AIG: {msg}; file {}", fmt.name(), show_bytes(bytes)));
                    }
                    // names
                    for &(kind, idx, name) in names {
                        let got = match (kind, &p.details) {
                            ('i', _) => p.circuit.inputs().name(idx).map(|s| s.to_string()),
                            ('l', _) => p.circuit.inputs().name(aig.i + idx).map(|s| s.to_string()),
                            ('o', ProblemDetails::AIGER(d)) => d.output_name(idx).map(|s| s.to_string()),
                            _ => None,
                        };
                        if got.as_deref() != Some(name) {
                            let mut a = a.clone();
                            a.insert("class".into(), "symbol_mismatch".into());
                            ctx.viol(a, case(), &format!("symbol {kind}{idx}: got {got:?}, expected {name:?}; file {}", show_bytes(bytes)));
                        }
                    }
                    if fmt == Fmt::Aag && ca {
                        let base = attrs(&[("part", "parsed_simplify"), ("format", "aiger_eq")]);
                        check_problem_simplify(ctx, &p, problem_roots(&p, plain), &base, &case, &mut st.tally);
                    }
                    parsed.push(Some(p));
                }
            }
        }
        if let (Some(a), Some(b)) = (&parsed[0], &parsed[1]) {
            if a != b {
                let da = format!("{a:?}");
                let db = format!("{b:?}");
                ctx.viol(
                    attrs(&[("part", "aiger_eq"), ("class", "ascii_binary_differ")]),
                    json!({"part": "aiger_eq", "aag": show_bytes(&aag), "aig": show_bytes(&bin), "aig_hex": bin.iter().map(|b| format!("{b:02x}")).collect::<String>(), "check_acyclic": ca}),
                    &format!("equivalent files parse to different problems: aag {} -> {da}; aig {} -> {db}", show_bytes(&aag), show_bytes(&bin)),
                );
                st.tally.add("aiger_eq:differ");
            } else {
                st.tally.add("aiger_eq:equal");
            }
        }
    }
}

#[derive(Clone, Copy, Debug)]
struct AigCfg {
    name: &'static str,
    i: usize,
    l: usize,
    a: usize,
    o: usize,
    shards: usize,
    thorough_only: bool,
}
const fn ac(name: &'static str, i: usize, l: usize, a: usize, o: usize, shards: usize, thorough_only: bool) -> AigCfg {
    AigCfg { name, i, l, a, o, shards, thorough_only }
}

fn aig_cfgs() -> Vec<AigCfg> {
    vec![
        ac("i0l0a0o1", 0, 0, 0, 1, 1, false),
        ac("i1l0a0o2", 1, 0, 0, 2, 1, false),
        ac("i2l0a0o2", 2, 0, 0, 2, 1, false),
        ac("i0l1a0o2", 0, 1, 0, 2, 1, false),
        ac("i1l1a0o2", 1, 1, 0, 2, 1, false),
        ac("i0l2a0o1", 0, 2, 0, 1, 1, false),
        ac("i1l2a0o1", 1, 2, 0, 1, 1, false),
        ac("i2l0a1o2", 2, 0, 1, 2, 1, false),
        ac("i1l1a1o2", 1, 1, 1, 2, 1, false),
        ac("i0l2a1o1", 0, 2, 1, 1, 1, false),
        ac("i2l1a1o1", 2, 1, 1, 1, 1, false),
        ac("i2l0a2o2", 2, 0, 2, 2, 1, false),
        ac("i1l1a2o1", 1, 1, 2, 1, 2, false),
        ac("i1l2a1o1", 1, 2, 1, 1, 4, false),
        ac("i2l0a3o1", 2, 0, 3, 1, 4, false),
        ac("i2l1a2o1", 2, 1, 2, 1, 8, true),
        ac("i2l0a3o2", 2, 0, 3, 2, 16, true),
        ac("i2l2a1o1", 2, 2, 1, 1, 8, true),
        ac("i1l1a3o1", 1, 1, 3, 1, 32, true),
        ac("i2l1a2o2", 2, 1, 2, 2, 32, true),
    ]
}

const AIG_GROUP: usize = 40_000;

fn run_aigeq(ctx: &mut Ctx, cfg: AigCfg, shard: usize) {
    let il = cfg.i + cfg.l;
    let nl = 2 * (il + cfg.a + 1); // number of AIGER literals
    // mixed radix: ands (pair index), latches (next, init), outputs
    let mut radix: Vec<usize> = vec![];
    for k in 0..cfg.a {
        let lhs = 2 * (il + k + 1);
        radix.push(lhs * (lhs + 1) / 2);
    }
    for _ in 0..cfg.l {
        radix.push(nl);
        radix.push(4);
    }
    for _ in 0..cfg.o {
        radix.push(nl);
    }
    let total: usize = radix.iter().product();
    let ngroups = total.div_ceil(AIG_GROUP);
    for gi in 0..ngroups {
        if gi % cfg.shards != shard {
            continue;
        }
        let lo = gi * AIG_GROUP;
        let hi = ((gi + 1) * AIG_GROUP).min(total);
        ctx.group(&format!("aigeq:{}:idx={lo}..{hi}", cfg.name), |ctx| {
            let mut st = AigStats { cases: 0, evals: 0, tally: Tally(BTreeMap::new()) };
            for idx in lo..hi {
                let mut x = idx;
                let mut digit = |r: usize| {
                    let d = x % r;
                    x /= r;
                    d
                };
                let mut aig = Aig { i: cfg.i, ..Default::default() };
                for r in radix.iter().take(cfg.a) {
                    let t = digit(*r);
                    // t = r0 (r0 + 1) / 2 + r1 with r1 <= r0
                    let mut r0 = 0;
                    while (r0 + 1) * (r0 + 2) / 2 <= t {
                        r0 += 1;
                    }
                    aig.ands.push((r0, t - r0 * (r0 + 1) / 2));
                }
                for _ in 0..cfg.l {
                    let next = digit(nl);
                    let init = digit(4) as u8;
                    aig.latches.push((next, init));
                }
                for _ in 0..cfg.o {
                    aig.outputs.push(digit(nl));
                }
                if idx == lo && gi == 0 {
                    ctx.sample(|| json!({"part": "aiger_eq", "cfg": cfg.name, "cases": total, "first": aig.describe()}));
                }
                run_aig_case(ctx, &aig, &[], &mut st);
            }
            ctx.count("evaluations", st.evals);
            ctx.count("aig_cases", st.cases);
            ctx.count("parser_calls", st.evals);
            ctx.count("nontrivial", st.cases);
            st.tally.flush(ctx, "");
        });
    }
}

/// AIGER 1.9 sections and symbol tables on a small base circuit
fn run_aigeq_extras(ctx: &mut Ctx) {
    // binary and-gate section written byte by byte: every pair of deltas (valid or not) for the gate of a
    // one-gate circuit and for either gate of a two-gate circuit; the format demands lhs > rhs0 >= rhs1,
    // i.e. 1 <= delta0 <= lhs and delta1 <= rhs0, everything else has to be rejected (in particular a gate
    // that refers to itself, which the ASCII parser reports as a cycle)
    ctx.group("aigeq:deltas", |ctx| {
        let mut n = 0u64;
        for (ngates, varied) in [(1usize, 0usize), (2, 0), (2, 1)] {
            let lhs: Vec<usize> = (0..ngates).map(|k| 2 * (2 + k + 1)).collect();
            for d0 in 0..=(lhs[varied] + 2) {
                for d1 in 0..=(lhs[varied] + 2) {
                    let mut file = format!("aig {} 2 0 1 {}\n{}\n", 2 + ngates, ngates, lhs[ngates - 1]).into_bytes();
                    for k in 0..ngates {
                        if k == varied {
                            file.push(d0 as u8);
                            file.push(d1 as u8);
                        } else {
                            // a valid gate: and(input 2, input 1)
                            file.push((lhs[k] - 4) as u8);
                            file.push(2);
                        }
                    }
                    let valid = d0 >= 1 && d0 <= lhs[varied] && d1 <= lhs[varied] - d0;
                    for ca in [true, false] {
                        n += 1;
                        let o = (false, false, ca);
                        let opts = mkopts(o);
                        let case = || parser_case_json(Fmt::Aig, o, &file, "binary and-gate deltas (part aiger_eq)");
                        let a = attrs(&[("part", "aiger_eq"), ("format", "aig"), ("entry", "parse")]);
                        if let Some(r) = ctx.guarded(&a, case, || parse_direct(Fmt::Aig, &opts, &file)) {
                            if r.is_ok() != valid {
                                let mut a = a.clone();
                                a.insert("class".into(), if valid { "valid_file_rejected" } else { "invalid_deltas_accepted" }.into());
                                ctx.viol(a, case(), &format!("binary AIGER and gate {varied} (lhs {}) with deltas ({d0}, {d1}): {} although the deltas are {}; file {}", lhs[varied], if r.is_ok() { "accepted" } else { "rejected" }, if valid { "valid" } else { "invalid (the format demands lhs > rhs0 >= rhs1)" }, show_bytes(&file)));
                            }
                        }
                    }
                }
            }
        }
        ctx.count("evaluations", n);
        ctx.count("parser_calls", n);
        ctx.count("nontrivial", n);
    });
    let choices = [0usize, 3, 4];
    ctx.group("aigeq:extras", |ctx| {
        let mut st = AigStats { cases: 0, evals: 0, tally: Tally(BTreeMap::new()) };
        // section contents: None = absent
        let mut singles: Vec<Vec<usize>> = vec![vec![]];
        for &c in &choices {
            singles.push(vec![c]);
        }
        let mut justices: Vec<Vec<Vec<usize>>> = vec![vec![], vec![vec![]]];
        for &c in &choices {
            justices.push(vec![vec![c]]);
            for &d in &choices {
                justices.push(vec![vec![c, d]]);
            }
        }
        justices.push(vec![vec![3], vec![0, 4]]);
        for and in 0..10usize {
            let mut r0 = 0;
            while (r0 + 1) * (r0 + 2) / 2 <= and {
                r0 += 1;
            }
            let r1 = and - r0 * (r0 + 1) / 2;
            for out in [1usize, 4, 5] {
                for bad in &singles {
                    for inv in &singles {
                        for just in &justices {
                            for fair in &singles {
                                for full_header in [false, true] {
                                    let aig = Aig { i: 1, latches: vec![], outputs: vec![out], ands: vec![(r0, r1)], bad: bad.clone(), inv: inv.clone(), justice: just.clone(), fair: fair.clone(), full_header, trailer: vec![] };
                                    run_aig_case(ctx, &aig, &[], &mut st);
                                }
                            }
                        }
                    }
                }
            }
        }
        ctx.count("evaluations", st.evals);
        ctx.count("aig_cases", st.cases);
        ctx.count("parser_calls", st.evals);
        ctx.count("nontrivial", st.cases);
        st.tally.flush(ctx, "");
    });
    ctx.group("aigeq:symbols", |ctx| {
        let mut st = AigStats { cases: 0, evals: 0, tally: Tally(BTreeMap::new()) };
        let comments: [&[u8]; 3] = [b"", b"c\n", b"c\nsome comment\n\xff\n"];
        // (inputs, latches): equal numbers, more inputs than latches, more latches than inputs
        for (ni, nl) in [(2usize, 2usize), (3, 1), (1, 2), (2, 1)] {
            let mut syms: Vec<(char, usize, String, Vec<u8>)> = vec![];
            for k in 0..ni {
                let name = if k == 1 { "y y".to_string() } else { format!("x{k}") };
                syms.push(('i', k, name.clone(), format!("i{k} {name}\n").into_bytes()));
            }
            for k in 0..nl {
                let name = if k == 1 { "~r".to_string() } else { format!("q{k}") };
                syms.push(('l', k, name.clone(), format!("l{k} {name}\n").into_bytes()));
            }
            syms.push(('o', 0, "out".into(), b"o0 out\n".to_vec()));
            let and_lit = 2 * (ni + nl + 1);
            for mask in 0..(1u32 << syms.len()) {
                let chosen: Vec<usize> = (0..syms.len()).filter(|k| mask & (1 << k) != 0).collect();
                // every order of the chosen symbol lines
                let mut orders: Vec<Vec<usize>> = vec![];
                permute(&chosen, &mut vec![], &mut orders);
                for idxs in orders {
                    for com in comments {
                        for init in 0..4u8 {
                            // the full cross product only for the forward and the reversed order
                            let plain = idxs.windows(2).all(|w| w[0] < w[1]) || idxs.windows(2).all(|w| w[0] > w[1]);
                            if !plain && (init != 0 || !com.is_empty()) {
                                continue;
                            }
                            let mut trailer = vec![];
                            let mut names = vec![];
                            for &k in &idxs {
                                trailer.extend_from_slice(&syms[k].3);
                                names.push((syms[k].0, syms[k].1, syms[k].2.as_str()));
                            }
                            trailer.extend_from_slice(com);
                            let mut latches = vec![(3, init)];
                            if nl == 2 {
                                latches.push((and_lit, 3 - init));
                            }
                            let aig = Aig { i: ni, latches, outputs: vec![and_lit + 1], ands: vec![(2 * (ni + 1), 2)], trailer, ..Default::default() };
                            run_aig_case(ctx, &aig, &names, &mut st);
                        }
                    }
                }
            }
        }
        ctx.count("evaluations", st.evals);
        ctx.count("aig_cases", st.cases);
        ctx.count("parser_calls", st.evals);
        ctx.count("nontrivial", st.cases);
        st.tally.flush(ctx, "");
    });
}

// ---------------------------------------------------------------------------------------------
// registry
// ---------------------------------------------------------------------------------------------

pub fn shards(tier: &str) -> Vec<String> {
    let thorough = tier == "thorough";
    let mut v = vec![];
    // big shards first so that the tail of the run is short
    let mut simp: Vec<SimpCfg> = simp_cfgs().into_iter().filter(|c| thorough || !c.thorough_only).collect();
    simp.sort_by_key(|c| if c.shards == 1 { (0, 0) } else { (1, usize::MAX - c.shards) });
    for c in simp {
        for s in 0..c.shards {
            v.push(format!("simp:{}:{s}", c.name));
        }
    }
    let mut aigs: Vec<AigCfg> = aig_cfgs().into_iter().filter(|c| thorough || !c.thorough_only).collect();
    aigs.sort_by_key(|c| if c.shards == 1 { (0, 0) } else { (1, usize::MAX - c.shards) });
    for c in aigs {
        for s in 0..c.shards {
            v.push(format!("aigeq:{}:{s}", c.name));
        }
    }
    v.push("aigeq:extras:0".into());
    for f in FMTS {
        for k in ["raw", "lines"] {
            for s in 0..TOK_SHARDS {
                v.push(format!("tok:{}:{k}:{s}", f.name()));
            }
        }
    }
    for f in FMTS {
        v.push(format!("mut:{}", f.name()));
    }
    v.push("huge".into());
    v
}

pub fn run(ctx: &mut Ctx) {
    let shard = ctx.shard.clone();
    let parts: Vec<&str> = shard.split(':').collect();
    // load_file writes its diagnostics to stderr piece by piece; without colours that is a lot
    // cheaper (the worker is single threaded at this point)
    unsafe { std::env::set_var("NO_COLOR", "1") };
    match parts[0] {
        "simp" => {
            let cfg = simp_cfgs().into_iter().find(|c| c.name == parts[1]).expect("unknown simplify tier");
            run_simp(ctx, cfg, parts[2].parse().unwrap());
        }
        "aigeq" if parts[1] == "extras" => run_aigeq_extras(ctx),
        "aigeq" => {
            let cfg = aig_cfgs().into_iter().find(|c| c.name == parts[1]).expect("unknown aiger tier");
            run_aigeq(ctx, cfg, parts[2].parse().unwrap());
        }
        "tok" => run_tok(ctx, Fmt::from_name(parts[1]), parts[2] == "lines", parts[3].parse().unwrap()),
        "mut" => run_mut(ctx, Fmt::from_name(parts[1])),
        "huge" => run_huge(ctx),
        "hugecase" => run_hugecase(parts[1].parse().unwrap()),
        _ => panic!("bad shard {shard}"),
    }
}

fn permute(rest: &[usize], cur: &mut Vec<usize>, out: &mut Vec<Vec<usize>>) {
    if rest.is_empty() {
        out.push(cur.clone());
        return;
    }
    for (k, &x) in rest.iter().enumerate() {
        let mut r = rest.to_vec();
        r.remove(k);
        cur.push(x);
        permute(&r, cur, out);
        cur.pop();
    }
}
