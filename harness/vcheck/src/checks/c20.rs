//! C20 — build configurations are observationally equivalent (E-CONF).
//! The recorder `cfgbin` (same source) is compiled by `./check` once per feature
//! configuration of the `oxidd` crate; this check runs every build with every
//! thread count, requires every transcript to be free of model mismatches and all
//! transcripts to be identical line by line.

use std::process::Command;

use serde_json::json;

use crate::driver::Meta;
use crate::proto::{Ctx, attrs};

pub fn meta() -> Meta {
    Meta {
        level: "model_checking",
        rule: "the recorder program is built in 4 (quick: both backends, each once with cache+multi-threading on and once with both off) / all 8 (thorough) feature configurations {manager-index, manager-pointer} x {apply-cache-direct-mapped on, off} x {multi-threading on, off} and run with 1 and 2 (thorough: 1, 2, 8) worker threads (split depth 2 when > 1). Workload per run: for bdd, bcdd, zbdd and each of the 6 orders: all 64x64 operand pairs of a closed 64-function subset for the 8 binary connectives, 22^3 ite triples, not/eval/gc/audit, one 30-variable diagram with 65536 nodes (bdd, bcdd; built bottom-up, node_count / sat_count / evaluations recorded), the rest of the API surface (quantifiers and apply-quantify for all 8 variable subsets, substitute, restrict of all 256 functions by all 27 cubes in ascending and descending cube order, pick_cube*, sat_count, cofactors, ZBDD subset0/subset1/change/union/intsec/diff/singleton); every history of depth 4 (quick with more than one worker: 3) over 12 actions (5 operations, clone, 2 drops, gc, add_vars, reverse/rotate reordering) on a fresh manager with tables, node counts, variable order, gc return values, sat_count of every live register through ONE SatCountCache per history (it has to notice every collection and reordering by itself) and the full structural + reference-count audit recorded after every step; TDD: all 27^2 pairs for 8 connectives and all 27^3 ite triples on one variable. Oracle: every observation equals the truth-table model (checked inside the recorder) and all transcripts are identical. states = distinct transcript lines, transitions = history steps + operations executed per run, executions = recorder runs.",
        assumptions: vec![
            "MTBDD exists for the index backend only (the library offers no pointer-based MTBDD) and is therefore not part of the cross-configuration comparison".into(),
            "the configurations are separate builds of the same recorder source; cargo feature unification is avoided by building each with its own target directory".into(),
        ],
        hang_is_violation: true,
        shard_timeout: (900, 3600),
    }
}

pub fn configs(tier: &str) -> Vec<(&'static str, &'static str)> {
    let mut v = vec![
        ("idx_c_mt", "manager-index,apply-cache,multi-threading"),
        ("ptr_c_mt", "manager-pointer,apply-cache,multi-threading"),
        ("idx_n_st", "manager-index"),
        ("ptr_n_st", "manager-pointer"),
    ];
    if tier == "thorough" {
        v.extend([
            ("idx_c_st", "manager-index,apply-cache"),
            ("ptr_c_st", "manager-pointer,apply-cache"),
            ("idx_n_mt", "manager-index,multi-threading"),
            ("ptr_n_mt", "manager-pointer,multi-threading"),
        ]);
    }
    v
}

pub fn shards(_tier: &str) -> Vec<String> {
    vec!["all".into()]
}

pub fn run(ctx: &mut Ctx) {
    let tier = ctx.tier.clone();
    let root = std::env::var("VERIF_ROOT").unwrap_or_else(|_| "/verif".into());
    let cfgs = configs(&tier);
    let threads: Vec<u32> = if tier == "thorough" { vec![1, 2, 8] } else { vec![1, 2] };
    // histories: depth 4 with one worker (cheap), depth 3 with several workers in the quick tier
    let depth_of = |t: u32| -> usize { if tier == "thorough" || t == 1 { 4 } else { 3 } };
    // run all (config, threads) combinations in parallel
    let mut jobs = vec![];
    for (name, _) in &cfgs {
        for &t in &threads {
            let bin = format!("{root}/target/cfg_{name}/verif/cfgbin");
            let name = name.to_string();
            let depth = depth_of(t);
            jobs.push(std::thread::spawn(move || {
                let out = Command::new(&bin).arg(t.to_string()).arg(depth.to_string()).env("OXIDD_STACK_SIZE", (16 * 1024 * 1024).to_string()).output();
                (name, t, bin, out, depth)
            }));
        }
    }
    let mut transcripts: Vec<(String, u32, Vec<String>)> = vec![];
    let results: Vec<_> = jobs.into_iter().map(|j| j.join().unwrap()).collect();
    for (name, t, bin, out, depth) in results {
        ctx.group(&format!("run {name} threads {t}"), |ctx| {
            ctx.count("evaluations", 1);
            ctx.count("executions", 1);
            match out {
                Err(e) => {
                    println!("M cannot run {bin}: {e} (was the configuration built by ./check?)");
                }
                Ok(o) => {
                    let text = String::from_utf8_lossy(&o.stdout).to_string();
                    let lines: Vec<String> = text.lines().map(|l| l.to_string()).collect();
                    ctx.count("transitions", lines.len() as u64);
                    let complete = lines.last().map(|l| l.starts_with("END")).unwrap_or(false);
                    if !o.status.success() || !complete {
                        let err = String::from_utf8_lossy(&o.stderr);
                        let first = err.lines().find(|l| l.contains("panicked") || l.contains("assertion") || l.contains("Out of memory")).unwrap_or("").to_string();
                        let second = err.lines().skip_while(|l| !l.contains("panicked")).nth(1).unwrap_or("").to_string();
                        ctx.viol(
                            attrs(&[("config", &name), ("class", "recorder_died")]),
                            json!({"config": name, "threads": t, "cmd": format!("{bin} {t} {depth}"), "stderr": err.lines().take(6).collect::<Vec<_>>()}),
                            &format!("configuration {name} with {t} thread(s): the recorder did not finish (exit {:?}): {first} {second}", o.status.code()),
                        );
                    }
                    for l in lines.iter().filter(|l| l.starts_with("MISMATCH")).take(5) {
                        ctx.viol(
                            attrs(&[("config", &name), ("class", "model_mismatch")]),
                            json!({"config": name, "threads": t, "cmd": format!("{bin} {t} {depth}"), "line": l}),
                            &format!("configuration {name} with {t} thread(s): {l}"),
                        );
                    }
                    for l in &lines {
                        ctx.distinct(crate::proto::fx(&l.bytes().map(|b| b as u64).collect::<Vec<_>>()));
                    }
                    transcripts.push((name.clone(), t, lines));
                }
            }
        });
    }
    ctx.group("compare transcripts", |ctx| {
        let Some((rname0, rt0, reference0)) = transcripts.first().cloned() else { return };
        for (name, t, lines) in transcripts.iter().skip(1) {
            // compare with the first transcript of the same history depth (= same thread class);
            // the depth-independent suite lines are the same in every transcript
            let same = transcripts.iter().find(|(_, t2, _)| depth_of(*t2) == depth_of(*t)).cloned().unwrap();
            let (rname, rt, reference) = if same.0 == *name && same.1 == *t { (rname0.clone(), rt0, reference0.iter().filter(|l| !l.starts_with("hist ")).cloned().collect::<Vec<_>>()) } else { same };
            let lines: Vec<String> = if reference.iter().any(|l| l.starts_with("hist ")) { lines.clone() } else { lines.iter().filter(|l| !l.starts_with("hist ")).cloned().collect() };
            let lines = &lines;
            ctx.count("evaluations", 1);
            ctx.count("nontrivial", 1);
            let n = reference.len().max(lines.len());
            let mut diffs = 0;
            for i in 0..n {
                let a = reference.get(i).map(|s| s.as_str()).unwrap_or("<missing>");
                let b = lines.get(i).map(|s| s.as_str()).unwrap_or("<missing>");
                if a != b && !a.starts_with("MISMATCH") && !b.starts_with("MISMATCH") {
                    diffs += 1;
                    if diffs <= 2 {
                        ctx.viol(
                            attrs(&[("config", name), ("class", "transcripts_differ")]),
                            json!({"reference": format!("{rname} t{rt}"), "config": name, "threads": t, "line_no": i, "reference_line": a, "line": b}),
                            &format!("configuration {name} t{t} differs from {rname} t{rt} at line {i}: '{b}' vs '{a}'"),
                        );
                    }
                }
            }
        }
        ctx.sample(|| json!({"reference": format!("{rname0} t{rt0}"), "lines": reference0.len(), "example_lines": reference0.iter().take(2).collect::<Vec<_>>()}));
    });
}
