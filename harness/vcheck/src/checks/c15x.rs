//! C15, additional enumerations (shards `x:*`):
//!  * `x:unused5:<kind>:<mode>` — round trips on 5 variables of which one is not in
//!    the support (every choice of the unused variable, 3 orders, 30 functions):
//!    the binary variable codes relative to terminals depend on nvars vs nsuppvars.
//!  * `x:binrec:<k>` — structured fault enumeration of the binary node section:
//!    EVERY record (node code byte x all combinations of the 7-bit numbers 0..3 it
//!    carries) as the second and as the third node of a BCDD file; each file must
//!    be rejected or imported into a manager that audits clean.

use oxidd::bcdd::BCDDFunction;
use oxidd::{BooleanFunction, Function, Manager, ManagerRef};
use oxidd_dump::dddmp::{DumpHeader, ExportSettings};
use serde_json::json;

use crate::dd::{self, Bcdd, Bdd, BoolKind, MRefOf, Zbdd};
use crate::model::{self, Tab};
use crate::proto::{Ctx, attrs};

pub fn shards_extra(_tier: &str) -> Vec<String> {
    let mut v = vec![];
    for (k, m) in [("bcdd", "bin"), ("bcdd", "ascii"), ("bdd", "ascii"), ("zbdd", "ascii")] {
        v.push(format!("x:unused5:{k}:{m}"));
    }
    for k in 0..8 {
        v.push(format!("x:binrec:{k}"));
    }
    // header entries exchanged, repeated and repeated with a neighbouring number
    for (k, m) in [("bdd", "ascii"), ("bcdd", "ascii"), ("bcdd", "bin")] {
        v.push(format!("x:header:{k}:{m}"));
    }
    v
}

pub fn run_extra(ctx: &mut Ctx) {
    let shard = ctx.shard.clone();
    let p: Vec<&str> = shard.split(':').collect();
    match p[1] {
        "unused5" => match p[2] {
            "bcdd" => unused5::<Bcdd>(ctx, p[3] == "bin"),
            "bdd" => unused5::<Bdd>(ctx, false),
            _ => unused5::<Zbdd>(ctx, false),
        },
        "binrec" => binrec(ctx, p[2].parse().unwrap()),
        "header" => match p[2] {
            "bdd" => header_lines::<Bdd>(ctx, false),
            _ => header_lines::<Bcdd>(ctx, p[3] == "bin"),
        },
        _ => panic!("bad shard"),
    }
}

trait Io: BoolKind {
    fn export(mref: &MRefOf<Self>, fs: &[Self::F], binary: bool) -> std::io::Result<Vec<u8>>;
    fn import(mref: &MRefOf<Self>, bytes: &[u8]) -> std::io::Result<Vec<Self::F>>;
}

macro_rules! io_impl {
    ($k:ty, $f:ty) => {
        impl Io for $k {
            fn export(mref: &MRefOf<Self>, fs: &[$f], binary: bool) -> std::io::Result<Vec<u8>> {
                let mut out = vec![];
                let s = if binary { ExportSettings::default().binary() } else { ExportSettings::default().ascii() };
                mref.with_manager_shared(|m| s.export(&mut out, m, fs.iter()))?;
                Ok(out)
            }
            fn import(mref: &MRefOf<Self>, bytes: &[u8]) -> std::io::Result<Vec<$f>> {
                let mut cur = std::io::Cursor::new(bytes);
                let header = DumpHeader::load(&mut cur)?;
                let sv: Vec<u32> = header.support_var_order().to_vec();
                mref.with_manager_shared(|m| {
                    // the importer asserts these preconditions; a file violating them is "rejected" here
                    if sv.iter().any(|&v| v >= m.num_vars()) || !sv.iter().map(|&v| m.var_to_level(v)).collect::<Vec<_>>().is_sorted_by(|a, b| a < b) {
                        return Err(std::io::Error::new(std::io::ErrorKind::InvalidData, "support variables do not fit the manager"));
                    }
                    oxidd_dump::dddmp::import::<$f>(&mut cur, &header, m, sv.iter().copied(), |m, e| <$f as BooleanFunction>::not_edge_owned(m, e))
                })
            }
        }
    };
}
io_impl!(Bcdd, BCDDFunction);
io_impl!(Bdd, oxidd::bdd::BDDFunction);
io_impl!(Zbdd, oxidd::zbdd::ZBDDFunction);

/// embed a 4-variable table into 5 variables, skipping variable `u`
fn embed(t16: Tab, u: u32) -> Tab {
    let mut r = 0u64;
    for a in 0..32u32 {
        // remove bit u from a
        let low = a & ((1 << u) - 1);
        let high = (a >> (u + 1)) << u;
        if (t16 >> (low | high)) & 1 == 1 {
            r |= 1 << a;
        }
    }
    r
}

fn unused5<K: Io>(ctx: &mut Ctx, binary: bool) {
    let n = 5u32;
    let zbdd = K::NAME == "zbdd";
    let t16: Vec<Tab> = vec![
        0x6996, 0x8000, 0xfffe, 0x0001, 0x1ee1, 0xcaca, 0xff00, 0xf0f0, 0xcccc, 0xaaaa, 0x8888, 0xeeee, 0x0660, 0x7e81, 0x0ff0, 0x3c3c, 0x5a5a, 0x1234, 0xfedc, 0x0180, 0xe8e8, 0x9669, 0x00ff, 0x0f0f, 0x3333, 0x5555, 0x7fff, 0x4000, 0x0002, 0xbeef,
    ];
    for (oi, order) in [[0u32, 1, 2, 3, 4], [4, 3, 2, 1, 0], [2, 0, 4, 1, 3]].iter().enumerate() {
        ctx.group(&format!("unused variable round trips order {}", model::order_str(order)), |ctx| {
            for u in 0..n {
                // single roots and one multi-root file
                let tabs: Vec<Tab> = t16.iter().map(|&t| embed(t, u)).map(|t| if zbdd { zbdd_without(t, u) } else { t }).collect();
                let mut sets: Vec<Vec<Tab>> = tabs.iter().map(|&t| vec![t]).collect();
                sets.push(tabs[..4].to_vec());
                for set in sets {
                    ctx.count("evaluations", 1);
                    ctx.count("nontrivial", 1);
                    let mref = dd::fresh::<K>(n, order, 4096, 64, 1);
                    let fs: Vec<K::F> = set.iter().map(|&t| K::build(&mref, t).unwrap()).collect();
                    let case = || json!({"kind": K::NAME, "n": n, "order": model::order_str(order), "unused_variable": u, "roots": set, "binary": binary, "order_index": oi});
                    let a = attrs(&[("kind", K::NAME), ("part", "unused5"), ("mode", if binary { "bin" } else { "ascii" })]);
                    let mut fail = |ctx: &mut Ctx, class: &str, msg: String| {
                        let mut a = a.clone();
                        a.insert("class".into(), class.into());
                        ctx.viol(a, case(), &format!("{} n=5 order {} unused x{u} roots {set:x?} ({}): {msg}", K::NAME, model::order_str(order), if binary { "binary" } else { "ascii" }));
                    };
                    let bytes = match K::export(&mref, &fs, binary) {
                        Ok(b) => b,
                        Err(e) => {
                            fail(ctx, "export_error", format!("export failed: {e}"));
                            continue;
                        }
                    };
                    // same manager: equal handles
                    match ctx.guarded(&a, case, || K::import(&mref, &bytes)) {
                        None => {
                            std::mem::forget(mref);
                            continue;
                        }
                        Some(Err(e)) => fail(ctx, "own_file_rejected", format!("the importer rejects the exporter's file: {e}")),
                        Some(Ok(gs)) => {
                            if gs.len() != fs.len() || gs.iter().zip(&fs).any(|(g, f)| g != f) {
                                let got: Vec<_> = gs.iter().map(|g| K::table(g)).collect();
                                fail(ctx, "roundtrip_differs", format!("re-imported handles differ from the originals (tables {got:x?})"));
                            }
                        }
                    }
                    // fresh manager in the same order: equal tables
                    let m2 = dd::fresh::<K>(n, order, 4096, 64, 1);
                    match ctx.guarded(&a, case, || K::import(&m2, &bytes)) {
                        None => {
                            std::mem::forget(m2);
                            continue;
                        }
                        Some(Err(e)) => fail(ctx, "own_file_rejected", format!("the importer rejects the exporter's file in a fresh manager: {e}")),
                        Some(Ok(gs)) => {
                            let got: Vec<_> = gs.iter().map(|g| K::table(g)).collect();
                            if got.len() != set.len() || got.iter().zip(&set).any(|(g, t)| g != &Ok(*t)) {
                                fail(ctx, "roundtrip_differs", format!("fresh-manager import denotes {got:x?}"));
                            }
                            let refs: Vec<&K::F> = gs.iter().collect();
                            let info = K::audit(&m2, &refs, true);
                            if let Some(e) = info.errors.first() {
                                fail(ctx, "audit", e.clone());
                            }
                        }
                    }
                }
            }
            ctx.sample(|| json!({"kind": K::NAME, "n": 5, "order": model::order_str(order), "unused_variable": 2, "roots": [embed(0x6996, 2)], "binary": binary}));
        });
    }
}

/// The header of an exporter-written file with its entries (a) exchanged pairwise, (b) repeated at every
/// position, (c) repeated at every position with every number of the entry increased / decreased by one.
/// The importer may accept or reject each of these files, but it must not panic; a file of group (a) or (b)
/// that it accepts carries the same information as the original and must denote the original functions.
fn header_lines<K: Io>(ctx: &mut Ctx, binary: bool) {
    let n = 3u32;
    for roots in [vec![0x96u64, 0xe8], vec![0x80], vec![0x1b, 0x6a, 0xfe]] {
        ctx.group(&format!("header entries, roots {roots:x?}"), |ctx| {
            let mref = dd::fresh::<K>(n, &[0, 1, 2], 4096, 64, 1);
            let fs: Vec<K::F> = roots.iter().map(|&t| K::build(&mref, t).unwrap()).collect();
            let bytes = K::export(&mref, &fs, binary).expect("harness: export");
            let pos = bytes.windows(7).position(|w| w == b"\n.nodes").expect("harness: no .nodes entry") + 1;
            let (head, rest) = bytes.split_at(pos);
            let lines: Vec<&[u8]> = head.split_inclusive(|&b| b == b'\n').collect();
            let a = attrs(&[("kind", K::NAME), ("part", "header"), ("mode", if binary { "bin" } else { "ascii" })]);
            let mut files: Vec<(String, Vec<u8>, bool)> = vec![];
            let join = |ls: &[Vec<u8>]| -> Vec<u8> { ls.iter().flatten().copied().chain(rest.iter().copied()).collect() };
            let owned: Vec<Vec<u8>> = lines.iter().map(|l| l.to_vec()).collect();
            for i in 0..owned.len() {
                for j in i + 1..owned.len() {
                    let mut ls = owned.clone();
                    ls.swap(i, j);
                    files.push((format!("entries {i} and {j} exchanged"), join(&ls), true));
                }
            }
            for i in 0..owned.len() {
                // variants of entry i: itself, and each of its numbers +1 / -1
                let text = String::from_utf8_lossy(&owned[i]).to_string();
                let mut variants: Vec<(String, Vec<u8>, bool)> = vec![("repeated".into(), owned[i].clone(), true)];
                let toks: Vec<&str> = text.trim_end().split(' ').collect();
                for (ti, t) in toks.iter().enumerate() {
                    if let Ok(x) = t.parse::<i64>() {
                        for d in [-1i64, 1] {
                            let mut tk: Vec<String> = toks.iter().map(|s| s.to_string()).collect();
                            tk[ti] = (x + d).to_string();
                            variants.push((format!("repeated with number {ti} changed by {d}"), format!("{}\n", tk.join(" ")).into_bytes(), false));
                        }
                    }
                }
                for (what, line, same) in variants {
                    for at in 0..=owned.len() {
                        let mut ls = owned.clone();
                        ls.insert(at, line.clone());
                        files.push((format!("entry {i} {what}, inserted at position {at}"), join(&ls), same));
                        // a repeated node count that is one smaller, with a node section that really has one
                        // node less (ASCII: the last node line removed): consistent except for the roots
                        if !binary && text.starts_with(".nnodes") && what.ends_with("by -1") {
                            let body = String::from_utf8_lossy(rest).to_string();
                            let mut bl: Vec<&str> = body.split_inclusive('\n').collect();
                            if let Some(endpos) = bl.iter().position(|l| l.starts_with(".end")) {
                                if endpos >= 2 {
                                    bl.remove(endpos - 1);
                                    let file: Vec<u8> = ls.iter().flatten().copied().chain(bl.concat().into_bytes()).collect();
                                    files.push((format!("entry {i} {what}, inserted at position {at}, last node line removed"), file, false));
                                }
                            }
                        }
                    }
                }
            }
            let mut accepted = 0u64;
            for (what, file, same) in &files {
                ctx.count("evaluations", 1);
                let m2 = dd::fresh::<K>(n, &[0, 1, 2], 4096, 64, 1);
                let case = || json!({"kind": K::NAME, "roots": roots, "binary": binary, "mutation": what, "file": String::from_utf8_lossy(file)});
                match ctx.guarded(&a, case, || K::import(&m2, file)) {
                    None => {
                        std::mem::forget(m2);
                    }
                    Some(Err(_)) => {}
                    Some(Ok(gs)) => {
                        accepted += 1;
                        ctx.count("nontrivial", 1);
                        let refs: Vec<&K::F> = gs.iter().collect();
                        let info = K::audit(&m2, &refs, true);
                        let got: Vec<_> = gs.iter().map(|g| K::table(g)).collect();
                        let mut a2 = a.clone();
                        if let Some(e) = info.errors.first() {
                            a2.insert("class".into(), "audit".into());
                            ctx.viol(a2, case(), &format!("{} header of the file for roots {roots:x?}: {what}: accepted, but {e}", K::NAME));
                        } else if *same && (got.len() != roots.len() || got.iter().zip(&roots).any(|(g, t)| g != &Ok(*t))) {
                            a2.insert("class".into(), "header_order_changes_result".into());
                            ctx.viol(a2, case(), &format!("{} header of the file for roots {roots:x?}: {what}: accepted, denotes {got:x?}", K::NAME));
                        }
                    }
                }
            }
            ctx.outcome(&format!("header:{}:accepted={accepted}/{}", K::NAME, files.len()));
            if accepted == 0 {
                println!("M header mutation sweep accepted no file at all (vacuous)");
            }
        });
    }
}

/// ZBDD families over 5 variables in which no set contains `u`
fn zbdd_without(t: Tab, u: u32) -> Tab {
    let mut r = 0u64;
    for s in 0..32u32 {
        if (t >> s) & 1 == 1 && (s >> u) & 1 == 0 {
            r |= 1 << s;
        }
    }
    r
}

// ---- structured binary records -----------------------------------------------

fn esc(out: &mut Vec<u8>, b: u8) {
    match b {
        0x00 => out.extend([0x00, 0x00]),
        0x0a => out.extend([0x00, 0x01]),
        0x0d => out.extend([0x00, 0x02]),
        0x1a => out.extend([0x00, 0x03]),
        _ => out.push(b),
    }
}
fn enc7(out: &mut Vec<u8>, v: usize) {
    // values < 128: one byte, value << 1, no continuation bit
    assert!(v < 128);
    esc(out, (v as u8) << 1);
}

/// all encodings of one record: node code byte + the numbers it announces, each number in 0..=3
fn records() -> Vec<(String, Vec<u8>)> {
    let mut v = vec![];
    for code in 0..128u8 {
        let var = (code >> 5) & 3;
        let t = (code >> 3) & 3;
        let e = code & 3;
        let needs = |c: u8| c == 1 || c == 2;
        let fields: Vec<bool> = if var == 0 { vec![] } else { vec![needs(var), needs(t), needs(e)] };
        let k = fields.iter().filter(|x| **x).count();
        for combo in 0..4usize.pow(k as u32) {
            let mut bytes = vec![];
            esc(&mut bytes, code);
            let mut c = combo;
            let mut nums = vec![];
            for f in &fields {
                if *f {
                    enc7(&mut bytes, c % 4);
                    nums.push(c % 4);
                    c /= 4;
                }
            }
            v.push((format!("code {code:#04x} (var {var}, then {t}, compl {}, else {e}) numbers {nums:?}", (code >> 2) & 1), bytes));
        }
    }
    v
}

fn binrec(ctx: &mut Ctx, part: usize) {
    let n = 3u32;
    // template: a valid binary BCDD file for x2, then patch the header
    let tmpl = {
        let mref = dd::fresh::<Bcdd>(n, &[0, 1, 2], 256, 16, 1);
        let f = Bcdd::build(&mref, model::var_tab(1, n) & model::var_tab(2, n)).unwrap();
        <Bcdd as Io>::export(&mref, &[f], true).expect("harness: export")
    };
    let text = String::from_utf8_lossy(&tmpl).to_string();
    let head_end = text.find(".nodes\n").expect("harness: no .nodes") + ".nodes\n".len();
    let header_tmpl = &text[..head_end];
    // the valid records of the template (terminal, x2 node, x1 node)
    let rec_term = {
        let mut b = vec![];
        esc(&mut b, 0);
        b
    };
    let valid_second = {
        // x2 node: var absolute 2, then terminal, else terminal complemented
        let mut b = vec![];
        esc(&mut b, (1 << 5) | (0 << 3) | (1 << 2) | 0);
        enc7(&mut b, 1);
        b
    };
    let recs = records();
    let mk_header = |nnodes: usize, root: i64| -> String {
        let mut h = String::new();
        for line in header_tmpl.lines() {
            if line.starts_with(".nnodes") {
                h.push_str(&format!(".nnodes {nnodes}\n"));
            } else if line.starts_with(".rootids") {
                h.push_str(&format!(".rootids {root}\n"));
            } else {
                h.push_str(line);
                h.push('\n');
            }
        }
        h
    };
    ctx.group(&format!("binary node records part {part}"), |ctx| {
        let a = attrs(&[("kind", "bcdd"), ("part", "binrec")]);
        let mut accepted = 0u64;
        for (pos, prefix) in [(2usize, vec![rec_term.clone()]), (3usize, vec![rec_term.clone(), valid_second.clone()])] {
            for (ri, (desc, rec)) in recs.iter().enumerate() {
                if ri % 8 != part {
                    continue;
                }
                for root in [pos as i64, -(pos as i64)] {
                    ctx.count("evaluations", 1);
                    ctx.count("nontrivial", 1);
                    let mut file = mk_header(pos, root).into_bytes();
                    for p in &prefix {
                        file.extend(p);
                    }
                    file.extend(rec);
                    // (the exporter writes ".end" right behind the last node byte)
                    file.extend(b".end\n");
                    let case = || json!({"kind": "bcdd", "n": 3, "record_position": pos, "record": desc, "root": root, "file_hex": file.iter().map(|b| format!("{b:02x}")).collect::<String>()});
                    let mref = dd::fresh::<Bcdd>(n, &[0, 1, 2], 256, 16, 1);
                    let Some(res) = ctx.guarded(&a, case, || <Bcdd as Io>::import(&mref, &file)) else {
                        std::mem::forget(mref);
                        continue;
                    };
                    let live = match res {
                        Ok(v) => {
                            ctx.outcome("accepted");
                            accepted += 1;
                            v
                        }
                        Err(e) => {
                            ctx.outcome("rejected");
                            ctx.outcome(&format!("rejected: {}", e.to_string().chars().take(60).collect::<String>()));
                            if std::env::var_os("VERIF_DEBUG_BINREC").is_some() {
                                eprintln!("DBG pos {pos} root {root} {desc}: {e}");
                            }
                            vec![]
                        }
                    };
                    let mut bad: Vec<(String, String)> = vec![];
                    for f in &live {
                        if let Err(e) = Bcdd::table(f) {
                            bad.push(("malformed_result".into(), e));
                        }
                    }
                    let refs: Vec<&BCDDFunction> = live.iter().collect();
                    let info = Bcdd::audit(&mref, &refs, true);
                    for e in info.errors.iter().take(2) {
                        bad.push(("audit".into(), e.clone()));
                    }
                    drop(refs);
                    drop(live);
                    let left = mref.with_manager_shared(|m| {
                        m.gc();
                        m.num_inner_nodes()
                    });
                    if left != 0 {
                        bad.push(("leak".into(), format!("{left} nodes remain after dropping the import result and gc")));
                    }
                    for (class, msg) in bad {
                        let mut a = a.clone();
                        a.insert("class".into(), class);
                        ctx.viol(a, case(), &format!("bcdd binary file with record #{pos} = {desc}, root {root}: {msg}"));
                    }
                }
            }
        }
        if accepted == 0 {
            // the enumeration contains valid records; if none is accepted the template is broken
            println!("M binrec part {part}: not a single record was accepted - the file template does not match the format any more");
        }
        ctx.sample(|| json!({"kind": "bcdd", "record_position": 3, "record": recs[100].0}));
    });
}
