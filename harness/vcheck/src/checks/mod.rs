use crate::driver::Meta;
use crate::proto::Ctx;

pub mod allops;
pub mod boolops;
pub mod c15x;
pub mod loomx;

macro_rules! registry {
    ($($id:literal => $m:ident),* $(,)?) => {
        $(pub mod $m;)*
        pub fn meta(prop: &str) -> Option<Meta> {
            match prop { $($id => Some($m::meta()),)* _ => None }
        }
        pub fn shards(prop: &str, tier: &str) -> Vec<String> {
            match prop { $($id => $m::shards(tier),)* _ => vec![] }
        }
        pub fn run_shard(ctx: &mut Ctx) {
            match ctx.prop.clone().as_str() { $($id => $m::run(ctx),)* p => panic!("unknown property {p}") }
        }
    };
}

// one line per property check: "CNN" => cnn
registry! {
    "C01" => c01,
    "C02" => c02,
    "C03" => c03,
    "C04" => c04,
    "C05" => c05,
    "C06" => c06,
    "C07" => c07,
    "C08" => c08,
    "C09" => c09,
    "C10" => c10,
    "C11" => c11,
    "C12" => c12,
    "C13" => c13,
    "C14" => c14,
    "C15" => c15,
    "C16" => c16,
    "C17" => c17,
    "C18" => c18,
    "C19" => c19,
    "C20" => c20,
}
