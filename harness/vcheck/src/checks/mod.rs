use crate::driver::Meta;
use crate::proto::Ctx;

pub mod boolops;
pub mod c02;

pub fn meta(prop: &str) -> Option<Meta> {
    match prop {
        "C02" => Some(c02::meta()),
        _ => None,
    }
}

pub fn shards(prop: &str, tier: &str) -> Vec<String> {
    match prop {
        "C02" => c02::shards(tier),
        _ => vec![],
    }
}

pub fn run_shard(ctx: &mut Ctx) {
    match ctx.prop.clone().as_str() {
        "C02" => c02::run(ctx),
        p => panic!("unknown property {p}"),
    }
}
