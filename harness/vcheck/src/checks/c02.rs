//! C02 — Boolean connectives, ITE, constants, variables, eval, cofactors.
//! E-INPUT: every operand tuple over the 256 three-variable functions, per
//! (kind, variable order, thread configuration); n = 4 block in the thorough
//! tier.

use oxidd::{BooleanFunction, ManagerRef};
use serde_json::json;

use super::boolops::*;
use crate::dd::{Bcdd, Bdd, BoolKind, Zbdd};
use crate::driver::Meta;
use crate::model::{self, BINOPS, BKind, Tab};
use crate::proto::{Ctx, attrs};

pub fn meta() -> Meta {
    Meta {
        level: "exploration",
        rule: "exhaustive enumeration of operand tuples: for each kind in {bdd,bcdd,zbdd}, each of the 6 orders of 3 variables and each thread configuration: not/8 binary connectives on all 256 resp. 65536 tuples, ite on all triples of a 64-function subset closed under permutation+negation (quick) or all 2^24 triples (thorough), constants/var/not_var, eval on all 8 assignments, cofactors, satisfiable/valid; every connective recomputed on the pairs of a sparse 18-function live set after a collection (three rounds) with a cache that keeps every entry; negation / connectives / constants / variables on the old handles after add_vars(1) (with the same operations computed before it); thorough adds a 4-variable block. A case is non-trivial when all operands are non-constant and pairwise distinct (no terminal/equality shortcut at the root); every enumerated tuple is distinct. `edges` shards: every connective, not and ite through the edge-level entry points (K::F::<op>_edge on borrowed edges of one session). `twomgr` shards: one session of the manager in which, between its own node creations, nodes of a second manager (131072 / 200000 / 4096 slots, fresh) are created; all handles of both managers are read back.",
        assumptions: vec![
            "operands are built through DiagramRules::reduce + then_insert (route A), not through the operators under test".into(),
            "results are read back by the harness's own interpreter over Manager::get_node; eval is compared against it separately".into(),
            "index-based backend here; the pointer backend is exercised by C20".into(),
            "random operands over 5..8 variables are not enumerated (n=4 block in the thorough tier instead)".into(),
        ],
        hang_is_violation: false,
        shard_timeout: (600, 7200),
    }
}

pub fn shards(tier: &str) -> Vec<String> {
    let mut v = vec![];
    let cfgs: &[&str] = if tier == "thorough" { &["t1", "t2d1", "t2d2", "t2d8"] } else { &["t1", "t2d2"] };
    for k in ["bdd", "bcdd", "zbdd"] {
        for o in model::perms(3) {
            for c in cfgs {
                v.push(format!("{k}:{}:{c}", model::order_str(&o)));
            }
        }
    }
    // operations on handles that were created under another order and lived through a reordering
    for k in ["bdd", "bcdd", "zbdd"] {
        for o1 in model::perms(3) {
            for o2 in model::perms(3) {
                if o1 != o2 {
                    v.push(format!("{k}:{}:t1:re{}", model::order_str(&o1), model::order_str(&o2)));
                }
            }
        }
    }
    // operations on old handles after add_vars (negation / the connectives were computed before as well)
    for k in ["bdd", "bcdd", "zbdd"] {
        for o in model::perms(3) {
            v.push(format!("{k}:{}:t1:addvars", model::order_str(&o)));
            v.push(format!("{k}:{}:t1:twomgr", model::order_str(&o)));
            v.push(format!("{k}:{}:t1:edges", model::order_str(&o)));
        }
    }
    if tier == "thorough" {
        for k in ["bdd", "bcdd", "zbdd"] {
            for o in ["0123", "3210", "2031"] {
                for part in 0..8 {
                    v.push(format!("{k}:{o}:t1:n4p{part}"));
                }
            }
        }
    }
    v
}

pub fn run(ctx: &mut Ctx) {
    let shard = ctx.shard.clone();
    let parts: Vec<&str> = shard.split(':').collect();
    let order = model::parse_order(parts[1]);
    let tc = ThreadCfg::parse(parts[2]);
    let n4 = parts.get(3).map(|s| s.to_string());
    if n4.as_deref() == Some("edges") {
        match parts[0] {
            "bdd" => run_edges::<Bdd>(ctx, &order, tc),
            "bcdd" => run_edges::<Bcdd>(ctx, &order, tc),
            "zbdd" => run_edges::<Zbdd>(ctx, &order, tc),
            _ => panic!("bad shard"),
        }
        return;
    }
    if n4.as_deref() == Some("twomgr") {
        match parts[0] {
            "bdd" => run_twomgr::<Bdd>(ctx, &order, tc),
            "bcdd" => run_twomgr::<Bcdd>(ctx, &order, tc),
            "zbdd" => run_twomgr::<Zbdd>(ctx, &order, tc),
            _ => panic!("bad shard"),
        }
        return;
    }
    if n4.as_deref() == Some("addvars") {
        match parts[0] {
            "bdd" => run_addvars::<Bdd>(ctx, &order, tc),
            "bcdd" => run_addvars::<Bcdd>(ctx, &order, tc),
            "zbdd" => run_addvars::<Zbdd>(ctx, &order, tc),
            _ => panic!("bad shard"),
        }
        return;
    }
    if let Some(o2) = n4.as_deref().and_then(|p| p.strip_prefix("re")) {
        let o2 = model::parse_order(o2);
        match parts[0] {
            "bdd" => run_reord::<Bdd>(ctx, &order, &o2, tc),
            "bcdd" => run_reord::<Bcdd>(ctx, &order, &o2, tc),
            "zbdd" => run_reord::<Zbdd>(ctx, &order, &o2, tc),
            _ => panic!("bad shard"),
        }
        return;
    }
    match (parts[0], n4) {
        ("bdd", None) => run_k::<Bdd>(ctx, &order, tc),
        ("bcdd", None) => run_k::<Bcdd>(ctx, &order, tc),
        ("zbdd", None) => run_k::<Zbdd>(ctx, &order, tc),
        ("bdd", Some(p)) => run_n4::<Bdd>(ctx, &order, tc, &p),
        ("bcdd", Some(p)) => run_n4::<Bcdd>(ctx, &order, tc, &p),
        ("zbdd", Some(p)) => run_n4::<Zbdd>(ctx, &order, tc, &p),
        _ => panic!("bad shard"),
    }
}

fn case<K: BoolKind>(n: u32, order: &[u32], tc: ThreadCfg, op: &str, operands: &[Tab], expected: Tab, got: &str) -> serde_json::Value {
    json!({"kind": K::NAME, "n": n, "order": model::order_str(order), "threads": tc.threads, "split": tc.split,
           "op": op, "operands": operands, "expected": expected, "got": got})
}

fn nontrivial(ops: &[Tab], n: u32) -> bool {
    let m = model::full(n);
    for (i, &a) in ops.iter().enumerate() {
        if a == 0 || a == m {
            return false;
        }
        for &b in &ops[..i] {
            if a == b {
                return false;
            }
        }
    }
    true
}

/// compare a result handle with the model table
fn check_result<K: BoolKind>(
    ctx: &mut Ctx,
    n: u32,
    order: &[u32],
    tc: ThreadCfg,
    op: &str,
    operands: &[Tab],
    expected: Tab,
    res: oxidd_core::util::AllocResult<K::F>,
) {
    ctx.count("evaluations", 1);
    if nontrivial(operands, n) {
        ctx.count("nontrivial", 1);
    }
    let a = attrs(&[("kind", K::NAME), ("op", op)]);
    match res {
        Err(_) => ctx.viol(
            {
                let mut a = a;
                a.insert("class".into(), "unexpected_oom".into());
                a
            },
            case::<K>(n, order, tc, op, operands, expected, "OutOfMemory"),
            &format!("{} {op}{:?}: OutOfMemory on a manager with ample capacity", K::NAME, operands),
        ),
        Ok(h) => match K::table(&h) {
            Err(e) => ctx.viol(
                {
                    let mut a = a;
                    a.insert("class".into(), "malformed".into());
                    a
                },
                case::<K>(n, order, tc, op, operands, expected, &e),
                &format!("{} {op}{:?}: result diagram malformed: {e}", K::NAME, operands),
            ),
            Ok(t) => {
                if t != expected {
                    ctx.viol(
                        {
                            let mut a = a;
                            a.insert("class".into(), "wrong_value".into());
                            a
                        },
                        case::<K>(n, order, tc, op, operands, expected, &format!("{t:#x}")),
                        &format!(
                            "{} order {} {op}{:x?}: expected table {expected:#x}, got {t:#x}",
                            K::NAME,
                            model::order_str(order),
                            operands
                        ),
                    );
                }
            }
        },
    }
}

fn run_k<K: BoolKind>(ctx: &mut Ctx, order: &[u32], tc: ThreadCfg) {
    let n = 3u32;
    let full = model::full(n);
    let zbdd = K::BK == BKind::Zbdd;
    let order = order.to_vec();
    let ostr = model::order_str(&order);

    ctx.group("basics", |ctx| {
        let (mref, fns) = all_functions::<K>(n, &order, 1024, tc);
        // builder + interpreter agree with the model for all 256 (sanity of views 1 and 2)
        for (t, f) in fns.iter().enumerate() {
            ctx.count("evaluations", 1);
            match K::table(f) {
                Ok(tt) if tt == t as Tab => {}
                other => ctx.viol(
                    attrs(&[("kind", K::NAME), ("op", "build"), ("class", "wrong_value")]),
                    case::<K>(n, &order, tc, "build", &[t as Tab], t as Tab, &format!("{other:x?}")),
                    &format!("{} order {ostr}: table built through reduce/then_insert reads back as {other:x?}, expected {t:#x}", K::NAME),
                ),
            }
            // eval vs. interpreter on all assignments
            for a in 0..(1u32 << n) {
                let got = f.eval((0..n).map(|v| (v, (a >> v) & 1 == 1)));
                ctx.count("evaluations", 1);
                if got != model::bit(t as Tab, a) {
                    ctx.viol(
                        attrs(&[("kind", K::NAME), ("op", "eval"), ("class", "wrong_value")]),
                        case::<K>(n, &order, tc, "eval", &[t as Tab, a as Tab], model::bit(t as Tab, a) as Tab, &format!("{got}")),
                        &format!("{} order {ostr}: eval of {t:#x} under assignment {a:#b} = {got}", K::NAME),
                    );
                }
            }
            // satisfiable / valid
            if f.satisfiable() != (t != 0) || f.valid() != (t as Tab == full) {
                ctx.viol(
                    attrs(&[("kind", K::NAME), ("op", "satisfiable_valid"), ("class", "wrong_value")]),
                    case::<K>(n, &order, tc, "satisfiable_valid", &[t as Tab], 0, ""),
                    &format!("{} satisfiable/valid wrong for {t:#x}", K::NAME),
                );
            }
            // cofactors
            let tv = top_var(t as Tab, n, &order, zbdd);
            let cof = f.cofactors();
            let (ct, cf) = (f.cofactor_true(), f.cofactor_false());
            ctx.count("evaluations", 1);
            match (tv, cof) {
                (None, None) => {
                    if ct.is_some() || cf.is_some() {
                        ctx.viol(
                            attrs(&[("kind", K::NAME), ("op", "cofactors"), ("class", "some_on_terminal")]),
                            case::<K>(n, &order, tc, "cofactor_true/false", &[t as Tab], 0, "Some"),
                            &format!("{} cofactor_true/false of terminal {t:#x} is Some", K::NAME),
                        );
                    }
                }
                (Some(v), Some((ht, hf))) => {
                    ctx.count("nontrivial", 1);
                    let (et, ef) = if zbdd {
                        (model::fam_subset1(t as Tab, v, n), model::fam_subset0(t as Tab, v, n))
                    } else {
                        (model::cofactor(t as Tab, v, true, n), model::cofactor(t as Tab, v, false, n))
                    };
                    let gt = K::table(&ht);
                    let gf = K::table(&hf);
                    let g1 = ct.as_ref().map(|h| K::table(h));
                    let g0 = cf.as_ref().map(|h| K::table(h));
                    if gt != Ok(et) || gf != Ok(ef) || g1 != Some(Ok(et)) || g0 != Some(Ok(ef)) {
                        ctx.viol(
                            attrs(&[("kind", K::NAME), ("op", "cofactors"), ("class", "wrong_value")]),
                            case::<K>(n, &order, tc, "cofactors", &[t as Tab], et, &format!("{gt:x?} {gf:x?} {g1:x?} {g0:x?}")),
                            &format!("{} order {ostr}: cofactors of {t:#x} w.r.t. top variable {v}: expected ({et:#x},{ef:#x}), got ({gt:x?},{gf:x?}) / single ({g1:x?},{g0:x?})", K::NAME),
                        );
                    }
                }
                (tv, cof) => ctx.viol(
                    attrs(&[("kind", K::NAME), ("op", "cofactors"), ("class", "none_some_mismatch")]),
                    case::<K>(n, &order, tc, "cofactors", &[t as Tab], 0, &format!("{}", cof.is_some())),
                    &format!("{} cofactors of {t:#x}: top var {tv:?} but result is_some = {}", K::NAME, cof.is_some()),
                ),
            }
        }
        // constants and variables
        mref.with_manager_shared(|m| {
            let f = K::F::f(m);
            let t = K::F::t(m);
            check_result::<K>(ctx, n, &order, tc, "f", &[], 0, Ok(f));
            check_result::<K>(ctx, n, &order, tc, "t", &[], full, Ok(t));
            for v in 0..n {
                check_result::<K>(ctx, n, &order, tc, "var", &[v as Tab], model::var_tab(v, n), K::F::var(m, v));
                check_result::<K>(ctx, n, &order, tc, "not_var", &[v as Tab], model::not(model::var_tab(v, n), n), K::F::not_var(m, v));
            }
        });
        ctx.sample(|| case::<K>(n, &order, tc, "eval", &[0x96, 5], 0, "-"));
    });

    // eval with argument lists that mention variables several times, in any order: the last value counts
    ctx.group("evalargs", |ctx| {
        let (_mref, fns) = all_functions::<K>(n, &order, 1024, tc);
        let maxlen = if ctx.thorough() { 6 } else { 5 };
        for (seq, a) in arg_lists(n, maxlen) {
            for (t, f) in fns.iter().enumerate() {
                let got = f.eval(seq.iter().copied());
                ctx.count("evaluations", 1);
                if t != 0 && t as Tab != full {
                    ctx.count("nontrivial", 1);
                }
                if got != model::bit(t as Tab, a) {
                    ctx.viol(
                        attrs(&[("kind", K::NAME), ("op", "eval_args"), ("class", "wrong_value")]),
                        case::<K>(n, &order, tc, "eval_args", &[t as Tab, a as Tab], model::bit(t as Tab, a) as Tab, &format!("{seq:?} -> {got}")),
                        &format!("{} order {ostr}: eval of {t:#x} with arguments {seq:?} (last value counts: assignment {a:#b}) = {got}", K::NAME),
                    );
                }
            }
        }
        ctx.sample(|| case::<K>(n, &order, tc, "eval_args", &[0x96, 5], 0, "[(0,false),(2,true),(1,false),(0,true)]"));
    });

    ctx.group("not", |ctx| {
        let (_mref, fns) = all_functions::<K>(n, &order, 1024, tc);
        for (t, f) in fns.iter().enumerate() {
            check_result::<K>(ctx, n, &order, tc, "not", &[t as Tab], model::not(t as Tab, n), f.not());
            check_result::<K>(ctx, n, &order, tc, "not_owned", &[t as Tab], model::not(t as Tab, n), f.clone().not_owned());
        }
    });

    for op in BINOPS {
        ctx.group(op.name(), |ctx| {
            let (mref, fns) = all_functions::<K>(n, &order, 1024, tc);
            for (a, f) in fns.iter().enumerate() {
                for (b, g) in fns.iter().enumerate() {
                    let exp = op.apply(a as Tab, b as Tab, n);
                    check_result::<K>(ctx, n, &order, tc, op.name(), &[a as Tab, b as Tab], exp, apply_bin(op, f, g));
                }
                if a % 64 == 63 {
                    mref.with_manager_shared(|m| {
                        use oxidd::Manager;
                        m.gc();
                    });
                }
            }
            ctx.sample(|| case::<K>(n, &order, tc, op.name(), &[0xe8, 0x96], op.apply(0xe8, 0x96, n), "-"));
        });
    }

    // every connective on a 64 x 64 operand set with a cache large enough to keep all entries: compute and drop,
    // collect (some results are then referenced by dead nodes only), compute everything again
    ctx.group("connectives recomputed after a collection", |ctx| {
        // (a sparse live set: most results and many of their inner nodes die in the collection)
        let tabs: Vec<Tab> = model::subset3().into_iter().step_by(5).chain([0xe8u64, 0x96, 0xca, 0x1b, 0x6a]).collect();
        let (mref, fns) = functions_of::<K>(n, &order, 1 << 16, tc, &tabs);
        for round in 0..3 {
            for op in BINOPS {
                for (i, &a) in tabs.iter().enumerate() {
                    for (j, &b) in tabs.iter().enumerate() {
                        let r = apply_bin(op, &fns[i], &fns[j]);
                        if round > 0 {
                            check_result::<K>(ctx, n, &order, tc, op.name(), &[a, b], op.apply(a, b, n), r);
                        }
                    }
                }
            }
            mref.with_manager_shared(|m| {
                use oxidd::Manager;
                m.gc();
            });
        }
        ctx.sample(|| case::<K>(n, &order, tc, "and", &[0xe8, 0x96], 0x80, "after gc"));
    });

    // ite
    let tabs: Vec<Tab> = if ctx.thorough() { (0..256).collect() } else { model::subset3() };
    let chunks: Vec<Vec<Tab>> = tabs.chunks(if ctx.thorough() { 16 } else { 64 }).map(|c| c.to_vec()).collect();
    for (ci, chunk) in chunks.iter().enumerate() {
        ctx.group(&format!("ite#{ci}"), |ctx| {
            let (mref, fns) = functions_of::<K>(n, &order, 1024, tc, &tabs);
            for &a in chunk {
                let ia = tabs.iter().position(|&x| x == a).unwrap();
                for (ib, &b) in tabs.iter().enumerate() {
                    for (ic, &c) in tabs.iter().enumerate() {
                        let exp = model::ite(a, b, c, n);
                        check_result::<K>(ctx, n, &order, tc, "ite", &[a, b, c], exp, fns[ia].ite(&fns[ib], &fns[ic]));
                    }
                }
                mref.with_manager_shared(|m| {
                    use oxidd::Manager;
                    m.gc();
                });
            }
        });
    }
}

/// n = 4 block (thorough): all 65536 functions for unary operations, eval and
/// cofactors; all pairs (f, g) with g from a 40-function representative set.
fn run_n4<K: BoolKind>(ctx: &mut Ctx, order: &[u32], tc: ThreadCfg, part: &str) {
    let n = 4u32;
    let part: u64 = part.trim_start_matches("n4p").parse().unwrap();
    let zbdd = K::BK == BKind::Zbdd;
    let order = order.to_vec();
    let x: Vec<Tab> = (0..n).map(|v| model::var_tab(v, n)).collect();
    let full = model::full(n);
    let mut reps: Vec<Tab> = vec![0, full];
    for v in 0..4 {
        reps.push(x[v]);
        reps.push(!x[v] & full);
    }
    for i in 0..4 {
        for j in (i + 1)..4 {
            reps.push(x[i] & x[j]);
            reps.push(x[i] | x[j]);
            reps.push(x[i] ^ x[j]);
            reps.push(x[i] & !x[j] & full);
        }
    }
    reps.extend([x[0] ^ x[1] ^ x[2] ^ x[3], (x[0] & x[1]) | (x[2] & x[3]), 0x6996, 0x1ee1, 0x8001, 0x0180, 0xfee8, 0x1234]);
    let lo = part * 8192;
    let hi = lo + 8192;
    ctx.group(&format!("n4 part {part}"), |ctx| {
        let mref = crate::dd::fresh::<K>(n, &order, 1 << 20, 4096, tc.threads);
        let rf: Vec<K::F> = reps.iter().map(|&t| K::build(&mref, t).unwrap()).collect();
        for t in lo..hi {
            let f = K::build(&mref, t).unwrap();
            check_result::<K>(ctx, n, &order, tc, "build", &[t], t, Ok(f.clone()));
            check_result::<K>(ctx, n, &order, tc, "not", &[t], model::not(t, n), f.not());
            for a in 0..16u32 {
                ctx.count("evaluations", 1);
                if f.eval((0..n).map(|v| (v, (a >> v) & 1 == 1))) != model::bit(t, a) {
                    ctx.viol(
                        attrs(&[("kind", K::NAME), ("op", "eval"), ("class", "wrong_value")]),
                        case::<K>(n, &order, tc, "eval", &[t, a as Tab], model::bit(t, a) as Tab, "-"),
                        &format!("{} n=4 eval of {t:#x} under {a:#b} wrong", K::NAME),
                    );
                }
            }
            if let Some(v) = top_var(t, n, &order, zbdd) {
                let (et, ef) = if zbdd { (model::fam_subset1(t, v, n), model::fam_subset0(t, v, n)) } else { (model::cofactor(t, v, true, n), model::cofactor(t, v, false, n)) };
                match f.cofactors() {
                    Some((a, b)) => {
                        check_result::<K>(ctx, n, &order, tc, "cofactor_true", &[t], et, Ok(a));
                        check_result::<K>(ctx, n, &order, tc, "cofactor_false", &[t], ef, Ok(b));
                    }
                    None => ctx.viol(
                        attrs(&[("kind", K::NAME), ("op", "cofactors"), ("class", "none_some_mismatch")]),
                        case::<K>(n, &order, tc, "cofactors", &[t], 0, "None"),
                        &format!("{} n=4 cofactors of {t:#x} is None", K::NAME),
                    ),
                }
            }
            for (gi, g) in rf.iter().enumerate() {
                for op in BINOPS {
                    check_result::<K>(ctx, n, &order, tc, op.name(), &[t, reps[gi]], op.apply(t, reps[gi], n), apply_bin(op, &f, g));
                }
                if gi % 8 == 0 {
                    let h = &rf[(gi * 7 + 3) % rf.len()];
                    let ht = reps[(gi * 7 + 3) % rf.len()];
                    check_result::<K>(ctx, n, &order, tc, "ite", &[t, reps[gi], ht], model::ite(t, reps[gi], ht, n), f.ite(g, h));
                    check_result::<K>(ctx, n, &order, tc, "ite", &[reps[gi], t, ht], model::ite(reps[gi], t, ht, n), g.ite(&f, h));
                }
            }
            if t % 512 == 511 {
                mref.with_manager_shared(|m| {
                    use oxidd::Manager;
                    m.gc();
                });
            }
        }
    });
}

/// All argument lists of length n..=maxlen over the pairs (variable, value) that mention every one
/// of the n variables at least once, with the total assignment they denote (last value counts).
pub fn arg_lists(n: u32, maxlen: usize) -> Vec<(Vec<(u32, bool)>, u32)> {
    let syms = 2 * n as usize;
    let mut out = vec![];
    for len in n as usize..=maxlen {
        let mut idx = vec![0usize; len];
        'outer: loop {
            let seq: Vec<(u32, bool)> = idx.iter().map(|&i| ((i / 2) as u32, i % 2 == 1)).collect();
            let mut seen = 0u32;
            let mut a = 0u32;
            for &(v, b) in &seq {
                seen |= 1 << v;
                a = (a & !(1 << v)) | ((b as u32) << v);
            }
            if seen == (1 << n) - 1 {
                out.push((seq, a));
            }
            for p in (0..len).rev() {
                idx[p] += 1;
                if idx[p] < syms {
                    continue 'outer;
                }
                idx[p] = 0;
            }
            break;
        }
    }
    out
}

/// All functions are built under `o1`, the manager is reordered to `o2` while every handle is alive,
/// then constants, variables, negation, the binary connectives and ite are checked on the old handles.
fn run_reord<K: BoolKind>(ctx: &mut Ctx, o1: &[u32], o2: &[u32], tc: ThreadCfg) {
    let n = 3u32;
    let full = model::full(n);
    let order = o2.to_vec();
    let tabs: Vec<Tab> = if ctx.thorough() { (0..256).collect() } else { model::subset3() };
    let label = format!("reorder {}>{}", model::order_str(o1), model::order_str(o2));
    ctx.group(&label, |ctx| {
        let (mref, fns) = all_functions::<K>(n, o1, 1024, tc);
        K::set_order(&mref, o2);
        for (t, f) in fns.iter().enumerate() {
            ctx.count("evaluations", 1);
            match K::table(f) {
                Ok(tt) if tt == t as Tab => {}
                other => ctx.viol(
                    attrs(&[("kind", K::NAME), ("op", "reorder_keep"), ("class", "wrong_value")]),
                    case::<K>(n, &order, tc, "reorder_keep", &[t as Tab], t as Tab, &format!("{other:x?}")),
                    &format!("{} {label}: handle of {t:#x} reads back as {other:x?} after the reordering", K::NAME),
                ),
            }
            for a in 0..(1u32 << n) {
                ctx.count("evaluations", 1);
                if f.eval((0..n).map(|v| (v, (a >> v) & 1 == 1))) != model::bit(t as Tab, a) {
                    ctx.viol(
                        attrs(&[("kind", K::NAME), ("op", "eval"), ("class", "wrong_value"), ("after", "reorder")]),
                        case::<K>(n, &order, tc, "eval", &[t as Tab, a as Tab], model::bit(t as Tab, a) as Tab, "-"),
                        &format!("{} {label}: eval of {t:#x} under {a:#b} wrong after the reordering", K::NAME),
                    );
                }
            }
        }
        mref.with_manager_shared(|m| {
            check_result::<K>(ctx, n, &order, tc, "f", &[], 0, Ok(K::F::f(m)));
            check_result::<K>(ctx, n, &order, tc, "t", &[], full, Ok(K::F::t(m)));
            for v in 0..n {
                check_result::<K>(ctx, n, &order, tc, "var", &[v as Tab], model::var_tab(v, n), K::F::var(m, v));
                check_result::<K>(ctx, n, &order, tc, "not_var", &[v as Tab], model::not(model::var_tab(v, n), n), K::F::not_var(m, v));
            }
        });
        for (t, f) in fns.iter().enumerate() {
            check_result::<K>(ctx, n, &order, tc, "not", &[t as Tab], model::not(t as Tab, n), f.not());
        }
        for op in BINOPS {
            for &a in &tabs {
                for &b in &tabs {
                    check_result::<K>(ctx, n, &order, tc, op.name(), &[a, b], op.apply(a, b, n), apply_bin(op, &fns[a as usize], &fns[b as usize]));
                }
            }
        }
        let small: Vec<Tab> = tabs.iter().copied().step_by(if ctx.thorough() { 4 } else { 3 }).collect();
        for &a in &small {
            for &b in &small {
                for &c in &small {
                    check_result::<K>(ctx, n, &order, tc, "ite", &[a, b, c], model::ite(a, b, c, n), fns[a as usize].ite(&fns[b as usize], &fns[c as usize]));
                }
            }
        }
        ctx.sample(|| case::<K>(n, &order, tc, "and", &[0xe8, 0x96], 0x80, &label));
    });
}

/// All 256 functions over 3 variables; negation and the connectives are computed once (results dropped, no
/// collection), then a fourth variable is added and everything is computed again on the old handles.
/// The edge-level entry points of the function types (`*_edge`, what the method forms are documented to be
/// shorthands for): every connective on all ordered pairs of a 64-function set, `not_edge` and `ite_edge`.
fn run_edges<K: BoolKind>(ctx: &mut Ctx, order: &[u32], tc: ThreadCfg) {
    use oxidd::Function;
    let n = 3u32;
    ctx.group("edge-level entry points", |ctx| {
        let tabs = model::subset3();
        let (mref, fns) = functions_of::<K>(n, order, 1 << 12, tc, &tabs);
        mref.with_manager_shared(|m| {
            for (i, &a) in tabs.iter().enumerate() {
                let fe = fns[i].as_edge(m);
                check_result::<K>(ctx, n, order, tc, "not_edge", &[a], model::not(a, n), K::F::not_edge(m, fe).map(|e| K::F::from_edge(m, e)));
                for (j, &b) in tabs.iter().enumerate() {
                    let ge = fns[j].as_edge(m);
                    for op in BINOPS {
                        let r = match op {
                            model::BinOp::And => K::F::and_edge(m, fe, ge),
                            model::BinOp::Or => K::F::or_edge(m, fe, ge),
                            model::BinOp::Xor => K::F::xor_edge(m, fe, ge),
                            model::BinOp::Equiv => K::F::equiv_edge(m, fe, ge),
                            model::BinOp::Nand => K::F::nand_edge(m, fe, ge),
                            model::BinOp::Nor => K::F::nor_edge(m, fe, ge),
                            model::BinOp::Imp => K::F::imp_edge(m, fe, ge),
                            model::BinOp::ImpStrict => K::F::imp_strict_edge(m, fe, ge),
                        };
                        check_result::<K>(ctx, n, order, tc, &format!("{}_edge", op.name()), &[a, b], op.apply(a, b, n), r.map(|e| K::F::from_edge(m, e)));
                    }
                }
            }
            let small: Vec<usize> = (0..tabs.len()).step_by(4).collect();
            for &i in &small {
                for &j in &small {
                    for &k in &small {
                        let r = K::F::ite_edge(m, fns[i].as_edge(m), fns[j].as_edge(m), fns[k].as_edge(m));
                        check_result::<K>(ctx, n, order, tc, "ite_edge", &[tabs[i], tabs[j], tabs[k]], model::ite(tabs[i], tabs[j], tabs[k], n), r.map(|e| K::F::from_edge(m, e)));
                    }
                }
            }
        });
    });
}

/// One long session of the manager under test in which, between its own node creations, nodes of a second,
/// large and fresh manager are created (the calling thread's allocation state belongs to the outer manager).
fn run_twomgr<K: BoolKind>(ctx: &mut Ctx, order: &[u32], tc: ThreadCfg) {
    use oxidd::{Manager, ManagerRef};
    let n = 3u32;
    let x: Vec<Tab> = (0..n).map(|v| model::var_tab(v, n)).collect();
    for big in [1usize << 17, 200_000, 4096] {
        ctx.group(&format!("one session with node creation in a second manager of {big} slots in between"), |ctx| {
            let keep_tabs: Vec<Tab> = vec![x[0], x[1], x[2], 0xe8, 0x96];
            let tabs = model::subset3();
            let (mref, keep) = functions_of::<K>(n, order, 1 << 12, tc, &keep_tabs);
            let other: crate::dd::MRefOf<K> = K::new_manager(big, 1024, 1);
            other.with_manager_exclusive(|m| {
                m.add_vars(3);
            });
            let mut made: Vec<(Tab, oxidd_core::util::AllocResult<K::F>, &'static str)> = vec![];
            let mut foreign: Vec<(Tab, oxidd_core::util::AllocResult<K::F>)> = vec![];
            mref.with_manager_shared(|_| {
                let half = tabs.len() / 2;
                for &t in &tabs[..half] {
                    made.push((t, K::build(&mref, t), "before"));
                }
                for &t in &[0xcau64, 0x6a] {
                    foreign.push((t, K::build(&other, t)));
                }
                for &t in &tabs[half..] {
                    made.push((t, K::build(&mref, t), "between"));
                }
                foreign.push((0x1b, K::build(&other, 0x1b)));
                for op in BINOPS {
                    for (i, &a) in keep_tabs.iter().enumerate() {
                        for (j, &b) in keep_tabs.iter().enumerate() {
                            made.push((op.apply(a, b, n), apply_bin(op, &keep[i], &keep[j]), op.name()));
                        }
                    }
                }
            });
            for (t, r, when) in made {
                check_result::<K>(ctx, n, order, tc, &format!("created_{when}_the_foreign_nodes"), &[t], t, r);
            }
            for (t, f) in keep_tabs.iter().zip(&keep) {
                check_result::<K>(ctx, n, order, tc, "old_handle", &[*t], *t, Ok(f.clone()));
            }
            let ident: Vec<u32> = (0..n).collect();
            for (t, r) in foreign {
                check_result::<K>(ctx, n, &ident, tc, "foreign_manager", &[t], t, r);
            }
        });
    }
}

fn run_addvars<K: BoolKind>(ctx: &mut Ctx, order: &[u32], tc: ThreadCfg) {
    let zbdd = K::BK == BKind::Zbdd;
    let mut order4 = order.to_vec();
    order4.push(3);
    // a 3-variable function seen over 4 variables: BDD/BCDD do not depend on x3; a ZBDD family contains no
    // set with x3, i.e. the function is false wherever x3 is true
    let ext = |t: Tab| if zbdd { t } else { t | (t << 8) };
    ctx.group("operations after add_vars", |ctx| {
        let (mref, fns) = all_functions::<K>(3, order, 1 << 14, tc);
        let tabs = model::subset3();
        for f in fns.iter() {
            let _ = f.not();
        }
        for op in BINOPS {
            for &a in &tabs {
                for &b in &tabs {
                    let _ = apply_bin(op, &fns[a as usize], &fns[b as usize]);
                }
            }
        }
        mref.with_manager_exclusive(|m| {
            use oxidd::Manager;
            m.add_vars(1);
        });
        let n = 4u32;
        for (t, f) in fns.iter().enumerate() {
            let t = t as Tab;
            check_result::<K>(ctx, n, &order4, tc, "old_handle", &[t], ext(t), Ok(f.clone()));
            check_result::<K>(ctx, n, &order4, tc, "not", &[t], model::not(ext(t), n), f.not());
        }
        for op in BINOPS {
            for &a in &tabs {
                for &b in &tabs {
                    check_result::<K>(ctx, n, &order4, tc, op.name(), &[a, b], op.apply(ext(a), ext(b), n), apply_bin(op, &fns[a as usize], &fns[b as usize]));
                }
            }
        }
        mref.with_manager_shared(|m| {
            check_result::<K>(ctx, n, &order4, tc, "t", &[], model::full(n), Ok(K::F::t(m)));
            for v in 0..n {
                check_result::<K>(ctx, n, &order4, tc, "var", &[v as Tab], model::var_tab(v, n), K::F::var(m, v));
                check_result::<K>(ctx, n, &order4, tc, "not_var", &[v as Tab], model::not(model::var_tab(v, n), n), K::F::not_var(m, v));
            }
        });
        ctx.sample(|| case::<K>(n, &order4, tc, "not", &[0x96], model::not(ext(0x96), n), "after add_vars"));
    });
}
