//! Shared helpers for the Boolean kinds: apply a named operation through the
//! public `BooleanFunction` API, shard configuration parsing.

#![allow(dead_code)]

use oxidd::BooleanFunction;
use oxidd_core::util::AllocResult;

use crate::dd::{BoolKind, MRefOf};
use crate::model::{self, BinOp, Tab};

pub fn apply_bin<F: BooleanFunction>(op: BinOp, f: &F, g: &F) -> AllocResult<F> {
    match op {
        BinOp::And => f.and(g),
        BinOp::Or => f.or(g),
        BinOp::Xor => f.xor(g),
        BinOp::Equiv => f.equiv(g),
        BinOp::Nand => f.nand(g),
        BinOp::Nor => f.nor(g),
        BinOp::Imp => f.imp(g),
        BinOp::ImpStrict => f.imp_strict(g),
    }
}

/// thread configuration of a shard: "t1" or "t2d<depth>"
#[derive(Clone, Copy, Debug)]
pub struct ThreadCfg {
    pub threads: u32,
    pub split: Option<u32>,
}

impl ThreadCfg {
    pub fn parse(s: &str) -> ThreadCfg {
        if let Some(rest) = s.strip_prefix('t') {
            if let Some((t, d)) = rest.split_once('d') {
                return ThreadCfg { threads: t.parse().unwrap(), split: Some(d.parse().unwrap()) };
            }
            return ThreadCfg { threads: rest.parse().unwrap(), split: None };
        }
        panic!("bad thread cfg {s}")
    }
}

/// Fresh manager with all 2^(2^n) functions built by route A (table ->
/// reduce/then_insert), index = table.
pub fn all_functions<K: BoolKind>(n: u32, order: &[u32], cache: usize, tc: ThreadCfg) -> (MRefOf<K>, Vec<K::F>) {
    let mref = crate::dd::fresh::<K>(n, order, 1 << 16, cache, tc.threads);
    if tc.split.is_some() {
        K::set_split_depth(&mref, tc.split);
    }
    let cnt: u64 = 1u64 << (1u32 << n);
    let fns: Vec<K::F> = (0..cnt).map(|t| K::build(&mref, t as Tab).expect("harness: out of memory while building operands")).collect();
    (mref, fns)
}

pub fn functions_of<K: BoolKind>(n: u32, order: &[u32], cache: usize, tc: ThreadCfg, tabs: &[Tab]) -> (MRefOf<K>, Vec<K::F>) {
    let mref = crate::dd::fresh::<K>(n, order, 1 << 16, cache, tc.threads);
    if tc.split.is_some() {
        K::set_split_depth(&mref, tc.split);
    }
    let fns: Vec<K::F> = tabs.iter().map(|&t| K::build(&mref, t).expect("harness: out of memory while building operands")).collect();
    (mref, fns)
}

pub fn top_var(t: Tab, n: u32, order: &[u32], zbdd: bool) -> Option<u32> {
    for &v in order {
        if zbdd {
            if model::fam_subset1(t, v, n) != 0 {
                return Some(v);
            }
        } else if model::depends_on(t, v, n) {
            return Some(v);
        }
    }
    None
}
