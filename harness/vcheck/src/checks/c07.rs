//! C07 — concurrent and parallel execution is equivalent to sequential execution.
//! E-SCHED: every schedule of short multi-thread scripts on the REAL manager up
//! to a preemption bound, under the cooperative scheduler of `sched.rs`.

use std::sync::Mutex;

use oxidd::{BooleanFunction, Function, Manager, ManagerRef};
use oxidd_core::util::AllocResult;
use serde_json::json;

use crate::dd::{Bcdd, Bdd, BoolKind, MRefOf, Zbdd};
use crate::driver::Meta;
use crate::model::{self, Tab};
use crate::proto::{Ctx, attrs};
use crate::sched::{self, PointRec};

pub fn meta() -> Meta {
    Meta {
        level: "model_checking",
        rule: "stateless exploration of ALL schedules with at most 2 preemptions (thorough: 3 for the two-thread scripts) of 14 scripts with 1..3 application threads on a fresh real manager per execution (64 nodes, apply cache 16, 3 variables): S1 two threads compute the same conjunction; S2 recomputation vs. gc with the dead result still in the unique table and apply cache; S3 a different operator on shared operands vs. gc; S4 drop vs. gc vs. clone+or; S5 one thread running the multi-threaded ite/and with split depth 2 (fork/join through the hook spawns controlled threads); S6 gc vs. gc vs. xor; S8 add_vars (exclusive lock) vs. and; S9 two allocating threads on a 12-node manager; S10 ZBDD not (tautology chain) vs. gc; S11 quantification vs. gc vs. quantification; S12 compute-drop-recompute vs. gc; S16 model counting of live functions through a count cache filled before the collection, both threads inside a session of another manager (freed slots are recycled while the collection runs);  S13 ite / S14 or+and on operands (x0 ? x1 : x2), (x0 ? !x2 : x2) with split depth 2 (forked joins) on a store with room for the operands plus 0..3 nodes (OutOfMemory inside one branch of a join while the sibling succeeds; failing operations are allowed, the reference counts and the node count after teardown must still be exact); G1 the background collector as a controlled thread on a 160-node store (marks 90/95) that holds 72 live and 18 dead nodes: the application thread builds A, builds and drops B, builds C and D, crossing the high water mark up to twice (all schedules with <= 2 preemptions, about 50 000 per kind, split into 16 disjoint parts of the schedule tree; thorough: G2 = the same work split over two application threads); kinds bdd, bcdd, zbdd; `deep` (bdd, bcdd; free-running, one case): x0 & ... & x29999 on a two-worker manager, negation and xor through all 30000 levels issued by the application thread (the recursion runs on the manager's workers; a stack overflow is the death of the isolated worker process), results checked by eval and handle equality; MTBDD<I64>: M1 add with a fresh constant, constant dropped, another fresh constant (terminal slot recycling) vs. gc; M2 two threads creating the same new terminal vs. gc. Scheduling points: every level / store-state / manager-RwLock / terminal / cache-bucket lock acquisition (blocking ones with a readiness predicate, so deadlock = no enabled thread is detected), cache try-locks, gc try-lock and phases, handle clone/drop, fork/join. Oracle per execution (G1/G2 additionally: the store can be refilled to its full capacity afterwards): every result has the model's table and equals the handle obtained by recomputing sequentially in the same manager afterwards; no panic / deadlock; full audit with exact reference counts; after dropping everything + gc the initial node count. states = distinct (schedule outcome signatures), transitions = scheduling decisions taken, executions = schedules run.",
        assumptions: vec![
            "at the instrumented points only sequentially consistent interleavings are explored (Relaxed/Acquire/Release reorderings are not modelled, and nothing can be interleaved between two atomic operations that have no scheduling point between them); the one lock that is built from raw atomics, the apply-cache bucket lock, is therefore also model-checked with loom (`loom:spinlock:*` shards: all interleavings and weak-memory behaviours of lock/try_lock/unlock for 2 threads, preemption bound 3 for 3 threads; the code is derived from the source text of oxidd-cache/src/util.rs at build time)".into(),
            "the background collector thread is a controlled thread in script G1 only (adopted through the daemon hook; its wait for the condition variable is modelled by a sticky notification flag, see DESIGN 8.8); in the other scripts the node stores (< 100 nodes) disable it and its effect, gc() under a shared manager lock at any point, is scheduled explicitly (S2-S4, S6, S10, S11)".into(),
            "rayon's work stealing is replaced by forking a controlled thread per join (same set of behaviours: a || b then both results)".into(),
            "pointer-based backend not instrumented (covered differentially by C20); free-running 12..20 variable stress is sampling and therefore not part of the verdict".into(),
        ],
        hang_is_violation: true,
        shard_timeout: (600, 3600),
    }
}

const SCRIPTS: [&str; 12] = ["s1", "s2", "s3", "s4", "s5", "s6", "s8", "s9", "s10", "s11", "s12", "s16"];

pub fn shards(tier: &str) -> Vec<String> {
    let mut v = vec![];
    for k in ["bdd", "bcdd", "zbdd"] {
        for s in SCRIPTS {
            if s == "s10" && k != "zbdd" {
                continue;
            }
            if s == "s11" && k == "zbdd" {
                continue;
            }
            let bound = if tier == "thorough" && matches!(s, "s1" | "s2" | "s3" | "s8" | "s10" | "s16") { 3 } else { 2 };
            v.push(format!("{k}:{s}:b{bound}"));
        }
    }
    // S13: the multi-threaded apply (split depth 2, forked joins) on a store with room for the operands
    // plus 0..5 nodes: OutOfMemory strikes inside one branch of a join while the sibling succeeds
    for k in ["bdd", "bcdd", "zbdd"] {
        for extra in 0..4 {
            v.push(format!("{k}:s13c{extra}:b2"));
            v.push(format!("{k}:s14c{extra}:b2"));
        }
    }
    // G1: the background collector (adopted as a controlled thread): the node count crosses the high
    // water mark twice while the application thread keeps allocating; 16 parts of the schedule tree each
    for k in ["bdd", "bcdd", "zbdd"] {
        for part in 0..16 {
            v.push(format!("{k}:g1p{part}:b2"));
        }
        // G2 (thorough): the same with the work split over two application threads
        if tier == "thorough" {
            for part in 0..16 {
                v.push(format!("{k}:g2p{part}:b2"));
            }
        }
    }
    // operations, drops and collections on one manager from inside a session of another manager (the calling
    // thread's allocator state belongs to the other store): depth-4 histories with the reference-count audit
    v.extend(crate::hist::shards_for(&["bdd"], &["n32c16t1x"], 1).into_iter().map(|s| format!("hist:{s}")));
    // a diagram 30000 levels deep on a two-worker manager: the recursion of an operation issued by an
    // application thread runs on the manager's own workers (large stacks), not on the caller's stack
    for k in ["bdd", "bcdd"] {
        v.push(format!("deep:{k}:t2"));
    }
    // loom model of the apply-cache bucket lock (code derived from /repo's source text)
    v.extend(super::loomx::spinlock_shards());
    for s in ["m1", "m2"] {
        // m2 has about 17 000 schedules with 2 preemptions and more than 400 000 with 3
        v.push(format!("mtbdd:{s}:b{}", if tier == "thorough" && s == "m1" { 3 } else { 2 }));
    }
    v
}

pub fn run(ctx: &mut Ctx) {
    if ctx.shard.starts_with("loom:") {
        return super::loomx::run_spinlock(ctx);
    }
    if let Some(rest) = ctx.shard.clone().strip_prefix("deep:") {
        return match rest.split(':').next().unwrap() {
            "bdd" => deep::<Bdd>(ctx),
            _ => deep::<Bcdd>(ctx),
        };
    }
    if let Some(rest) = ctx.shard.clone().strip_prefix("hist:") {
        ctx.shard = rest.to_string();
        return crate::hist::run_shard(ctx, crate::hist::Prop::C05, 4);
    }
    run_script_shard(ctx)
}

/// x0 & ... & x_{n-1} (built bottom-up, recursion depth 1 per step), then operations whose recursion visits
/// every level; a stack overflow kills the worker process and is reported as its death
fn deep<K: QOps>(ctx: &mut Ctx)
where
    MRefOf<K>: Send + Sync,
{
    const N: u32 = 30_000;
    ctx.group(&format!("{} {N} levels deep, 2 workers", K::NAME), |ctx| {
        let mref: MRefOf<K> = K::new_manager(8 * N as usize, 1 << 16, 2);
        mref.with_manager_exclusive(|m| {
            m.add_vars(N);
        });
        let var = |i: u32| mref.with_manager_shared(|m| K::F::var(m, i)).unwrap();
        let mut conj = mref.with_manager_shared(|m| K::F::t(m));
        for i in (0..N).rev() {
            conj = var(i).and(&conj).unwrap();
        }
        let last = var(N - 1);
        let mut bad = |ctx: &mut Ctx, what: &str, msg: String| {
            ctx.viol(attrs(&[("kind", K::NAME), ("script", "deep"), ("class", what)]), json!({"kind": K::NAME, "levels": N, "workers": 2}), &format!("{} diagram with {N} levels on a two-worker manager: {msg}", K::NAME));
        };
        // every operation below recurses through all levels
        let h = conj.xor(&last).unwrap();
        let neg = conj.not().unwrap();
        let eval = |f: &K::F, falses: &[u32]| f.eval((0..N).map(|v| (v, !falses.contains(&v))));
        for (falses, exp_h, exp_neg) in [(&[][..], false, false), (&[0][..], true, true), (&[N - 1][..], false, true), (&[N / 2][..], true, true)] {
            ctx.count("evaluations", 2);
            if eval(&h, falses) != exp_h {
                bad(ctx, "wrong_value", format!("(x0 & ... & x{}) xor x{} evaluates to {} with the variables {falses:?} false and all others true", N - 1, N - 1, !exp_h));
            }
            if eval(&neg, falses) != exp_neg {
                bad(ctx, "wrong_value", format!("!(x0 & ... & x{}) evaluates to {} with the variables {falses:?} false and all others true", N - 1, !exp_neg));
            }
        }
        ctx.count("evaluations", 3);
        if h.xor(&last).unwrap() != conj {
            bad(ctx, "not_canonical", "(conj xor x_last) xor x_last is not the handle of conj".into());
        }
        if neg.not().unwrap() != conj {
            bad(ctx, "not_canonical", "!!conj is not the handle of conj".into());
        }
        let (f, t) = mref.with_manager_shared(|m| (K::F::f(m), K::F::t(m)));
        if conj.and(&neg).unwrap() != f || conj.or(&neg).unwrap() != t {
            bad(ctx, "not_canonical", "conj & !conj / conj | !conj are not the constants".into());
        }
        ctx.count("nontrivial", 11);
        ctx.outcome(&format!("deep:{}:done", K::NAME));
    });
}

type CountCache = oxidd::util::SatCountCache<oxidd::util::num::Saturating<u64>, std::hash::BuildHasherDefault<oxidd::util::FxHasher>>;

/// `<kind>:<script>:b<bound>`; also used by C12 for S15 (the count cache of one thread vs. a collection on another)
pub fn run_script_shard(ctx: &mut Ctx) {
    sched::install_hooks();
    let shard = ctx.shard.clone();
    let p: Vec<&str> = shard.split(':').collect();
    let bound: usize = p[2].trim_start_matches('b').parse().unwrap();
    let script = p[1].to_string();
    match p[0] {
        "bdd" => explore_script::<Bdd>(ctx, &script, bound),
        "bcdd" => explore_script::<Bcdd>(ctx, &script, bound),
        "mtbdd" => explore_mtbdd(ctx, &script, bound),
        _ => explore_script::<Zbdd>(ctx, &script, bound),
    }
}

// ---- MTBDD<I64>: terminals are created and collected dynamically -------------------

fn execute_mtbdd(script: &str, prefix: &[usize]) -> Outcome {
    use crate::hist::{HKind, HMtbdd};
    use oxidd::mtbdd::terminal::I64;
    use oxidd::mtbdd::MTBDDFunction;
    use oxidd::PseudoBooleanFunction;
    type MF = MTBDDFunction<I64>;
    crate::proto::throttle_threads();
    let mref = oxidd::mtbdd::new_manager::<I64>(64, 64, 16, 1);
    mref.with_manager_exclusive(|m| {
        m.add_vars(2);
    });
    // values chosen so that the constants 50 / 90 / 7 are not terminals of any result (they die with their handle)
    let ft = vec![1i64, 2, 3, 4];
    let f = HMtbdd::build(&mref, &ft).unwrap();
    let results: Vec<Slot<AllocResult<MF>>> = (0..3).map(|_| Mutex::new(None)).collect();
    let gcs: Vec<Slot<usize>> = (0..1).map(|_| Mutex::new(None)).collect();
    let mut expected: Vec<Option<Vec<i64>>> = vec![None; 3];
    let (r, gcr, fr, mr) = (&results, &gcs, &f, &mref);
    let mut bodies: Vec<Box<dyn FnOnce() + Send + '_>> = vec![];
    let plus = |k: i64| ft.iter().map(|x| x + k).collect::<Vec<_>>();
    let times = |k: i64| ft.iter().map(|x| x * k).collect::<Vec<_>>();
    match script {
        "m1" => {
            // f + fresh constant, constant dropped, another fresh constant (may recycle the terminal slot) vs. gc
            bodies.push(Box::new(move || {
                let c = mr.with_manager_shared(|m| MF::constant(m, I64::Num(50)));
                let h = c.as_ref().ok().map(|c| fr.add(c));
                drop(c);
                let c2 = mr.with_manager_shared(|m| MF::constant(m, I64::Num(90)));
                let h2 = c2.as_ref().ok().map(|c| fr.add(c));
                drop(c2);
                if let Some(h) = h {
                    *r[0].lock().unwrap() = Some(h);
                }
                if let Some(h2) = h2 {
                    *r[1].lock().unwrap() = Some(h2);
                }
            }));
            bodies.push(Box::new(move || *gcr[0].lock().unwrap() = Some(mr.with_manager_shared(|m| m.gc()))));
            expected[0] = Some(plus(50));
            expected[1] = Some(plus(90));
        }
        "m2" => {
            // two threads create the same new terminals
            bodies.push(Box::new(move || {
                let c = mr.with_manager_shared(|m| MF::constant(m, I64::Num(7)));
                *r[0].lock().unwrap() = c.ok().map(|c| fr.mul(&c));
            }));
            bodies.push(Box::new(move || {
                let c = mr.with_manager_shared(|m| MF::constant(m, I64::Num(7)));
                *r[1].lock().unwrap() = c.ok().map(|c| fr.mul(&c));
            }));
            bodies.push(Box::new(move || *gcr[0].lock().unwrap() = Some(mr.with_manager_shared(|m| m.gc()))));
            expected[0] = Some(times(7));
            expected[1] = Some(times(7));
        }
        _ => panic!("unknown mtbdd script"),
    }
    let sc = script.to_string();
    let pfx = prefix.to_vec();
    let exec = sched::run_reporting_deadlock(prefix, bodies, |d, tr| {
        let v = json!({"attrs": {"kind": "mtbdd", "script": sc, "class": "deadlock"},
            "case": {"kind": "mtbdd", "script": sc, "schedule_prefix": pfx, "choices": sched::choices(tr)},
            "msg": format!("mtbdd script {sc}: deadlock: {d}"), "group": 0, "shard": format!("mtbdd:{sc}"), "property": "C07", "tier": "quick"});
        println!("V {v}");
    });
    let mut errors: Vec<(String, String)> = vec![];
    for p in &exec.panics {
        errors.push(("panic".into(), p.clone()));
    }
    if exec.overrun {
        errors.push(("replay_divergence".into(), "the schedule prefix could not be replayed".into()));
    }
    let mut sig = String::new();
    let mut live: Vec<MF> = vec![];
    for (i, slot) in results.iter().enumerate() {
        let Some(exp) = &expected[i] else { continue };
        match slot.lock().unwrap().take() {
            None => {
                if exec.panics.is_empty() {
                    errors.push(("no_result".into(), format!("result {i} was never produced")));
                }
            }
            Some(Err(_)) => errors.push(("unexpected_oom".into(), format!("result {i}: OutOfMemory"))),
            Some(Ok(h)) => {
                match HMtbdd::table(&h) {
                    Ok(t) if &t == exp => {}
                    other => errors.push(("wrong_result".into(), format!("result {i} denotes {other:?}, expected {exp:?}"))),
                }
                live.push(h);
            }
        }
    }
    if let Some(c) = gcs[0].lock().unwrap().take() {
        sig.push_str(&format!("gc={c};"));
    }
    {
        let mut refs: Vec<&MF> = vec![&f];
        refs.extend(live.iter());
        let info = HMtbdd::audit(&mref, &refs, true);
        for e in info.errors.iter().take(2) {
            errors.push(("audit".into(), e.clone()));
        }
        sig.push_str(&format!("nodes={};terminals={};", info.inner_nodes, mref.with_manager_shared(|m| m.num_terminals())));
    }
    drop(live);
    drop(f);
    let (left, leftt) = mref.with_manager_shared(|m| {
        m.gc();
        (m.num_inner_nodes(), m.num_terminals())
    });
    if (left != 0 || leftt != 0) && errors.is_empty() {
        errors.push(("leak".into(), format!("{left} inner nodes and {leftt} terminals remain after dropping everything and gc")));
    }
    Outcome { errors, signature: sig, trace: exec.trace }
}

fn explore_mtbdd(ctx: &mut Ctx, script: &str, bound: usize) {
    let label = format!("mtbdd {script} preemption bound {bound}");
    let script = script.to_string();
    ctx.group(&label, |ctx| {
        let cap = if ctx.thorough() { 400_000 } else { 60_000 };
        let mut maxpre = 0usize;
        let ctx_cell = std::cell::RefCell::new(ctx);
        let (count, maxp, capped) = sched::explore(bound, cap, |prefix| {
            let mut ctx = ctx_cell.borrow_mut();
            let out = execute_mtbdd(&script, prefix);
            ctx.count("evaluations", 1);
            ctx.count("executions", 1);
            ctx.count("transitions", out.trace.len() as u64);
            let pre = sched::preemptions(&out.trace);
            maxpre = maxpre.max(pre);
            if pre > 0 {
                ctx.count("nontrivial", 1);
            }
            ctx.outcome(&format!("mtbdd:{}:{}", script, out.signature));
            ctx.distinct(crate::proto::fx(&out.signature.bytes().map(|b| b as u64).collect::<Vec<_>>()));
            for (class, msg) in &out.errors {
                ctx.viol(
                    attrs(&[("kind", "mtbdd"), ("script", &script), ("class", class)]),
                    json!({"kind": "mtbdd", "script": script, "preemption_bound": bound, "choices": sched::choices(&out.trace),
                           "points": out.trace.iter().map(|p| json!([p.thread, p.class, p.enabled, p.chosen])).collect::<Vec<_>>()}),
                    &format!("mtbdd script {script} under schedule {:?} ({} preemptions): {msg}", sched::choices(&out.trace), pre),
                );
            }
            out.trace
        });
        let mut ctx = ctx_cell.borrow_mut();
        ctx.outcome(&format!("schedules:mtbdd:{script}={count},max_points={maxp},max_preemptions={maxpre}{}", if capped { ",CAPPED" } else { "" }));
        if capped {
            println!("M schedule cap of {cap} reached for mtbdd {script} (bound {bound})");
        }
        ctx.sample(|| json!({"kind": "mtbdd", "script": script, "preemption_bound": bound, "schedules": count, "max_scheduling_points": maxp}));
    });
}

trait QOps: BoolKind {
    fn exists(f: &Self::F, vars: &Self::F) -> AllocResult<Self::F>;
}
impl QOps for Bdd {
    fn exists(f: &Self::F, vars: &Self::F) -> AllocResult<Self::F> {
        oxidd::BooleanFunctionQuant::exists(f, vars)
    }
}
impl QOps for Bcdd {
    fn exists(f: &Self::F, vars: &Self::F) -> AllocResult<Self::F> {
        oxidd::BooleanFunctionQuant::exists(f, vars)
    }
}
impl QOps for Zbdd {
    fn exists(f: &Self::F, _vars: &Self::F) -> AllocResult<Self::F> {
        Ok(f.clone())
    }
}

const F: Tab = 0xca; // x2 ? x1 : x0
const G: Tab = 0x96; // parity
const H: Tab = 0xe8; // majority
const S14_F: Tab = 0xd8; // x0 ? x1 : x2
const S14_G: Tab = 0x5a; // x0 ? !x2 : x2

type Slot<T> = Mutex<Option<T>>;

struct Outcome {
    errors: Vec<(String, String)>,
    signature: String,
    trace: Vec<PointRec>,
}

/// One execution of `script` under the schedule `prefix` on a fresh manager.
fn execute<K: QOps>(ctx: &mut Ctx, script: &str, prefix: &[usize]) -> Outcome
where
    MRefOf<K>: Send + Sync,
{
    if script.starts_with("g1") || script.starts_with("g2") {
        return execute_bg::<K>(prefix, script.starts_with("g2"));
    }
    let n = 3u32;
    let s13_extra: Option<usize> = script.strip_prefix("s13c").or(script.strip_prefix("s14c")).map(|x| x.parse().unwrap());
    let script = if script.starts_with("s13c") { "s13" } else if script.starts_with("s14c") { "s14" } else { script };
    let cap = if script == "s9" || script == "s13" || script == "s14" {
        // room for the operands plus three more nodes: both threads allocate, at least one runs dry
        let probe: MRefOf<K> = K::new_manager(64, 16, 1);
        probe.with_manager_exclusive(|m| {
            m.add_vars(n);
        });
        let mut keep = vec![K::build(&probe, F).unwrap(), K::build(&probe, G).unwrap(), K::build(&probe, H).unwrap(), K::build(&probe, model::cube_tab(0b010, 0, n)).unwrap()];
        if script == "s14" {
            keep.push(K::build(&probe, S14_F).unwrap());
            keep.push(K::build(&probe, S14_G).unwrap());
        }
        let c = probe.with_manager_shared(|m| m.num_inner_nodes());
        drop(keep);
        c + s13_extra.unwrap_or(3)
    } else {
        64
    };
    crate::proto::throttle_threads();
    let mref: MRefOf<K> = K::new_manager(cap, 16, 1);
    mref.with_manager_exclusive(|m| {
        m.add_vars(n);
    });
    if script == "s5" || script == "s13" || script == "s14" {
        K::set_split_depth(&mref, Some(2));
    }
    let f = K::build(&mref, F).unwrap();
    let g = K::build(&mref, G).unwrap();
    let h = K::build(&mref, H).unwrap();
    // results: (label, handle-or-error, expected table over the FINAL number of variables)
    let results: Vec<Slot<AllocResult<K::F>>> = (0..4).map(|_| Mutex::new(None)).collect();
    let gcs: Vec<Slot<usize>> = (0..2).map(|_| Mutex::new(None)).collect();
    let counts: Mutex<Vec<(Tab, u64)>> = Mutex::new(vec![]);
    let mut expected: Vec<Option<Tab>> = vec![None; 4];
    let mut extra_live: Vec<K::F> = vec![];
    let mut final_n = n;

    // pre-state for some scripts
    let mut dead_holder: Option<K::F> = None;
    match script {
        "s2" => {
            // the result exists in the unique table and apply cache but no handle keeps it
            let r = f.and(&g).unwrap();
            drop(r);
        }
        "s4" => {
            dead_holder = Some(f.xor(&h).unwrap());
        }
        _ => {}
    }
    let hclone_src = h.clone();
    let cube = K::build(&mref, model::cube_tab(0b010, 0, n)).unwrap();

    let other_mgr: Option<MRefOf<K>> = if script == "s16" { Some(K::new_manager(16, 16, 1)) } else { None };
    let mut bodies: Vec<Box<dyn FnOnce() + Send + '_>> = vec![];
    let r = &results;
    let gcr = &gcs;
    let (fr, gr, hr, mr) = (&f, &g, &h, &mref);
    match script {
        "s1" => {
            bodies.push(Box::new(move || *r[0].lock().unwrap() = Some(fr.and(gr))));
            bodies.push(Box::new(move || *r[1].lock().unwrap() = Some(fr.and(gr))));
            expected[0] = Some(F & G);
            expected[1] = Some(F & G);
        }
        "s2" => {
            bodies.push(Box::new(move || *r[0].lock().unwrap() = Some(fr.and(gr))));
            bodies.push(Box::new(move || *gcr[0].lock().unwrap() = Some(mr.with_manager_shared(|m| m.gc()))));
            expected[0] = Some(F & G);
        }
        "s3" => {
            bodies.push(Box::new(move || {
                let a = fr.xor(gr);
                let b = a.as_ref().ok().map(|a| a.or(hr));
                *r[0].lock().unwrap() = Some(a);
                if let Some(b) = b {
                    *r[1].lock().unwrap() = Some(b);
                }
            }));
            bodies.push(Box::new(move || *gcr[0].lock().unwrap() = Some(mr.with_manager_shared(|m| m.gc()))));
            expected[0] = Some(F ^ G);
            expected[1] = Some((F ^ G) | H);
        }
        "s4" => {
            let dh = dead_holder.take().unwrap();
            bodies.push(Box::new(move || drop(dh)));
            bodies.push(Box::new(move || *gcr[0].lock().unwrap() = Some(mr.with_manager_shared(|m| m.gc()))));
            let hc = &hclone_src;
            bodies.push(Box::new(move || {
                let c = hc.clone();
                *r[0].lock().unwrap() = Some(c.or(gr));
                drop(c);
            }));
            expected[0] = Some(H | G);
        }
        "s5" => {
            bodies.push(Box::new(move || {
                *r[0].lock().unwrap() = Some(fr.ite(gr, hr));
                *r[1].lock().unwrap() = Some(gr.and(hr));
            }));
            expected[0] = Some(model::ite(F, G, H, n));
            expected[1] = Some(G & H);
        }
        "s13" => {
            bodies.push(Box::new(move || {
                *r[0].lock().unwrap() = Some(fr.ite(gr, hr));
            }));
            expected[0] = Some(model::ite(F, G, H, n));
        }
        "s14" => {
            // f2 | g2, f2 & g2: the then-branch (x1 | !x2 resp. x1 & !x2) needs a node that does not exist yet,
            // the else-branch (x2 op x2) is a terminal case returning a new reference to an existing inner node
            extra_live.push(K::build(&mref, S14_F).unwrap());
            extra_live.push(K::build(&mref, S14_G).unwrap());
            let (f2, g2) = (extra_live[0].clone(), extra_live[1].clone());
            bodies.push(Box::new(move || {
                *r[0].lock().unwrap() = Some(f2.or(&g2));
                *r[1].lock().unwrap() = Some(f2.and(&g2));
            }));
            expected[0] = Some(S14_F | S14_G);
            expected[1] = Some(S14_F & S14_G);
        }
        "s6" => {
            bodies.push(Box::new(move || *gcr[0].lock().unwrap() = Some(mr.with_manager_shared(|m| m.gc()))));
            bodies.push(Box::new(move || *gcr[1].lock().unwrap() = Some(mr.with_manager_shared(|m| m.gc()))));
            bodies.push(Box::new(move || *r[0].lock().unwrap() = Some(fr.xor(hr))));
            expected[0] = Some(F ^ H);
        }
        "s8" => {
            bodies.push(Box::new(move || {
                mr.with_manager_exclusive(|m| {
                    m.add_vars(1);
                });
            }));
            bodies.push(Box::new(move || *r[0].lock().unwrap() = Some(fr.and(gr))));
            final_n = 4;
            // table over 4 variables (ZBDD: family unchanged; BDD: independent of the new variable)
            expected[0] = Some(F & G);
        }
        "s9" => {
            bodies.push(Box::new(move || *r[0].lock().unwrap() = Some(fr.xor(gr))));
            bodies.push(Box::new(move || *r[1].lock().unwrap() = Some(gr.xor(hr))));
            expected[0] = Some(F ^ G);
            expected[1] = Some(G ^ H);
        }
        "s10" => {
            bodies.push(Box::new(move || *r[0].lock().unwrap() = Some(fr.not())));
            bodies.push(Box::new(move || *gcr[0].lock().unwrap() = Some(mr.with_manager_shared(|m| m.gc()))));
            expected[0] = Some(model::not(F, n));
        }
        "s12" => {
            // compute, drop, recompute (the second computation may be served from the apply cache) vs. gc
            bodies.push(Box::new(move || {
                let a = fr.xor(gr);
                drop(a);
                let b = hr.and(gr);
                drop(b);
                *r[0].lock().unwrap() = Some(fr.xor(gr));
                *r[1].lock().unwrap() = Some(hr.and(gr));
            }));
            bodies.push(Box::new(move || *gcr[0].lock().unwrap() = Some(mr.with_manager_shared(|m| m.gc()))));
            expected[0] = Some(F ^ G);
            expected[1] = Some(H & G);
        }
        "s15" => {
            // model counting with a caller-owned cache (every node cached) vs. a collection: build, count, drop,
            // build something else (possibly in the slots the collection freed), count again
            bodies.push(Box::new(move || *gcr[0].lock().unwrap() = Some(mr.with_manager_shared(|m| m.gc()))));
            let cnt = &counts;
            bodies.push(Box::new(move || {
                let mut cache: CountCache = Default::default();
                cache.cache_all = true;
                let mut out = vec![];
                for t in [0x6au64, 0x2c, 0x19] {
                    if let Ok(f2) = K::build(mr, t) {
                        out.push((t, f2.sat_count(3, &mut cache).0));
                    }
                }
                *cnt.lock().unwrap() = out;
            }));
        }
        "s16" => {
            // S16: a count cache filled BEFORE the collection (entries of functions that are dead by now); both
            // threads work from inside a session of another manager, so every slot the collection frees goes
            // straight to the shared free list and the other thread's next allocation can take it while the
            // collection is still running
            let mut cache: CountCache = Default::default();
            cache.cache_all = true;
            for t in [0x6au64, 0x2c, 0x19, 0x47] {
                let d = K::build(mr, t).unwrap();
                let c = d.sat_count(3, &mut cache).0;
                assert_eq!(c, t.count_ones() as u64, "count of {t:#x} in the sequential set-up");
            }
            let other = other_mgr.as_ref().unwrap();
            bodies.push(Box::new(move || *gcr[0].lock().unwrap() = Some(other.with_manager_shared(|_| mr.with_manager_shared(|m| m.gc())))));
            let cnt = &counts;
            bodies.push(Box::new(move || {
                other.with_manager_shared(|_| {
                    // everything counted here stays alive until the thread is done: no entry made during the
                    // collection can belong to a node that the collection frees
                    let live: Vec<(Tab, K::F)> = [0x71u64, 0x8e].into_iter().filter_map(|t| K::build(mr, t).ok().map(|d| (t, d))).collect();
                    *cnt.lock().unwrap() = live.iter().map(|(t, d)| (*t, d.sat_count(3, &mut cache).0)).collect();
                })
            }));
        }
        "s11" => {
            let cr = &cube;
            bodies.push(Box::new(move || *r[0].lock().unwrap() = Some(K::exists(gr, cr))));
            bodies.push(Box::new(move || *gcr[0].lock().unwrap() = Some(mr.with_manager_shared(|m| m.gc()))));
            bodies.push(Box::new(move || *r[1].lock().unwrap() = Some(K::exists(gr, cr))));
            expected[0] = Some(model::exists(G, 0b010, n));
            expected[1] = expected[0];
        }
        _ => panic!("unknown script"),
    }

    let kind = K::NAME;
    let sc = script.to_string();
    let pfx = prefix.to_vec();
    let exec = sched::run_reporting_deadlock(prefix, bodies, |d, tr| {
        // deadlock: report and let the scheduler terminate the process
        let v = json!({"attrs": {"kind": kind, "script": sc, "class": "deadlock"},
            "case": {"kind": kind, "script": sc, "schedule_prefix": pfx, "choices": sched::choices(tr)},
            "msg": format!("{kind} script {sc}: deadlock: {d}"), "group": 0, "shard": format!("{kind}:{sc}"), "property": "C07", "tier": "quick"});
        println!("V {v}");
    });
    let mut errors: Vec<(String, String)> = vec![];
    for p in &exec.panics {
        errors.push(("panic".into(), p.clone()));
    }
    if exec.overrun {
        errors.push(("replay_divergence".into(), "the schedule prefix could not be replayed (fewer enabled threads than recorded)".into()));
    }
    // oracle
    let mut sig = String::new();
    let mut live: Vec<K::F> = vec![];
    for (i, slot) in results.iter().enumerate() {
        let got = slot.lock().unwrap().take();
        let Some(exp) = expected[i] else { continue };
        let exp = if final_n != n && K::NAME != "zbdd" { exp | (exp << 8) } else { exp };
        match got {
            None => {
                if exec.panics.is_empty() {
                    errors.push(("no_result".into(), format!("result {i} was never produced")));
                }
            }
            Some(Err(_)) => {
                sig.push_str(&format!("r{i}=oom;"));
                if script != "s9" && script != "s13" && script != "s14" {
                    errors.push(("unexpected_oom".into(), format!("result {i}: OutOfMemory on an ample manager")));
                }
            }
            Some(Ok(hd)) => {
                sig.push_str(&format!("r{i}=ok;"));
                match K::table(&hd) {
                    Ok(t) if t == exp => {}
                    other => errors.push(("wrong_result".into(), format!("result {i} denotes {other:x?}, expected {exp:#x}"))),
                }
                live.push(hd);
            }
        }
    }
    for (i, g) in gcs.iter().enumerate() {
        if let Some(c) = g.lock().unwrap().take() {
            sig.push_str(&format!("gc{i}={c};"));
        }
    }
    for (t, c) in counts.lock().unwrap().iter() {
        if *c != t.count_ones() as u64 {
            errors.push(("wrong_count".into(), format!("sat_count of {t:#x} through the thread's own count cache = {c}, the function has {} models", t.count_ones())));
        }
    }
    let _ = ctx;
    // sequential recomputation in the same manager must give the very same handles
    if errors.is_empty() {
        let redo: Vec<(usize, AllocResult<K::F>)> = match script {
            "s1" | "s2" | "s8" => vec![(0, f.and(&g))],
            "s3" | "s12" => vec![(0, f.xor(&g))],
            "s4" => vec![(0, h.or(&g))],
            "s5" => vec![(0, f.ite(&g, &h))],
            "s6" => vec![(0, f.xor(&h))],
            "s10" => vec![(0, f.not())],
            "s11" => vec![(0, K::exists(&g, &cube))],
            _ => vec![],
        };
        for (i, rr) in redo {
            if let (Ok(rr), Some(first)) = (rr, live.first()) {
                if i == 0 && &rr != first {
                    errors.push(("differs_from_sequential".into(), "the handle computed concurrently != the handle recomputed sequentially afterwards".into()));
                }
            }
        }
    }
    // audit with exact reference counts
    {
        let mut refs: Vec<&K::F> = vec![&f, &g, &h, &hclone_src, &cube];
        refs.extend(live.iter());
        refs.extend(extra_live.iter());
        let info = K::audit(&mref, &refs, true);
        for e in info.errors.iter().take(2) {
            errors.push(("audit".into(), e.clone()));
        }
        sig.push_str(&format!("nodes={};", info.inner_nodes));
    }
    drop(live);
    extra_live.clear();
    drop(cube);
    drop(hclone_src);
    drop((f, g, h));
    let left = mref.with_manager_shared(|m| {
        m.gc();
        m.num_inner_nodes()
    });
    let init = if K::NAME == "zbdd" { final_n as usize } else { 0 };
    if left != init && errors.is_empty() {
        errors.push(("leak".into(), format!("{left} inner nodes remain after dropping everything and gc (initial {init})")));
    }
    Outcome { errors, signature: sig, trace: exec.trace }
}

fn explore_script<K: QOps>(ctx: &mut Ctx, script: &str, bound: usize)
where
    MRefOf<K>: Send + Sync,
{
    let label = format!("{} {script} preemption bound {bound}", K::NAME);
    let script = script.to_string();
    ctx.group(&label, |ctx| {
        let cap = if ctx.thorough() { 400_000 } else { 60_000 };
        let mut nviol = 0usize;
        let mut maxpre = 0usize;
        let ctx_cell = std::cell::RefCell::new(ctx);
        let (part, parts) = match script.strip_prefix("g1p").or(script.strip_prefix("g2p")) {
            Some(p) => (p.parse::<usize>().unwrap(), 16),
            None => (0, 1),
        };
        let (count, maxp, capped) = sched::explore_part(bound, cap, part, parts, |prefix| {
            let mut ctx = ctx_cell.borrow_mut();
            let out = execute::<K>(&mut ctx, &script, prefix);
            ctx.count("evaluations", 1);
            ctx.count("executions", 1);
            ctx.count("transitions", out.trace.len() as u64);
            let pre = sched::preemptions(&out.trace);
            maxpre = maxpre.max(pre);
            if pre > 0 {
                ctx.count("nontrivial", 1);
            }
            ctx.outcome(&format!("{}:{}:{}", K::NAME, script, out.signature));
            ctx.distinct(crate::proto::fx(&out.signature.bytes().map(|b| b as u64).collect::<Vec<_>>()));
            for (class, msg) in &out.errors {
                nviol += 1;
                ctx.viol(
                    attrs(&[("kind", K::NAME), ("script", &script), ("class", class)]),
                    json!({"kind": K::NAME, "script": script, "preemption_bound": bound, "choices": sched::choices(&out.trace),
                           "points": out.trace.iter().map(|p| json!([p.thread, p.class, p.enabled, p.chosen])).collect::<Vec<_>>(),
                           "legend": "choices[i] = index into the enabled list at scheduling point i (0 = keep running / lowest id); points = [thread, hook class, enabled thread ids, chosen index]"}),
                    &format!("{} script {script} under schedule {:?} ({} preemptions): {msg}", K::NAME, sched::choices(&out.trace), pre),
                );
            }
            out.trace
        });
        let mut ctx = ctx_cell.borrow_mut();
        ctx.count("states", 0);
        ctx.outcome(&format!("schedules:{}:{}={count},max_points={maxp},max_preemptions={maxpre}{}", K::NAME, script, if capped { ",CAPPED" } else { "" }));
        if capped {
            println!("M schedule cap of {cap} reached for {} {script} (bound {bound})", K::NAME);
        }
        ctx.sample(|| json!({"kind": K::NAME, "script": script, "preemption_bound": bound, "schedules": count, "max_scheduling_points": maxp}));
        let _ = nviol;
    });
}

// ---- background collector ------------------------------------------------------------------

/// pseudo-random 6-variable tables (fixed)
fn bg_table(i: u64) -> Tab {
    let mut x = i.wrapping_mul(0x9e3779b97f4a7c15) ^ 0xd1b54a32d192ed03;
    x ^= x >> 29;
    x = x.wrapping_mul(0xbf58476d1ce4e5b9);
    x ^= x >> 32;
    x
}

/// Script G1 on a manager with 160 node slots (background collection: low water mark 90, high water
/// mark 95 nodes): before the controlled part the store holds 72 live and 18 dead nodes; the
/// application thread then builds A, builds B, drops B, builds C and D. The collector thread is a
/// controlled thread that becomes enabled whenever the store notified it.
fn execute_bg<K: QOps>(prefix: &[usize], two_threads: bool) -> Outcome
where
    MRefOf<K>: Send + Sync,
{
    let n = 6u32;
    crate::proto::throttle_threads();
    sched::adopt_daemons(true);
    let mref: MRefOf<K> = K::new_manager(160, 64, 1);
    sched::finish_adoption(1);
    mref.with_manager_exclusive(|m| {
        m.add_vars(n);
    });
    let count = |m: &MRefOf<K>| m.with_manager_shared(|m| m.num_inner_nodes());
    let base = count(&mref);
    // fill up to exactly `target` nodes with functions from a fixed candidate sequence
    let fill = |target: usize, seed: u64, keep: &mut Vec<(Tab, K::F)>| {
        let mut i = 0u64;
        while count(&mref) < base + target {
            let t = if i < 40 {
                bg_table(seed + i)
            } else {
                // small steps: functions of two variables
                let (a, b) = (((i - 40) % 6) as u32, (((i - 40) / 6) % 6) as u32);
                let (ta, tb) = (model::var_tab(a, n), model::var_tab(b, n));
                match (i - 40) / 36 {
                    0 => ta & tb,
                    1 => ta | tb,
                    2 => ta ^ tb,
                    3 => ta & !tb & model::full(n),
                    _ => panic!("harness: cannot reach the node count target"),
                }
            };
            i += 1;
            let before = count(&mref);
            let f = K::build(&mref, t).expect("harness: setup allocation");
            if count(&mref) > base + target {
                drop(f);
                mref.with_manager_shared(|m| m.gc());
                assert_eq!(count(&mref), before, "harness: setup gc");
                continue;
            }
            keep.push((t, f));
        }
    };
    let mut live: Vec<(Tab, K::F)> = vec![];
    fill(72, 1000, &mut live);
    let mut dead: Vec<(Tab, K::F)> = vec![];
    fill(90, 2000, &mut dead);
    drop(dead); // 18 dead nodes stay in the unique tables
    let tabs: [Tab; 4] = [bg_table(1), bg_table(2), bg_table(3), bg_table(4)];
    let results: Vec<Slot<AllocResult<K::F>>> = (0..4).map(|_| Mutex::new(None)).collect();
    let r = &results;
    let mr = &mref;
    let gc0 = mref.with_manager_shared(|m| m.gc_count());
    let nodes0 = count(&mref);
    let bodies: Vec<Box<dyn FnOnce() + Send + '_>> = if two_threads {
        vec![
            Box::new(move || {
                *r[0].lock().unwrap() = Some(K::build(mr, tabs[0]));
                let b = K::build(mr, tabs[1]);
                drop(b);
            }),
            Box::new(move || {
                *r[2].lock().unwrap() = Some(K::build(mr, tabs[2]));
                *r[3].lock().unwrap() = Some(K::build(mr, tabs[3]));
            }),
        ]
    } else {
        vec![Box::new(move || {
            *r[0].lock().unwrap() = Some(K::build(mr, tabs[0]));
            let b = K::build(mr, tabs[1]);
            drop(b);
            *r[2].lock().unwrap() = Some(K::build(mr, tabs[2]));
            *r[3].lock().unwrap() = Some(K::build(mr, tabs[3]));
        })]
    };
    let kind = K::NAME;
    let pfx = prefix.to_vec();
    let exec = sched::run_reporting_deadlock(prefix, bodies, |d, tr| {
        let v = json!({"attrs": {"kind": kind, "script": "g1", "class": "deadlock"},
            "case": {"kind": kind, "script": "g1", "schedule_prefix": pfx, "choices": sched::choices(tr)},
            "msg": format!("{kind} script g1: deadlock: {d}"), "group": 0, "shard": format!("{kind}:g1"), "property": "C07", "tier": "quick"});
        println!("V {v}");
    });
    let mut errors: Vec<(String, String)> = vec![];
    for p in &exec.panics {
        errors.push(("panic".into(), p.clone()));
    }
    if exec.overrun {
        errors.push(("replay_divergence".into(), "the schedule prefix could not be replayed (fewer enabled threads than recorded)".into()));
    }
    let mut sig = String::new();
    let mut got: Vec<K::F> = vec![];
    for (i, slot) in results.iter().enumerate() {
        if i == 1 {
            continue;
        }
        match slot.lock().unwrap().take() {
            None => {
                if exec.panics.is_empty() {
                    errors.push(("no_result".into(), format!("result {i} was never produced")));
                }
            }
            Some(Err(_)) => errors.push(("unexpected_oom".into(), format!("result {i}: OutOfMemory although at most 140 of 160 node slots are ever needed"))),
            Some(Ok(h)) => {
                match K::table(&h) {
                    Ok(t) if t == tabs[i] => {}
                    other => errors.push(("wrong_result".into(), format!("result {i} denotes {other:x?}, expected {:#x}", tabs[i]))),
                }
                got.push(h);
            }
        }
    }
    for (t, f) in &live {
        match K::table(f) {
            Ok(x) if x == *t => {}
            other => errors.push(("live_function_changed".into(), format!("a function that was alive during the whole execution denotes {other:x?}, expected {t:#x}"))),
        }
    }
    // number of collector runs = number of times the daemon was scheduled from its wait
    let runs = exec.trace.iter().filter(|p| p.class == 200).count();
    let gc1 = mref.with_manager_shared(|m| m.gc_count());
    sig.push_str(&format!("collector_waits={runs};collections={};nodes_before={nodes0};nodes_after={};", gc1 - gc0, count(&mref)));
    {
        let mut refs: Vec<&K::F> = live.iter().map(|x| &x.1).collect();
        refs.extend(got.iter());
        let info = K::audit(&mref, &refs, true);
        for e in info.errors.iter().take(2) {
            errors.push(("audit".into(), e.clone()));
        }
    }
    // the very same functions built again must be the same handles
    if errors.is_empty() && got.len() == 3 {
        for (k, i) in [0usize, 2, 3].iter().enumerate() {
            if let Ok(again) = K::build(&mref, tabs[*i]) {
                if again != got[k] {
                    errors.push(("differs_from_sequential".into(), format!("result {i} != the handle obtained by building the same function again afterwards")));
                }
            }
        }
    }
    drop(got);
    drop(live);
    // the collector may be running concurrently now (it has been released); gc() is then a no-op, so retry
    let mut left = usize::MAX;
    for _ in 0..200 {
        left = mref.with_manager_shared(|m| {
            m.gc();
            m.num_inner_nodes()
        });
        if left == base {
            break;
        }
        std::thread::sleep(std::time::Duration::from_millis(1));
    }
    if left != base && errors.is_empty() {
        errors.push(("leak".into(), format!("{left} inner nodes remain after dropping everything and gc (initial {base})")));
    }
    // the slots the collector thread freed must be usable again: refill the store to its capacity
    if errors.is_empty() {
        let mut held: Vec<K::F> = vec![];
        let mut i = 0u64;
        let peak = loop {
            match K::build(&mref, bg_table(5000 + i)) {
                Ok(f) => held.push(f),
                Err(_) => break count(&mref),
            }
            i += 1;
            if i > 400 {
                break usize::MAX;
            }
        };
        if peak != 160 {
            errors.push(("capacity_lost".into(), format!("after the execution, with everything dropped and collected, only {peak} of the 160 node slots can be filled before OutOfMemory")));
        }
        drop(held);
    }
    Outcome { errors, signature: sig, trace: exec.trace }
}
