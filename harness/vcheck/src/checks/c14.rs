//! C14 — resource exhaustion is reported as an error and leaves the manager intact.
//! E-FAULT: for every scripted operation every node (resp. terminal) capacity
//! from 0 up to "everything fits" is run, so that each allocation point of the
//! operation (and of the operand construction) is the failing one in one run.

use oxidd::mtbdd::MTBDDFunction;
use oxidd::mtbdd::terminal::I64;
use oxidd::{BooleanFunction, BooleanFunctionQuant, BooleanOperator, BooleanVecSet, Function, FunctionSubst, Manager, ManagerRef, PseudoBooleanFunction, Subst};
use oxidd_core::util::AllocResult;
use serde_json::json;

use crate::dd::{self, Bcdd, Bdd, BoolKind, MRefOf, Zbdd};
use crate::driver::Meta;
use crate::hist::{HKind, HMtbdd};
use crate::model::{self, Tab};
use crate::proto::{Ctx, attrs};

pub fn meta() -> Meta {
    Meta {
        level: "fault_enumeration",
        rule: "for each kind (bdd, bcdd, zbdd; mtbdd with the terminal store as swept resource) and each scripted operation on 4-variable operands (5 fixed operand sets, thorough: 32; on some of them a collection is requested before the first variable / before the first node exists; var creation / operand construction, and, xor, ite, not, exists, apply_exists, substitute, restrict, pick_cube_dd, pick_cube_dd_set, zbdd union/change/subset1/not/ite, mtbdd add/sub/mul/div/min/max, mtbdd ite for 3 conditions, mtbdd restrict for 12 literal cubes, DDDMP import in ASCII and binary mode, set_var_order, zbdd add_vars): a fresh manager for EVERY inner-node capacity c = 0 .. B+m+2 (B = nodes of ballast + operands, m = nodes the operation allocates on an ample manager), 1 worker and (for and/ite/exists) 2 workers with split depth 2. Outcome must be Ok with the model's result or Err(OutOfMemory); after Err: full audit incl. exact reference counts with the harness's live handles, all earlier handles keep their tables, gc leaves exactly the reachable nodes; then the ballast is dropped, gc, and the same operation must succeed with the model's result. `t1x`: the whole run is issued from inside a session of another manager. Panic, abort and hang are violations. Non-trivial: runs in which the operation itself (not the operand construction) failed.",
        assumptions: vec![
            "capacities below 100 nodes disable the background collector, so which allocation fails is determined by c alone (single-threaded runs)".into(),
            "index backend only: the pointer backend has no capacity limit".into(),
            "the multi-threaded runs are free-running (which allocation fails depends on the schedule); the verdict 'correct result or OutOfMemory + intact manager' must hold for whatever happens; schedule-exhaustive OOM races are part of C07".into(),
        ],
        hang_is_violation: true,
        shard_timeout: (600, 3600),
    }
}

const N: u32 = 4;

pub fn shards(tier: &str) -> Vec<String> {
    let mut v = vec![];
    for k in ["bdd", "bcdd"] {
        for op in ["and", "xor", "ite", "not", "exists", "substitute", "restrict", "pick_cube_dd", "pick_cube_dd_set", "import_ascii", "import_bin"] {
            v.push(format!("{k}:{op}:t1"));
        }
        for q in ["exists", "forall", "unique"] {
            for inner in ["and", "or", "xor", "equiv", "nand", "nor", "imp", "imp_strict"] {
                v.push(format!("{k}:apply_{q}-{inner}:t1"));
            }
        }
        // the multi-threaded recursion: split depth 4 on ONE worker (deterministic: both halves of
        // a join run on the same thread one after the other) and 2 workers (free-running)
        for op in ["and", "xor", "ite", "exists", "apply_exists-and", "apply_forall-or", "substitute", "restrict"] {
            v.push(format!("{k}:{op}:t1d4"));
        }
        for op in ["and", "ite", "exists"] {
            v.push(format!("{k}:{op}:t2"));
        }
        // the whole run (construction, failing operation, audit, drop + gc, retry) issued from inside a session
        // of another manager: the calling thread's allocation state does not belong to the manager under test
        for op in ["and", "ite", "exists", "restrict"] {
            v.push(format!("{k}:{op}:t1x"));
        }
        v.push(format!("{k}:reorder:t1"));
    }
    v.push("bdd:import_cross:t1".into());
    for op in ["union", "change", "subset1", "not", "ite", "and", "import_ascii"] {
        v.push(format!("zbdd:{op}:t1"));
    }
    for op in ["union", "ite", "and", "not"] {
        v.push(format!("zbdd:{op}:t1d4"));
    }
    for op in ["union", "ite"] {
        v.push(format!("zbdd:{op}:t1x"));
    }
    v.push("zbdd:reorder:t1".into());
    v.push("zbdd:add_vars:t1".into());
    for op in ["add", "sub", "mul", "div", "min", "max", "ite", "restrict", "terminals_add", "terminals_constant", "terminals_var", "terminals_reuse"] {
        v.push(format!("mtbdd:{op}:t1"));
    }
    let _ = tier;
    v
}

fn x(v: u32) -> Tab {
    model::var_tab(v, N)
}

thread_local! {
    static OPSET: std::cell::Cell<usize> = const { std::cell::Cell::new(0) };
}
const NSETS: usize = 5;

/// operands: three 4-variable functions; several sets so that different terminal / shortcut
/// cases of the recursions are the place where the store runs dry
fn operand_tabs() -> [Tab; 3] {
    let m = 0xffffu64;
    match OPSET.with(|c| c.get()) {
        0 => [0x6996, (x(0) & x(1)) | (x(2) & x(3)), ((x(0) ^ x(2)) | (x(1) & !x(3))) & m],
        1 => [(x(0) | (x(1) & x(2))) & m, ((x(0) & (x(2) ^ x(3))) | (!x(0) & x(1))) & m, (x(1) | x(3)) & m],
        2 => [(x(0) ^ x(1) ^ x(2)) & m, (x(1) & x(3)) & m, (x(0) | x(2)) & m],
        3 => [((x(0) & x(1)) | (x(2) & x(3))) & m, ((x(0) ^ x(2)) | (x(1) & !x(3))) & m, 0x6996],
        4 => [((x(0) & x(1) & x(2)) | (!x(0) & x(3))) & m, (x(0) | (x(2) & x(3))) & m, ((x(1) ^ x(3)) & x(2)) & m],
        // thorough tier: 27 further fixed sets (a fixed mixing function of the set number; constants avoided)
        s => {
            let mix = |i: u64| {
                let mut z = (s as u64 * 3 + i).wrapping_mul(0x9e37_79b9_7f4a_7c15).wrapping_add(0x1234_5678_9abc_def1);
                z = (z ^ (z >> 30)).wrapping_mul(0xbf58_476d_1ce4_e5b9);
                z = (z ^ (z >> 27)).wrapping_mul(0x94d0_49bb_1331_11eb);
                let t = (z ^ (z >> 31)) & m;
                if t == 0 || t == m { 0x6996 ^ (i + 1) } else { t }
            };
            [mix(0), mix(1), mix(2)]
        }
    }
}

/// ballast: functions sharing few nodes with the operands
fn ballast_tabs() -> Vec<Tab> {
    vec![0x1ee1, 0x7e81, 0x0660, 0x8421]
}

struct Out<F> {
    res: AllocResult<F>,
}

/// (expected table or None if only "is an implicant cube of operand 0" is demanded)
fn expected(op: &str) -> Option<Tab> {
    let [f, g, h] = operand_tabs();
    Some(match op {
        "and" => f & g,
        "xor" => f ^ g,
        "ite" => model::ite(f, g, h, N),
        "not" => model::not(h, N),
        "exists" => model::exists(h, 0b0110, N),
        o if o.starts_with("apply_") => {
            let (q, inner) = o[6..].split_once('-').unwrap();
            let inner = model::BinOp::from_name(inner).unwrap();
            let t = inner.apply(g, h, N);
            match q {
                "exists" => model::exists(t, 0b0101, N),
                "forall" => model::forall(t, 0b0101, N),
                _ => model::unique(t, 0b0101, N),
            }
        }
        "substitute" => model::substitute(g, &[Some(h), None, Some(f), None], N),
        "restrict" => model::restrict(h, 0b0010, 0b1000, N),
        "union" => f | g,
        "change" => model::fam_change(h, 1, N),
        "subset1" => model::fam_subset1(h, 2, N),
        _ => return None,
    })
}

trait K14: BoolKind {
    fn run_op(op: &str, mref: &MRefOf<Self>, o: &[Self::F]) -> AllocResult<Self::F>;
}

fn common_op<F: BooleanFunction>(op: &str, o: &[F]) -> Option<AllocResult<F>> {
    Some(match op {
        "and" => o[0].and(&o[1]),
        "xor" => o[0].xor(&o[1]),
        "ite" => o[0].ite(&o[1], &o[2]),
        "not" => o[2].not(),
        "pick_cube_dd" => o[0].pick_cube_dd(|_, _, l| l % 2 == 0),
        _ => return None,
    })
}

macro_rules! impl_k14_bdd {
    ($k:ty) => {
        impl K14 for $k {
            fn run_op(op: &str, mref: &MRefOf<Self>, o: &[Self::F]) -> AllocResult<Self::F> {
                if let Some(r) = common_op(op, o) {
                    return r;
                }
                match op {
                    "exists" => {
                        let cube = <$k as BoolKind>::build(mref, model::cube_tab(0b0110, 0, N))?;
                        o[2].exists(&cube)
                    }
                    name if name.starts_with("apply_") => {
                        let (q, inner) = name[6..].split_once('-').unwrap();
                        let bop = match inner {
                            "and" => BooleanOperator::And,
                            "or" => BooleanOperator::Or,
                            "xor" => BooleanOperator::Xor,
                            "equiv" => BooleanOperator::Equiv,
                            "nand" => BooleanOperator::Nand,
                            "nor" => BooleanOperator::Nor,
                            "imp" => BooleanOperator::Imp,
                            _ => BooleanOperator::ImpStrict,
                        };
                        let cube = <$k as BoolKind>::build(mref, model::cube_tab(0b0101, 0, N))?;
                        match q {
                            "exists" => o[1].apply_exists(bop, &o[2], &cube),
                            "forall" => o[1].apply_forall(bop, &o[2], &cube),
                            _ => o[1].apply_unique(bop, &o[2], &cube),
                        }
                    }
                    "substitute" => {
                        let s = Subst::new(vec![0u32, 2], vec![o[2].clone(), o[0].clone()]);
                        o[1].substitute(&s)
                    }
                    "restrict" => {
                        let cube = <$k as BoolKind>::build(mref, model::cube_tab(0b0010, 0b1000, N))?;
                        o[2].restrict(&cube)
                    }
                    "pick_cube_dd_set" => {
                        let cube = <$k as BoolKind>::build(mref, model::cube_tab(0b0001, 0b0100, N))?;
                        o[0].pick_cube_dd_set(&cube)
                    }
                    _ => panic!("unknown op {op}"),
                }
            }
        }
    };
}
impl_k14_bdd!(Bdd);
impl_k14_bdd!(Bcdd);

impl K14 for Zbdd {
    fn run_op(op: &str, _mref: &MRefOf<Self>, o: &[Self::F]) -> AllocResult<Self::F> {
        if let Some(r) = common_op(op, o) {
            return r;
        }
        match op {
            "union" => o[0].union(&o[1]),
            "change" => o[2].change(1),
            "subset1" => o[2].subset1(2),
            _ => panic!("unknown op {op}"),
        }
    }
}

fn case<K: BoolKind>(op: &str, c: usize, threads: u32, phase: &str) -> serde_json::Value {
    json!({"kind": K::NAME, "n": N, "op": op, "node_capacity": c, "threads": if threads == 101 { 1 } else { threads }, "split_depth": if threads == 101 { 4 } else if threads > 1 { 2 } else { 0 }, "phase": phase, "operand_set": OPSET.with(|c| c.get()),
           "operands": operand_tabs(), "ballast": ballast_tabs()})
}

/// one run at capacity `c`; returns false if the operand construction already failed
fn run_at<K: K14>(ctx: &mut Ctx, op: &str, c: usize, threads: u32, b0: &mut Option<usize>, need: usize) -> bool {
    if threads == 102 {
        crate::proto::throttle_threads();
        let outer = K::new_manager(16, 16, 1);
        return outer.with_manager_shared(|_| run_at_inner::<K>(ctx, op, c, 1, true, b0, need));
    }
    run_at_inner::<K>(ctx, op, c, threads, false, b0, need)
}

fn run_at_inner<K: K14>(ctx: &mut Ctx, op: &str, c: usize, threads: u32, nested: bool, b0: &mut Option<usize>, need: usize) -> bool {
    ctx.count("evaluations", 1);
    let base = attrs(&[("kind", K::NAME), ("op", op)]);
    let mut fail = |ctx: &mut Ctx, class: &str, phase: &str, msg: String| {
        let mut a = base.clone();
        a.insert("class".into(), class.into());
        ctx.viol(a, case::<K>(op, c, threads, phase), &format!("{} {op} at node capacity {c} ({}), {phase}: {msg}", K::NAME, if threads == 101 { "1 worker, split depth 4".to_string() } else if nested { "1 worker, nested in a session of another manager".to_string() } else { format!("{threads} worker(s)") }));
    };
    crate::proto::throttle_threads();
    let (threads, split) = if threads == 101 { (1, Some(4)) } else if threads > 1 { (threads, Some(2)) } else { (1, None) };
    let mref = K::new_manager(c, 64, threads);
    if split.is_some() {
        K::set_split_depth(&mref, split);
    }
    // ZBDD: add_vars builds the tautology chain and aborts when that does not fit; that is its own script
    if K::NAME == "zbdd" && c < N as usize {
        return false;
    }
    // housekeeping collections at the two points where there is nothing to collect (operand sets 1, 3, ...: on
    // the manager that has no variable yet; sets 2, 5, ...: on the manager that has no inner node yet): they
    // must not change anything that follows
    let set = OPSET.with(|c| c.get());
    if set % 2 == 1 {
        mref.with_manager_shared(|m| m.gc());
    }
    mref.with_manager_exclusive(|m| {
        m.add_vars(N);
    });
    if set % 3 == 2 {
        mref.with_manager_shared(|m| m.gc());
    }
    let init = if K::NAME == "zbdd" { N as usize } else { 0 };
    // operand + ballast construction (may fail)
    let mut live: Vec<(K::F, Tab)> = vec![];
    let mut constructed = true;
    for &t in ballast_tabs().iter().chain(operand_tabs().iter()) {
        match K::build(&mref, t) {
            Ok(f) => live.push((f, t)),
            Err(_) => {
                constructed = false;
                break;
            }
        }
    }
    let audit = |ctx: &mut Ctx, live: &[(K::F, Tab)], extra: &[K::F], phase: &str, fail: &mut dyn FnMut(&mut Ctx, &str, &str, String)| {
        let refs: Vec<&K::F> = live.iter().map(|x| &x.0).chain(extra.iter()).collect();
        let info = K::audit(&mref, &refs, true);
        for e in info.errors.iter().take(2) {
            fail(ctx, "audit", phase, e.clone());
        }
        for (f, t) in live {
            match K::table(f) {
                Ok(x) if x == *t => {}
                other => fail(ctx, "handle_changed", phase, format!("handle of {t:#x} now reads {other:x?}")),
            }
        }
        let (after, reach) = mref.with_manager_shared(|m| {
            m.gc();
            (m.num_inner_nodes(), 0)
        });
        let _ = reach;
        let info2 = K::audit(&mref, &refs, true);
        if after != info2.reachable {
            fail(ctx, "garbage_after_gc", phase, format!("{after} nodes stored after gc but {} reachable", info2.reachable));
        }
    };
    if !constructed {
        ctx.outcome("oom_in_operand_construction");
        audit(ctx, &live, &[], "after failed operand construction", &mut fail);
        drop(live);
        let left = mref.with_manager_shared(|m| {
            m.gc();
            m.num_inner_nodes()
        });
        if left != init {
            fail(ctx, "leak", "after failed operand construction", format!("{left} nodes remain after dropping everything and gc (initial {init})"));
        }
        return false;
    }
    if b0.is_none() {
        *b0 = Some(mref.with_manager_shared(|m| m.num_inner_nodes()));
    }
    let nb = ballast_tabs().len();
    let operands: Vec<K::F> = live[nb..].iter().map(|x| x.0.clone()).collect();
    let res = K::run_op(op, &mref, &operands);
    let check_ok = |ctx: &mut Ctx, r: &K::F, phase: &str, fail: &mut dyn FnMut(&mut Ctx, &str, &str, String)| match K::table(r) {
        Err(e) => fail(ctx, "malformed_result", phase, e),
        Ok(t) => match expected(op) {
            Some(e) => {
                if t != e {
                    fail(ctx, "wrong_result", phase, format!("result {t:#x}, expected {e:#x}"));
                }
            }
            None => {
                // pick_cube*: an implicant of operand 0
                let f = operand_tabs()[0];
                if t == 0 || t & !f != 0 {
                    fail(ctx, "wrong_result", phase, format!("result {t:#x} is not a non-empty implicant of {f:#x}"));
                }
            }
        },
    };
    match res {
        Ok(r) => {
            ctx.outcome("ok");
            check_ok(ctx, &r, "operation succeeded", &mut fail);
            let rt = K::table(&r).unwrap_or(0);
            live.push((r, rt));
            audit(ctx, &live, &operands, "after successful operation", &mut fail);
        }
        Err(_) => {
            ctx.outcome("oom_in_operation");
            ctx.count("nontrivial", 1);
            audit(ctx, &live, &operands, "after OutOfMemory", &mut fail);
            // free the ballast, gc, retry
            let kept: Vec<(K::F, Tab)> = live.drain(nb..).collect();
            drop(live);
            mref.with_manager_shared(|m| m.gc());
            match K::run_op(op, &mref, &operands) {
                Ok(r) => check_ok(ctx, &r, "retry after drop + gc", &mut fail),
                Err(_) => {
                    let free_now = c.saturating_sub(mref.with_manager_shared(|m| m.num_inner_nodes()));
                    if threads > 1 || split.is_some() {
                        // worker threads keep pre-allocated chunks / local free lists; on a store of a
                        // few dozen nodes a second worker can run dry although slots are free. That is
                        // how the allocator is designed, not a violation; the outcome is still
                        // "OutOfMemory + intact manager" (audited below).
                        ctx.outcome("mt_retry_still_oom");
                    } else if free_now >= need {
                        fail(ctx, "retry_failed", "retry after drop + gc", format!("still OutOfMemory although {free_now} node slots are free and the operation allocates {need} nodes on an ample manager"));
                    } else {
                        // dropping the ballast did not free enough for this operand set
                        ctx.outcome("retry_legitimately_oom");
                    }
                }
            }
            live = kept;
        }
    }
    drop(operands);
    drop(live);
    let left = mref.with_manager_shared(|m| {
        m.gc();
        m.num_inner_nodes()
    });
    if left != init {
        fail(ctx, "leak", "teardown", format!("{left} nodes remain after dropping everything and gc (initial {init})"));
    }
    true
}

fn sweep<K: K14>(ctx: &mut Ctx, op: &str, threads: u32) {
    for set in 0..if ctx.thorough() { NSETS + 27 } else { NSETS } {
        OPSET.with(|c| c.set(set));
        sweep_set::<K>(ctx, op, threads);
    }
    OPSET.with(|c| c.set(0));
}

fn sweep_set<K: K14>(ctx: &mut Ctx, op: &str, threads: u32) {
    // measure on an ample manager
    let (b, m) = {
        let mref = dd::fresh::<K>(N, &[0, 1, 2, 3], 4096, 64, 1);
        let mut live = vec![];
        for &t in ballast_tabs().iter().chain(operand_tabs().iter()) {
            live.push(K::build(&mref, t).unwrap());
        }
        let b = mref.with_manager_shared(|m| m.num_inner_nodes());
        let ops: Vec<K::F> = live[ballast_tabs().len()..].to_vec();
        let r = K::run_op(op, &mref, &ops).expect("harness: operation fails on an ample manager");
        let a = mref.with_manager_shared(|m| m.num_inner_nodes());
        drop(r);
        (b, a - b)
    };
    ctx.sample(|| json!({"kind": K::NAME, "op": op, "nodes_ballast_and_operands": b, "nodes_allocated_by_operation": m, "capacities": format!("0..={}", b + m + 2)}));
    let mut b0 = None;
    let reps = if threads > 1 && threads != 101 { 8 } else { 1 };
    for c in 0..=(b + m + 2) {
        for _ in 0..reps {
            run_at::<K>(ctx, op, c, threads, &mut b0, m);
        }
    }
}

pub fn run(ctx: &mut Ctx) {
    let shard = ctx.shard.clone();
    let p: Vec<&str> = shard.split(':').collect();
    let threads = match p[2] {
        "t2" => 2,
        "t1d4" => 101, // encoded: one worker, split depth 4
        "t1x" => 102,  // encoded: one worker, everything nested in a session of another manager
        _ => 1,
    };
    let op = p[1].to_string();
    match (p[0], p[1]) {
        (k, "reorder") => reorder_script(ctx, k),
        ("zbdd", "add_vars") => zbdd_add_vars(ctx),
        (k, "import_ascii") | (k, "import_bin") => import_script(ctx, k, p[1] == "import_bin"),
        ("bdd", "import_cross") => ctx.group("dddmp import binary, complement-edge dump into a plain BDD manager", |ctx| import_x_bdd(ctx, true)),
        ("bdd", _) => ctx.group(&format!("sweep {op}"), |ctx| sweep::<Bdd>(ctx, &op, threads)),
        ("bcdd", _) => ctx.group(&format!("sweep {op}"), |ctx| sweep::<Bcdd>(ctx, &op, threads)),
        ("zbdd", _) => ctx.group(&format!("sweep {op}"), |ctx| sweep::<Zbdd>(ctx, &op, threads)),
        ("mtbdd", _) => mtbdd_script(ctx, &op),
        _ => panic!("bad shard"),
    }
}

/// set_var_order under every capacity: each capacity in its own group, because the
/// library answers an allocation failure inside level_swap with a process abort
fn reorder_script(ctx: &mut Ctx, kind: &str) {
    fn one<K: K14>(ctx: &mut Ctx, c: usize) {
        ctx.count("evaluations", 1);
        crate::proto::throttle_threads();
        let mref = K::new_manager(c, 64, 1);
        if K::NAME == "zbdd" && c < N as usize {
            return;
        }
        mref.with_manager_exclusive(|m| {
            m.add_vars(N);
        });
        let mut live = vec![];
        for &t in operand_tabs().iter() {
            match K::build(&mref, t) {
                Ok(f) => live.push((f, t)),
                Err(_) => return,
            }
        }
        ctx.count("nontrivial", 1);
        K::set_order(&mref, &[3, 1, 0, 2]);
        let refs: Vec<&K::F> = live.iter().map(|x| &x.0).collect();
        let info = K::audit(&mref, &refs, true);
        let mut bad: Vec<String> = info.errors.iter().take(2).cloned().collect();
        for (f, t) in &live {
            if K::table(f) != Ok(*t) {
                bad.push(format!("handle of {t:#x} changed"));
            }
        }
        for e in bad {
            ctx.viol(
                attrs(&[("kind", K::NAME), ("op", "set_var_order"), ("class", "state_after_reorder")]),
                json!({"kind": K::NAME, "op": "set_var_order", "node_capacity": c, "request": "3102", "operands": operand_tabs()}),
                &format!("{} set_var_order at capacity {c}: {e}", K::NAME),
            );
        }
    }
    let maxc = 40;
    for c in 0..=maxc {
        let label = format!("set_var_order at capacity {c}");
        match kind {
            "bdd" => ctx.group(&label, |ctx| one::<Bdd>(ctx, c)),
            "bcdd" => ctx.group(&label, |ctx| one::<Bcdd>(ctx, c)),
            _ => ctx.group(&label, |ctx| one::<Zbdd>(ctx, c)),
        }
    }
}

fn zbdd_add_vars(ctx: &mut Ctx) {
    for c in 0..=6usize {
        ctx.group(&format!("zbdd add_vars(4) at capacity {c}"), |ctx| {
            ctx.count("evaluations", 1);
            ctx.count("nontrivial", 1);
            crate::proto::throttle_threads();
            let mref = Zbdd::new_manager(c, 64, 1);
            mref.with_manager_exclusive(|m| {
                m.add_vars(N);
            });
            let info = Zbdd::audit(&mref, &[], true);
            for e in info.errors.iter().take(2) {
                ctx.viol(
                    attrs(&[("kind", "zbdd"), ("op", "add_vars"), ("class", "audit")]),
                    json!({"kind": "zbdd", "op": "add_vars", "node_capacity": c}),
                    &format!("zbdd add_vars at capacity {c}: {e}"),
                );
            }
        });
    }
}

/// DDDMP import into managers of every capacity
fn import_script(ctx: &mut Ctx, kind: &str, binary: bool) {
    let label = format!("dddmp import {}", if binary { "binary" } else { "ascii" });
    let kind = kind.to_string();
    ctx.group(&label, |ctx| match kind.as_str() {
        "bdd" => import_k_bdd(ctx, binary),
        "bcdd" => import_k_bcdd(ctx, binary),
        _ => import_k_zbdd(ctx, binary),
    });
}

macro_rules! import_impl {
    ($fname:ident, $k:ty, $f:ty, $srck:ty) => {
        fn $fname(ctx: &mut Ctx, binary: bool) {
            use oxidd_dump::dddmp;
            type K = $k;
            // export from an ample manager
            // (the exporting manager may be of another kind: a complement-edge dump read into a plain BDD)
            let src = dd::fresh::<$srck>(N, &[0, 1, 2, 3], 4096, 64, 1);
            let fs: Vec<_> = operand_tabs().iter().map(|&t| <$srck as BoolKind>::build(&src, t).unwrap()).collect();
            let cross = <$srck as BoolKind>::NAME != K::NAME;
            let mut file: Vec<u8> = vec![];
            let settings = if binary { dddmp::ExportSettings::default().binary() } else { dddmp::ExportSettings::default().ascii() };
            src.with_manager_shared(|m| {
                settings.export(&mut file, m, fs.iter()).expect("harness: export failed");
            });
            let need = src.with_manager_shared(|m| m.num_inner_nodes()) * if cross { 2 } else { 1 } + if cross { 4 } else { 0 };
            let init = if K::NAME == "zbdd" { N as usize } else { 0 };
            for c in (if K::NAME == "zbdd" { N as usize } else { 0 })..=(need + 3) {
                ctx.count("evaluations", 1);
                crate::proto::throttle_threads();
                let mref = K::new_manager(c, 64, 1);
                mref.with_manager_exclusive(|m| {
                    m.add_vars(N);
                });
                let mut cur = std::io::Cursor::new(&file[..]);
                let header = dddmp::DumpHeader::load(&mut cur).expect("harness: header");
                let support: Vec<u32> = header.support_vars().to_vec();
                let res = mref.with_manager_shared(|m| dddmp::import::<$f>(&mut cur, &header, m, support.iter().copied(), |m, e| <$f as BooleanFunction>::not_edge_owned(m, e)));
                let mut bad: Vec<(String, String)> = vec![];
                let live: Vec<$f> = match res {
                    Ok(v) => {
                        ctx.outcome("import_ok");
                        for (f, t) in v.iter().zip(operand_tabs()) {
                            if K::table(f) != Ok(t) {
                                bad.push(("wrong_result".into(), format!("imported root reads {:x?}, expected {t:#x}", K::table(f))));
                            }
                        }
                        v
                    }
                    Err(_) => {
                        ctx.outcome("import_err");
                        ctx.count("nontrivial", 1);
                        vec![]
                    }
                };
                let refs: Vec<&$f> = live.iter().collect();
                let info = K::audit(&mref, &refs, true);
                for e in info.errors.iter().take(2) {
                    bad.push(("audit".into(), e.clone()));
                }
                drop(refs);
                drop(live);
                let left = mref.with_manager_shared(|m| {
                    m.gc();
                    m.num_inner_nodes()
                });
                if left != init {
                    bad.push(("leak".into(), format!("{left} nodes remain after dropping everything and gc (initial {init})")));
                }
                for (class, msg) in bad {
                    ctx.viol(
                        attrs(&[("kind", K::NAME), ("op", if cross { "import_cross" } else if binary { "import_bin" } else { "import_ascii" }), ("class", &class)]),
                        json!({"kind": K::NAME, "op": "dddmp_import", "binary": binary, "node_capacity": c, "roots": operand_tabs(), "file": String::from_utf8_lossy(&file)}),
                        &format!("{} dddmp import ({}{}) at node capacity {c}: {msg}", K::NAME, if binary { "binary" } else { "ascii" }, if cross { ", file written by a complement-edge manager" } else { "" }),
                    );
                }
            }
        }
    };
}
import_impl!(import_k_bdd, Bdd, oxidd::bdd::BDDFunction, Bdd);
import_impl!(import_k_bcdd, Bcdd, oxidd::bcdd::BCDDFunction, Bcdd);
import_impl!(import_k_zbdd, Zbdd, oxidd::zbdd::ZBDDFunction, Zbdd);
import_impl!(import_x_bdd, Bdd, oxidd::bdd::BDDFunction, Bcdd);

/// MTBDD: inner-node sweep for add/mul and terminal-store sweep
fn mtbdd_script(ctx: &mut Ctx, op: &str) {
    type F = MTBDDFunction<I64>;
    let op = op.to_string();
    if op == "terminals_var" {
        return mtbdd_var_script(ctx);
    }
    if op == "terminals_reuse" {
        return mtbdd_reuse_script(ctx);
    }
    ctx.group(&format!("mtbdd {op}"), |ctx| {
        let ta: Vec<i64> = vec![0, 1, 2, 3, 4, 5, 6, 7];
        let tb0: Vec<i64> = vec![7, 5, 3, 1, 0, 2, 4, 6];
        // the divisor must not contain 0 (the quotient is only pinned down for non-zero divisors here)
        let tb: Vec<i64> = if op == "div" { tb0.iter().map(|b| b + 1).collect() } else { tb0 };
        let fa: Vec<i64> = ta.iter().map(|x| x + 100).collect();
        // third operands: literal cubes for restrict (pos mask, neg mask over the 3 variables; the variable
        // numbering of tables is index bit v = value of variable v), 0-1-valued conditions for ite
        let thirds: Vec<(String, Option<Vec<i64>>)> = match op.as_str() {
            "restrict" => [(4u32, 0u32), (0, 4), (2, 0), (0, 2), (4, 2), (2, 4), (6, 0), (0, 6), (1, 0), (1, 4), (0, 5), (3, 4)]
                .iter()
                .map(|&(p, n)| (format!("+{p:03b}-{n:03b}"), Some((0..8u32).map(|a| ((a & p) == p && (a & n) == 0) as i64).collect())))
                .collect(),
            "ite" => vec![
                ("c=69".into(), Some(vec![0, 1, 1, 0, 1, 0, 0, 1])),
                ("c=x2".into(), Some(vec![0, 0, 0, 0, 1, 1, 1, 1])),
                ("c=x0".into(), Some(vec![0, 1, 0, 1, 0, 1, 0, 1])),
            ],
            _ => vec![("".into(), None)],
        };
        let terminals_swept = op.starts_with("terminals");
        let max = if terminals_swept { 30 } else { 40 };
        for (tname, third) in &thirds {
        let exp: Vec<i64> = match op.as_str() {
            "add" | "terminals_add" => fa.iter().zip(&tb).map(|(a, b)| a + b).collect(),
            "sub" => fa.iter().zip(&tb).map(|(a, b)| a - b).collect(),
            "mul" => fa.iter().zip(&tb).map(|(a, b)| a * b).collect(),
            "div" => fa.iter().zip(&tb).map(|(a, b)| a / b).collect(),
            "min" => fa.iter().zip(&tb).map(|(a, b)| *a.min(b)).collect(),
            "max" => fa.iter().zip(&tb).map(|(a, b)| *a.max(b)).collect(),
            "ite" => {
                let c = third.as_ref().unwrap();
                (0..8).map(|i| if c[i] == 1 { fa[i] } else { tb[i] }).collect()
            }
            "restrict" => {
                // the cube's table is 1 exactly on the assignments that agree with it: the restricted function
                // reads f at the assignment with the cube's variables overwritten
                let c = third.as_ref().unwrap();
                let any = (0..8usize).find(|&i| c[i] == 1).unwrap();
                let fixed: usize = (0..3).filter(|&v| (0..8usize).all(|i| c[i] == 0 || ((i >> v) & 1) == ((any >> v) & 1))).map(|v| 1usize << v).sum();
                (0..8usize).map(|i| fa[(i & !fixed) | (any & fixed)]).collect()
            }
            _ => vec![],
        };
        for c in 0..=max {
            ctx.count("evaluations", 1);
            crate::proto::throttle_threads();
            let (nodes, terms) = if terminals_swept { (256, c) } else { (c, 256) };
            let mref = oxidd::mtbdd::new_manager::<I64>(nodes, terms, 64, 1);
            mref.with_manager_exclusive(|m| {
                m.add_vars(3);
            });
            let mut bad: Vec<(String, String)> = vec![];
            let mut live: Vec<(F, Vec<i64>)> = vec![];
            if op == "terminals_constant" {
                // create constants until the terminal store is full
                let mut k = 0i64;
                loop {
                    match mref.with_manager_shared(|m| F::constant(m, I64::Num(1000 + k))) {
                        Ok(f) => live.push((f, vec![1000 + k; 8])),
                        Err(_) => break,
                    }
                    k += 1;
                    if k > 64 {
                        break;
                    }
                }
                ctx.outcome(&format!("constants_created={}", live.len().min(40)));
                if k <= 64 {
                    ctx.count("nontrivial", 1);
                }
            } else {
                let a = HMtbdd::build(&mref, &fa);
                let b = HMtbdd::build(&mref, &tb);
                let t3 = match third {
                    Some(t) => HMtbdd::build(&mref, t).map(Some),
                    None => Ok(None),
                };
                if let (Ok(a), Ok(b), Ok(t3)) = (a, b, t3) {
                    let r = match op.as_str() {
                        "mul" => a.mul(&b),
                        "sub" => a.sub(&b),
                        "div" => a.div(&b),
                        "min" => PseudoBooleanFunction::min(&a, &b),
                        "max" => PseudoBooleanFunction::max(&a, &b),
                        "ite" => t3.as_ref().unwrap().ite(&a, &b),
                        "restrict" => a.restrict(t3.as_ref().unwrap()),
                        _ => a.add(&b),
                    };
                    live.push((a, fa.clone()));
                    live.push((b, tb.clone()));
                    if let (Some(f3), Some(t)) = (t3, third) {
                        live.push((f3, t.clone()));
                    }
                    match r {
                        Ok(r) => {
                            ctx.outcome("ok");
                            if HMtbdd::table(&r).as_ref() != Ok(&exp) {
                                bad.push(("wrong_result".into(), format!("result {:?}, expected {exp:?}", HMtbdd::table(&r))));
                            }
                            live.push((r, exp.clone()));
                        }
                        Err(_) => {
                            ctx.outcome("oom_in_operation");
                            ctx.count("nontrivial", 1);
                        }
                    }
                } else {
                    ctx.outcome("oom_in_operand_construction");
                }
            }
            let refs: Vec<&F> = live.iter().map(|x| &x.0).collect();
            let info = HMtbdd::audit(&mref, &refs, true);
            for e in info.errors.iter().take(2) {
                bad.push(("audit".into(), e.clone()));
            }
            for (f, t) in &live {
                if HMtbdd::table(f).as_ref() != Ok(t) {
                    bad.push(("handle_changed".into(), format!("handle of {t:?} reads {:?}", HMtbdd::table(f))));
                }
            }
            drop(refs);
            drop(live);
            let (left, leftt) = mref.with_manager_shared(|m| {
                m.gc();
                (m.num_inner_nodes(), m.num_terminals())
            });
            if left != 0 || leftt != 0 {
                bad.push(("leak".into(), format!("{left} inner nodes and {leftt} terminals remain after dropping everything and gc")));
            }
            for (class, msg) in bad {
                ctx.viol(
                    attrs(&[("kind", "mtbdd"), ("op", &op), ("class", &class)]),
                    json!({"kind": "mtbdd", "op": op, "third": tname, "node_capacity": nodes, "terminal_capacity": terms, "a": fa, "b": tb}),
                    &format!("mtbdd {op} {tname} with node capacity {nodes}, terminal capacity {terms}: {msg}"),
                );
            }
        }
        }
    });
}

/// `var()` needs the terminals 1 and 0: every terminal-table capacity 0..=5 x every subset of the
/// constants {0, 1, 7, 9} alive beforehand; whether it fails or not, afterwards the table holds exactly
/// the terminals that are referenced, and nothing at all once everything is dropped.
fn mtbdd_var_script(ctx: &mut Ctx) {
    type F = MTBDDFunction<I64>;
    ctx.group("mtbdd var on a nearly full terminal table", |ctx| {
        let consts = [0i64, 1, 7, 9];
        for cap in 0..=5usize {
            for mask in 0..16u32 {
                ctx.count("evaluations", 1);
                crate::proto::throttle_threads();
                let mref = oxidd::mtbdd::new_manager::<I64>(64, cap, 64, 1);
                mref.with_manager_exclusive(|m| {
                    m.add_vars(2);
                });
                let mut live: Vec<F> = vec![];
                let mut values: Vec<i64> = vec![];
                for (i, &c) in consts.iter().enumerate() {
                    if mask & (1 << i) != 0 {
                        if let Ok(f) = mref.with_manager_shared(|m| F::constant(m, I64::Num(c))) {
                            live.push(f);
                            values.push(c);
                        }
                    }
                }
                let r = mref.with_manager_shared(|m| F::var(m, 1));
                let mut bad: Vec<(String, String)> = vec![];
                let mut expect_terms: std::collections::BTreeSet<i64> = values.iter().copied().collect();
                match &r {
                    Ok(f) => {
                        ctx.outcome("var_ok");
                        if HMtbdd::table(f).as_ref() != Ok(&vec![0, 0, 1, 1]) {
                            bad.push(("wrong_result".into(), format!("var(1) reads {:?}", HMtbdd::table(f))));
                        }
                        expect_terms.insert(0);
                        expect_terms.insert(1);
                    }
                    Err(_) => {
                        ctx.outcome("var_oom");
                        ctx.count("nontrivial", 1);
                    }
                }
                let (nt, ni) = mref.with_manager_shared(|m| {
                    m.gc();
                    (m.num_terminals(), m.num_inner_nodes())
                });
                if nt != expect_terms.len() || ni != r.is_ok() as usize {
                    bad.push(("leak".into(), format!("after var(1) {} and gc: {nt} terminals and {ni} inner nodes are stored, referenced are the terminals {expect_terms:?} and {} inner node(s)", if r.is_ok() { "succeeded" } else { "failed with OutOfMemory" }, r.is_ok() as usize)));
                }
                {
                    let mut refs: Vec<&F> = live.iter().collect();
                    if let Ok(f) = &r {
                        refs.push(f);
                    }
                    let info = HMtbdd::audit(&mref, &refs, true);
                    for e in info.errors.iter().take(2) {
                        bad.push(("audit".into(), e.clone()));
                    }
                }
                drop(r);
                drop(live);
                let (leftt, left) = mref.with_manager_shared(|m| {
                    m.gc();
                    (m.num_terminals(), m.num_inner_nodes())
                });
                if left != 0 || leftt != 0 {
                    bad.push(("leak".into(), format!("{left} inner nodes and {leftt} terminals remain after dropping everything and gc")));
                }
                for (class, msg) in bad {
                    ctx.viol(
                        attrs(&[("kind", "mtbdd"), ("op", "terminals_var"), ("class", &class)]),
                        json!({"kind": "mtbdd", "op": "var", "terminal_capacity": cap, "constants_alive": values}),
                        &format!("mtbdd var(1) with terminal capacity {cap} and the constants {values:?} alive: {msg}"),
                    );
                }
            }
        }
    });
}

/// A constant result dies, new constants are requested until the terminal table reports OutOfMemory, then the
/// operation is repeated: every terminal capacity 2..=8 x 0..=3 extra constants kept alive. Whatever failed, the
/// repeated operation returns the right constant (or OutOfMemory), and after drop + gc it succeeds.
fn mtbdd_reuse_script(ctx: &mut Ctx) {
    type F = MTBDDFunction<I64>;
    ctx.group("mtbdd: constant result dies, terminal table fills up, same operation again", |ctx| {
        for cap in 2..=8usize {
            for keep in 0..=3usize {
                ctx.count("evaluations", 1);
                crate::proto::throttle_threads();
                let mref = oxidd::mtbdd::new_manager::<I64>(64, cap, 64, 1);
                mref.with_manager_exclusive(|m| {
                    m.add_vars(1);
                });
                let mut bad: Vec<(String, String)> = vec![];
                let f = HMtbdd::build(&mref, &[1, 2]);
                let g = HMtbdd::build(&mref, &[2, 1]);
                let (Ok(f), Ok(g)) = (f, g) else {
                    ctx.outcome("oom_in_operand_construction");
                    continue;
                };
                let kept: Vec<F> = (0..keep).filter_map(|i| mref.with_manager_shared(|m| F::constant(m, I64::Num(100 + i as i64)).ok())).collect();
                let check3 = |r: &oxidd_core::util::AllocResult<F>, when: &str, bad: &mut Vec<(String, String)>| match r {
                    Ok(h) => {
                        if HMtbdd::table(h).as_ref() != Ok(&vec![3, 3]) {
                            bad.push(("wrong_result".into(), format!("{when}: f + g = {:?}, expected the constant 3", HMtbdd::table(h))));
                        }
                    }
                    Err(_) => {}
                };
                let s1 = f.add(&g);
                check3(&s1, "first computation", &mut bad);
                let first_ok = s1.is_ok();
                drop(s1);
                // fresh constants until the table is full (none of them is kept)
                let mut ooms = 0;
                for k in 0..10i64 {
                    match mref.with_manager_shared(|m| F::constant(m, I64::Num(5 + k))) {
                        Ok(c) => {
                            if HMtbdd::table(&c).as_ref() != Ok(&vec![5 + k, 5 + k]) {
                                bad.push(("wrong_result".into(), format!("constant({}) reads {:?}", 5 + k, HMtbdd::table(&c))));
                            }
                        }
                        Err(_) => ooms += 1,
                    }
                }
                if ooms > 0 {
                    ctx.count("nontrivial", 1);
                }
                ctx.outcome(&format!("constants_failed={}", ooms.min(10)));
                let s2 = f.add(&g);
                check3(&s2, "after the terminal table filled up", &mut bad);
                drop(s2);
                mref.with_manager_shared(|m| m.gc());
                let s3 = f.add(&g);
                check3(&s3, "after gc", &mut bad);
                if first_ok && s3.is_err() {
                    bad.push(("retry_fails".into(), "f + g fails after drop + gc although it succeeded on the same manager before".into()));
                }
                {
                    let mut refs: Vec<&F> = vec![&f, &g];
                    refs.extend(kept.iter());
                    if let Ok(h) = &s3 {
                        refs.push(h);
                    }
                    let info = HMtbdd::audit(&mref, &refs, true);
                    for e in info.errors.iter().take(2) {
                        bad.push(("audit".into(), e.clone()));
                    }
                }
                drop((s3, f, g, kept));
                let (left, leftt) = mref.with_manager_shared(|m| {
                    m.gc();
                    (m.num_inner_nodes(), m.num_terminals())
                });
                if left != 0 || leftt != 0 {
                    bad.push(("leak".into(), format!("{left} inner nodes and {leftt} terminals remain after dropping everything and gc")));
                }
                for (class, msg) in bad {
                    ctx.viol(
                        attrs(&[("kind", "mtbdd"), ("op", "terminals_reuse"), ("class", &class)]),
                        json!({"kind": "mtbdd", "op": "f + g, constants, f + g", "terminal_capacity": cap, "constants_kept_alive": keep}),
                        &format!("mtbdd f + g (f = x0 + 1, g = 2 - x0) with terminal capacity {cap} and {keep} other constants alive: {msg}"),
                    );
                }
            }
        }
    });
}
