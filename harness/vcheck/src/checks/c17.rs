//! C17 — the unique-table hash set (`linear_hashtbl::raw::RawTable`) behaves as a set.
//!
//! E-STATE: explicit-state breadth-first search over the *real* `RawTable<u16, u32>`.
//! A state is the concrete table (it is `Clone`) plus a `BTreeSet<u16>` reference model.
//! States are de-duplicated exactly on the canonical form of the concrete state that the
//! `verif_dump()` hook exposes (slot count, per slot FREE / TOMBSTONE / stored key, `len`,
//! `free`); tombstones and the `free` counter are invisible through the public API but decide
//! the future behaviour (probe lengths, rehash points), hence the hook
//! (`/verif/hooks/c17_linear_hashtbl_dump.patch`, `#[cfg(oxidd_verif)]`, additive, read-only).
//! Every transition calls the real method; nothing is ever written into the table except
//! through the public API.
//!
//! Shard = `k<keys>:h<hash assignment>:p<prefill>:d<depth|inf>:<first-operation class>`; one group
//! per shard. The search of a group starts from the table obtained by inserting the keys
//! `0..prefill` (through the real API), applies only the operations of the shard's first-operation
//! class to that seed state, and from then on the whole alphabet, until no new state appears
//! (fixed point, `dinf`), the depth bound is reached, or the per-group memory cap (`STATE_CAP`
//! states) is hit (reported as `state_cap_hit`, never as a fixed point). De-duplication is per group.
//!
//! quick: 6 keys x 4 hash assignments x 4 first-operation classes, fixed point (16 shards).
//! thorough: + 7 and 8 keys (one group per hash assignment), + 14 keys depth-bounded from the seeds
//! p = 0, 11, 12, 13 with one shard per first operation.
//!
//! Requires the hook `/verif/hooks/c17_linear_hashtbl_dump.patch` to be applied to /repo.

use std::cell::{Cell, RefCell};
use std::collections::{BTreeMap, BTreeSet, VecDeque};
use std::panic::{AssertUnwindSafe, catch_unwind};

use linear_hashtbl::raw::{RawTable, Status, VerifSlot};
use serde_json::{Value, json};

use crate::driver::Meta;
use crate::proto::{Ctx, attrs, short_site, take_panic};

type Tbl = RawTable<u16, u32>;

pub fn meta() -> Meta {
    Meta {
        level: "model_checking",
        rule: "explicit-state BFS over the real RawTable<u16,u32> with exact de-duplication on the hook's concrete state (slot array with FREE/TOMBSTONE/key per slot, len, free). Alphabet: insert(k) via find_or_find_insert_slot+insert_in_slot_unchecked, remove(k) via remove_entry, retain(even|<3|none|all|!=1|not in {1,4}), drain (fully consumed), drain (one element taken, then dropped), clear, clear_no_drop, reset_no_drop, reserve(0|8|20), clone (continue on the clone); into_iter (fully and partially consumed) is evaluated as a terminal operation in every state. Hash assignments: h0 all keys hash to 0; h1 hashes (k+1)<<6 differ only above the 16/32/64-slot masks; h2 cluster at the end of the array (61,62,63,63,127,127,.. = indices 13,14,15,15,.. / 29,30,31,31,.. / 61,62,63,63,..) forcing wrap-around at every table size; h3 identity; h4 home slots 3,4,3,4,5,5,3,4 (several keys per slot on adjacent slots: interleaved collision lists). quick: a sliding-window configuration (16 keys with the identity hash, at most 2 stored at a time, insert/remove/reserve(0) only, to the fixed point: tombstones spread over the whole 16-slot array of a nearly empty table; states de-duplicated modulo the 16 rotations of the slot array, which the probing scheme (hash + i) & mask cannot distinguish); 6 keys, from the empty table, to the fixed point (no unexplored state left), 5 hash assignments x 4 first-operation classes. thorough: the same, plus 7 and 8 keys from the empty table to the fixed point or to the per-group memory cap of 13 million states (then outcome state_cap_hit and counter groups_state_cap_hit_complete_to_depth_<d>: breadth-first, so every state of depth < d was expanded completely; reported, never called a fixed point), plus 14 keys depth-bounded from the seed tables holding keys 0..p (p = 0: 7 operations; p = 12, 13: 7 operations; p = 11: 6 operations; the seeds sit just below / at / above the 16->32 growth point) so that growth by insertion, shrink-back by retain and the tombstone patterns around them are enumerated, one shard per first operation. Work is partitioned by (universe, hash assignment, seed, class of the first operation); each shard is one group and de-duplicates on its own, so 'states' is the sum over groups of the states distinct within the group (different groups revisit states); outcomes fixpoint_reached / depth_bound_reached / state_cap_hit count groups. transitions = real method calls sequences (one per explored edge) = executions (every explored edge extends a trace that was executed on the real table). A transition is non-trivial when the concrete successor state differs from its predecessor. In every state: find/get/get_mut for every key of the universe vs. the BTreeSet model with a probe bound (eq calls <= len; no lookup is issued in a state without a FREE slot, which is reported instead), len/is_empty, iter/iter_mut/into_iter report every element exactly once (ExactSize len, fused), stored status = from_hash(hash), is_slot_occupied_unchecked = hook view, free counter = number of FREE slots, len + tombstones + free = slots, FREE slots >= 25 % of the slots (RATIO_N/RATIO_D 'spare slots', 'find may diverge' assertion) and len <= capacity(). Per operation: return values, retain's predicate/drop call discipline, drain yields every element exactly once, clear/clear_no_drop/drain keep slots(), reset_no_drop gives capacity 0, reserve(n) is followed by n rehash-free insertions (no stored element moves, slots() unchanged), clone has an identical dump. The library's own debug assertions are on; a panic in any call is a violation.",
        assumptions: vec![
            "keys are u16 (no Drop); double drops are therefore detected only through retain's drop callback and the exactly-once checks of the iterators, not through a drop counter".into(),
            "the concrete state is read through the additive read-only hook RawTable::verif_dump (cfg(oxidd_verif)); every mutation goes through the public API".into(),
            "unsafe API preconditions are established as documented (slot indices come from find/find_or_find_insert_slot with no modification in between) and are re-validated against the dump before the unsafe call; a call whose precondition the library itself broke is reported and not executed".into(),
            "state-invariant violations are attributed to the operation that introduced them (a violation class already present in the predecessor state is not reported again); states with a corrupted slot array or without any FREE slot are reported and not expanded".into(),
            "the 'long random sequences' of the property's quantifier are replaced by the fixed-point enumeration (every reachable state of the small universes) and the seeded depth-bounded enumeration; Drain leaked with mem::forget is documented as unsupported and is not exercised".into(),
        ],
        hang_is_violation: true,
        shard_timeout: (300, 2400),
    }
}

// ---------------------------------------------------------------------------------------------
// configuration / shards

#[derive(Clone, Copy, PartialEq, Eq, Debug)]
enum Op {
    Insert(u16),
    Remove(u16),
    Retain(u8),
    Drain,
    DrainPartial,
    Clear,
    ClearNoDrop,
    ResetNoDrop,
    Reserve(usize),
    CloneOp,
}

impl Op {
    fn name(self) -> &'static str {
        match self {
            Op::Insert(_) => "insert",
            Op::Remove(_) => "remove",
            Op::Retain(_) => "retain",
            Op::Drain => "drain",
            Op::DrainPartial => "drain_partial",
            Op::Clear => "clear",
            Op::ClearNoDrop => "clear_no_drop",
            Op::ResetNoDrop => "reset_no_drop",
            Op::Reserve(_) => "reserve",
            Op::CloneOp => "clone",
        }
    }
    fn label(self) -> String {
        match self {
            Op::Insert(k) => format!("insert({k})"),
            Op::Remove(k) => format!("remove({k})"),
            Op::Retain(p) => format!("retain({})", PRED_NAMES[p as usize]),
            Op::Reserve(n) => format!("reserve({n})"),
            o => o.name().to_string(),
        }
    }
}

const PRED_NAMES: [&str; 6] = ["even", "lt3", "none", "all", "ne1", "ne1_ne4"];
fn pred(p: u8, k: u16) -> bool {
    match p {
        0 => k % 2 == 0,
        1 => k < 3,
        2 => false,
        3 => true,
        // (remove one or two keys and keep the rest: the table stays above the shrink threshold)
        4 => k != 1,
        _ => k != 1 && k != 4,
    }
}

const HASH_NAMES: [&str; 5] = ["h0:all-collide", "h1:differ-only-above-mask", "h2:wrap-around-cluster", "h3:identity", "h4:interleaved-collision-lists"];
fn hash_of(h: u8, k: u16) -> u64 {
    match h {
        0 => 0,
        1 => (k as u64 + 1) << 6,
        2 => match k {
            0 => 61,
            1 => 62,
            _ => 63 + 64 * ((k as u64 - 2) / 2),
        },
        // adjacent home slots shared by several keys each: the collision lists of slots 3, 4 and 5 interleave
        4 => [3u64, 4, 3, 4, 5, 5, 3, 4][k as usize % 8] + 64 * (k as u64 / 8),
        _ => k as u64,
    }
}

#[derive(Clone, Debug)]
struct Cfg {
    nkeys: u16,
    hash: u8,
    prefill: u16,
    depth: Option<u32>,
    first: String,
    /// `w<nkeys>` shards: only insert / remove / reserve(0), insertions disabled while this many keys
    /// are stored (a sliding window over many keys: tombstones spread over the whole array)
    window: Option<usize>,
}

fn alphabet(nkeys: u16) -> Vec<Op> {
    let mut v = vec![];
    for k in 0..nkeys {
        v.push(Op::Insert(k));
    }
    for k in 0..nkeys {
        v.push(Op::Remove(k));
    }
    for p in 0..PRED_NAMES.len() as u8 {
        v.push(Op::Retain(p));
    }
    v.extend([Op::Drain, Op::DrainPartial, Op::Clear, Op::ClearNoDrop, Op::ResetNoDrop]);
    v.extend([Op::Reserve(0), Op::Reserve(8), Op::Reserve(20), Op::CloneOp]);
    v
}

/// First-operation classes of a (nkeys, prefill) configuration: a partition of the alphabet.
/// `fine`: one class per insert/remove key; otherwise the insertions are split in two halves.
fn first_classes(nkeys: u16, prefill: u16, fine: bool) -> Vec<String> {
    let mut v = vec![];
    if fine {
        for k in 0..nkeys {
            v.push(format!("ins{k}"));
        }
        if prefill > 0 {
            for k in 0..nkeys {
                v.push(format!("rem{k}"));
            }
        }
        v.push("res8".into());
        v.push("res20".into());
    } else {
        let half = nkeys / 2;
        v.push(format!("ins0-{}", half - 1));
        v.push(format!("ins{half}-{}", nkeys - 1));
        if prefill > 0 {
            v.push(format!("rem0-{}", nkeys - 1));
        }
        v.push("res".into());
    }
    v.push("other".into());
    v
}

fn first_ops(cfg: &Cfg) -> Vec<Op> {
    let all = alphabet(cfg.nkeys);
    let f = cfg.first.as_str();
    let range = |r: &str| -> (u16, u16) {
        match r.split_once('-') {
            Some((a, b)) => (a.parse().unwrap(), b.parse().unwrap()),
            None => (r.parse().unwrap(), r.parse().unwrap()),
        }
    };
    if let Some(r) = f.strip_prefix("ins") {
        let (a, b) = range(r);
        return (a..=b).map(Op::Insert).collect();
    }
    if let Some(r) = f.strip_prefix("rem") {
        let (a, b) = range(r);
        return (a..=b).map(Op::Remove).collect();
    }
    match f {
        "all" => all,
        "res8" => vec![Op::Reserve(8)],
        "res20" => vec![Op::Reserve(20)],
        "res" => vec![Op::Reserve(8), Op::Reserve(20)],
        // everything that is neither an insertion nor reserve(8|20); removals only if no
        // rem* class exists (empty seed)
        "other" => all
            .into_iter()
            .filter(|o| match o {
                Op::Insert(_) | Op::Reserve(8) | Op::Reserve(20) => false,
                Op::Remove(_) => cfg.prefill == 0,
                _ => true,
            })
            .collect(),
        _ => panic!("bad first-operation class {f}"),
    }
}

pub fn shards(tier: &str) -> Vec<String> {
    let mut v = vec![];
    if tier == "thorough" {
        // the long fixed-point searches first (one group each; a fixed point cannot be split)
        for k in [8, 7] {
            for h in 0..5 {
                v.push(format!("k{k}:h{h}:p0:dinf:all"));
            }
        }
    }
    // sliding window: 16 keys with the identity hash (one per slot of the smallest table), at most 2 keys
    // stored at any time, insert / remove / reserve(0) only, to the fixed point: tombstones can cover
    // the whole array while the table stays nearly empty
    v.push("w16:h3:p0:dinf:all".into());
    // 6 keys, fixed point, every hash assignment (quick and thorough)
    for h in 0..5 {
        for f in first_classes(6, 0, false) {
            v.push(format!("k6:h{h}:p0:dinf:{f}"));
        }
    }
    if tier == "thorough" {
        let mut block = |nkeys: u16, prefill: u16, depth: u32| {
            for h in 0..5 {
                for f in first_classes(nkeys, prefill, true) {
                    v.push(format!("k{nkeys}:h{h}:p{prefill}:d{depth}:{f}"));
                }
            }
        };
        block(14, 12, D14_SEEDED);
        block(14, 13, D14_SEEDED);
        block(14, 0, D14_P0);
        block(14, 11, D14_P11);
    }
    v
}

/// depth bounds (number of operations after the seed state) of the depth-bounded blocks
const D14_P0: u32 = 7;
const D14_SEEDED: u32 = 7;
const D14_P11: u32 = 6;

fn parse_shard(s: &str) -> Cfg {
    let p: Vec<&str> = s.split(':').collect();
    assert!(p.len() == 5, "bad shard {s}");
    Cfg {
        window: if p[0].starts_with('w') { Some(2) } else { None },
        nkeys: p[0][1..].parse().unwrap(),
        hash: p[1][1..].parse().unwrap(),
        prefill: p[2][1..].parse().unwrap(),
        depth: if &p[3][1..] == "inf" { None } else { Some(p[3][1..].parse().unwrap()) },
        first: p[4].to_string(),
    }
}

pub fn run(ctx: &mut Ctx) {
    let cfg = parse_shard(&ctx.shard.clone());
    let label = ctx.shard.clone();
    ctx.group(&label, |ctx| explore(ctx, &cfg));
}

// ---------------------------------------------------------------------------------------------
// concrete state (hook view)

const C_FREE: u8 = 0;
const C_TOMB: u8 = 1;
const C_KEY0: u8 = 2;
const C_INVALID: u8 = 255;
const C_FOREIGN: u8 = 254;

#[derive(Clone, PartialEq, Eq, Debug, Default)]
struct Dump {
    codes: Vec<u8>,
    len: usize,
    free: usize,
    n_free: usize,
    n_tomb: usize,
    n_hash: usize,
    /// (slot, stored status, key) of the first slot whose stored status is not from_hash(hash(key))
    bad_status: Option<(usize, usize, u16)>,
}

fn dump(t: &Tbl, cfg: &Cfg) -> Dump {
    let mut d = Dump { codes: Vec::with_capacity(t.slots()), len: 0, free: 0, n_free: 0, n_tomb: 0, n_hash: 0, bad_status: None };
    dump_into(t, cfg, &mut d);
    d
}

/// hook view of `t`, written into a reusable buffer
fn dump_into(t: &Tbl, cfg: &Cfg, d: &mut Dump) {
    let codes = &mut d.codes;
    codes.clear();
    let (mut n_free, mut n_tomb, mut n_hash) = (0, 0, 0);
    let mut bad_status = None;
    let (len, free) = t.verif_dump(|i, s| match s {
        VerifSlot::Free => {
            n_free += 1;
            codes.push(C_FREE)
        }
        VerifSlot::Tombstone => {
            n_tomb += 1;
            codes.push(C_TOMB)
        }
        VerifSlot::Hash(st, &k) => {
            n_hash += 1;
            if k >= cfg.nkeys {
                codes.push(C_FOREIGN);
            } else {
                codes.push(C_KEY0 + k as u8);
                let want = <u32 as Status>::from_hash(hash_of(cfg.hash, k)).hash_as_usize();
                if st != want && bad_status.is_none() {
                    bad_status = Some((i, st, k));
                }
            }
        }
        VerifSlot::Invalid => codes.push(C_INVALID),
    });
    d.len = len;
    d.free = free;
    d.n_free = n_free;
    d.n_tomb = n_tomb;
    d.n_hash = n_hash;
    d.bad_status = bad_status;
}

thread_local! {
    /// sliding-window configuration: 16 keys, identity hash, 16 slots. The table's algorithms only use
    /// (hash + i) & mask, so rotating the slot array by r and renaming key k to (k + r) mod 16 maps
    /// every behaviour to a behaviour; states are de-duplicated modulo these 16 rotations.
    static ROTSYM: std::cell::Cell<bool> = const { std::cell::Cell::new(false) };
}

impl Dump {
    /// exact canonical form of the concrete state (trailing FREE slots are implied by the slot count)
    fn canon_into(&self, v: &mut Vec<u8>) {
        if ROTSYM.with(|c| c.get()) && self.codes.len() == 16 {
            let rot = |r: usize| -> [u8; 16] {
                let mut out = [C_FREE; 16];
                for (i, &c) in self.codes.iter().enumerate() {
                    out[(i + r) % 16] = if c >= C_KEY0 && c < C_KEY0 + 16 { C_KEY0 + ((c - C_KEY0) as usize + r) as u8 % 16 } else { c };
                }
                out
            };
            let best = (0..16).map(rot).min().unwrap();
            v.clear();
            v.extend_from_slice(&16u32.to_le_bytes());
            v.extend_from_slice(&(self.len.min(0xffff) as u16).to_le_bytes());
            v.extend_from_slice(&(self.free.min(0xffff_ffff) as u32).to_le_bytes());
            v.extend_from_slice(&best);
            return;
        }
        let mut n = self.codes.len();
        while n > 0 && self.codes[n - 1] == C_FREE {
            n -= 1;
        }
        v.clear();
        v.extend_from_slice(&(self.codes.len() as u32).to_le_bytes());
        v.extend_from_slice(&(self.len.min(0xffff) as u16).to_le_bytes());
        v.extend_from_slice(&(self.free.min(0xffff_ffff) as u32).to_le_bytes());
        v.extend_from_slice(&self.codes[..n]);
    }
    fn canon(&self) -> Box<[u8]> {
        let mut v = vec![];
        self.canon_into(&mut v);
        v.into_boxed_slice()
    }
    fn pretty(&self) -> String {
        let mut s = format!("slots={} len={} free={} [", self.codes.len(), self.len, self.free);
        let mut n = self.codes.len();
        while n > 0 && self.codes[n - 1] == C_FREE {
            n -= 1;
        }
        for (i, &c) in self.codes[..n].iter().enumerate() {
            if i > 0 {
                s.push(' ');
            }
            match c {
                C_FREE => s.push('.'),
                C_TOMB => s.push('T'),
                C_INVALID => s.push_str("INVALID"),
                C_FOREIGN => s.push_str("FOREIGN"),
                c => s.push_str(&format!("k{}", c - C_KEY0)),
            }
        }
        if n < self.codes.len() {
            s.push_str(&format!("{}. x{}", if n > 0 { " " } else { "" }, self.codes.len() - n));
        }
        s.push(']');
        s
    }
    fn keys(&self) -> Vec<u16> {
        self.codes.iter().filter(|&&c| c >= C_KEY0 && c < C_FOREIGN).map(|&c| (c - C_KEY0) as u16).collect()
    }
    fn disc(&self) -> i64 {
        self.free as i64 - self.n_free as i64
    }
    fn spare_ok(&self) -> bool {
        self.codes.is_empty() || self.n_free >= self.codes.len() / 4
    }
}

// ---------------------------------------------------------------------------------------------
// findings

struct Finding {
    class: &'static str,
    msg: String,
}
fn f(class: &'static str, msg: String) -> Finding {
    Finding { class, msg }
}

const PROBE_PANIC: &str = "C17 probe bound exceeded";

/// eq closure with probe bound and "only called for present entries" check
struct EqWatch {
    /// membership bit mask of the model (bit k = key k is in the BTreeSet), computed from the model
    mask: u32,
    len: usize,
    calls: Cell<usize>,
    foreign: Cell<Option<u16>>,
}
impl EqWatch {
    fn new(model: &BTreeSet<u16>) -> Self {
        let mut mask = 0u32;
        for &k in model {
            mask |= 1 << k;
        }
        EqWatch { mask, len: model.len(), calls: Cell::new(0), foreign: Cell::new(None) }
    }
    /// start counting a new probe sequence
    fn restart(&self) {
        self.calls.set(0);
    }
    fn eq(&self, x: &u16, k: u16) -> bool {
        self.calls.set(self.calls.get() + 1);
        // a terminating probe visits every slot at most once, hence at most `len` stored entries
        if self.calls.get() > self.len {
            panic!("{PROBE_PANIC}");
        }
        if *x >= 32 || self.mask & (1 << *x) == 0 {
            self.foreign.set(Some(*x));
        }
        *x == k
    }
}

/// Invariants of one state. `t` is not modified (get_mut/iter_mut only read through the references).
fn check_state(cfg: &Cfg, t: &mut Tbl, model: &BTreeSet<u16>, d: &Dump, oc: &mut Oc) -> (Vec<Finding>, bool) {
    let mut out = vec![];
    let mut fatal = false;
    let slots = d.codes.len();
    // --- structure (hook view)
    if t.slots() != slots {
        out.push(f("slots_mismatch", format!("slots() = {} but the slot array has {slots} entries", t.slots())));
    }
    if slots != 0 && !slots.is_power_of_two() {
        out.push(f("slots_not_pow2", format!("{slots} slots")));
        fatal = true;
    }
    if d.codes.iter().any(|&c| c == C_INVALID || c == C_FOREIGN) {
        out.push(f("corrupt_slot", "a slot holds an invalid status or a key that was never inserted".into()));
        fatal = true;
    }
    if let Some((i, st, k)) = d.bad_status {
        out.push(f("stored_hash_wrong", format!("slot {i} holds key {k} with status {st:#x}, expected from_hash({:#x})", hash_of(cfg.hash, k))));
        fatal = true;
    }
    let mut stored = d.keys();
    stored.sort();
    let want: Vec<u16> = model.iter().copied().collect();
    if stored != want {
        out.push(f("content_mismatch", format!("stored keys {stored:?}, model {want:?}")));
        fatal = true;
    }
    if d.len != d.n_hash || t.len() != d.len {
        out.push(f("len_mismatch", format!("len counter {} (len() = {}), occupied slots {}", d.len, t.len(), d.n_hash)));
        fatal = true;
    }
    if t.len() != model.len() {
        out.push(f("len_wrong", format!("len() = {}, model has {}", t.len(), model.len())));
    }
    if t.is_empty() != model.is_empty() {
        out.push(f("is_empty_wrong", format!("is_empty() = {}, model has {}", t.is_empty(), model.len())));
    }
    if t.capacity() != slots / 4 * 3 {
        out.push(f("capacity_wrong", format!("capacity() = {} with {slots} slots", t.capacity())));
    }
    // free accounting and load factor are reported by the caller relative to the predecessor state
    if slots != 0 && d.n_free == 0 {
        // no probe for an absent key can terminate; never issue one
        fatal = true;
    }
    for i in 0..slots {
        // SAFETY: i < slots()
        let occ = unsafe { t.is_slot_occupied_unchecked(i) };
        if occ != (d.codes[i] >= C_KEY0) {
            out.push(f("occupied_view_mismatch", format!("is_slot_occupied_unchecked({i}) = {occ}, hook says code {}", d.codes[i])));
            fatal = true;
        }
    }
    if fatal {
        return (out, true);
    }
    let mask = slots.wrapping_sub(1);
    // --- lookups for the whole universe
    let w = EqWatch::new(model);
    for k in 0..cfg.nkeys {
        let h = hash_of(cfg.hash, k);
        let present = model.contains(&k);
        w.restart();
        let r = t.find(h, |x| w.eq(x, k));
        match r {
            Some(i) if present => {
                if i >= slots || d.codes[i] != C_KEY0 + k as u8 {
                    out.push(f("find_wrong_slot", format!("find({k}) = Some({i}) but that slot does not hold {k}")));
                } else {
                    // SAFETY: slot i is occupied (checked against the dump just above)
                    let g = unsafe { *t.get_at_slot_unchecked(i) };
                    let gm = unsafe { *t.get_at_slot_unchecked_mut(i) };
                    if g != k || gm != k {
                        out.push(f("get_at_slot_wrong", format!("get_at_slot_unchecked({i}) = {g}/{gm}, expected {k}")));
                    }
                    if i < (h as usize & mask) {
                        oc.hit("find_wraps_around");
                    }
                }
            }
            None if !present => {}
            Some(i) => out.push(f("find_false_positive", format!("find({k}) = Some({i}) but {k} is not in the set"))),
            None => out.push(f("find_false_negative", format!("find({k}) = None but {k} is in the set"))),
        }
        w.restart();
        let g = t.get(h, |x| w.eq(x, k)).copied();
        if g != present.then_some(k) {
            out.push(f("get_wrong", format!("get({k}) = {g:?}, expected {:?}", present.then_some(k))));
        }
        w.restart();
        let g = t.get_mut(h, |x| w.eq(x, k)).map(|x| *x);
        if g != present.then_some(k) {
            out.push(f("get_mut_wrong", format!("get_mut({k}) = {g:?}, expected {:?}", present.then_some(k))));
        }
    }
    if let Some(x) = w.foreign.get() {
        out.push(f("eq_on_absent_entry", format!("find/get/get_mut: eq called with {x} which is not in the table")));
    }
    // --- iterators
    {
        let mut it = t.iter();
        let n = it.len();
        let mut got: Vec<u16> = it.by_ref().copied().collect();
        let fused = it.next().is_none() && it.len() == 0;
        got.sort();
        if n != want.len() || got != want || !fused {
            out.push(f("iter_wrong", format!("iter(): len {n}, items {got:?}, exhausted-stays-None {fused}; model {want:?}")));
        }
    }
    {
        let mut it = t.iter_mut();
        let n = it.len();
        let mut got: Vec<u16> = it.by_ref().map(|x| *x).collect();
        let fused = it.next().is_none() && it.len() == 0;
        got.sort();
        if n != want.len() || got != want || !fused {
            out.push(f("iter_mut_wrong", format!("iter_mut(): len {n}, items {got:?}, exhausted-stays-None {fused}; model {want:?}")));
        }
    }
    {
        // terminal operation: into_iter, fully consumed
        let mut it = t.clone().into_iter();
        let n = it.len();
        let mut got: Vec<u16> = it.by_ref().collect();
        let fused = it.next().is_none() && it.len() == 0;
        got.sort();
        if n != want.len() || got != want || !fused {
            out.push(f("into_iter_wrong", format!("into_iter(): len {n}, items {got:?}, exhausted-stays-None {fused}; model {want:?}")));
        }
        // terminal operation: into_iter, one element taken, rest dropped
        let mut it = t.clone().into_iter();
        let first = it.next();
        if first.is_some() != !want.is_empty() || first.is_some_and(|x| !model.contains(&x)) || it.len() != want.len().saturating_sub(1) {
            out.push(f("into_iter_wrong", format!("into_iter() partially consumed: first {first:?}, remaining {}; model {want:?}", it.len())));
        }
        drop(it);
    }
    (out, false)
}

/// local outcome counters (flushed into ctx at the end of the group)
#[derive(Default)]
struct Oc(BTreeMap<&'static str, u64>);
impl Oc {
    fn hit(&mut self, k: &'static str) {
        *self.0.entry(k).or_insert(0) += 1;
    }
}

/// hook view of one slot
fn slot_code(t: &Tbl, cfg: &Cfg, idx: usize) -> u8 {
    let mut c = C_INVALID;
    t.verif_dump(|i, s| {
        if i == idx {
            c = match s {
                VerifSlot::Free => C_FREE,
                VerifSlot::Tombstone => C_TOMB,
                VerifSlot::Hash(_, &k) if k < cfg.nkeys => C_KEY0 + k as u8,
                VerifSlot::Hash(..) => C_FOREIGN,
                VerifSlot::Invalid => C_INVALID,
            }
        }
    });
    c
}

/// Apply one operation to the real table and to the model; check everything the call returns.
/// On return `after` holds the hook view of the resulting table.
fn apply(cfg: &Cfg, t: &mut Tbl, model: &mut BTreeSet<u16>, op: Op, before: &Dump, after: &mut Dump, oc: &mut Oc) -> Vec<Finding> {
    let mut out = vec![];
    match op {
        Op::Insert(k) => {
            let h = hash_of(cfg.hash, k);
            let present = model.contains(&k);
            let w = EqWatch::new(model);
            let r = t.find_or_find_insert_slot(h, |x| w.eq(x, k));
            if let Some(x) = w.foreign.get() {
                out.push(f("eq_on_absent_entry", format!("find_or_find_insert_slot({k}): eq called with {x} which is not in the table")));
            }
            let slots = t.slots();
            if slots > before.codes.len() {
                oc.hit(if before.codes.is_empty() { "insert_allocates" } else { "insert_grows_table" });
            } else if slots < before.codes.len() {
                oc.hit("insert_shrinks_table");
            }
            match r {
                Ok(i) if present => {
                    oc.hit("insert_already_present");
                    if i >= slots || slot_code(t, cfg, i) != C_KEY0 + k as u8 {
                        out.push(f("find_wrong_slot", format!("find_or_find_insert_slot({k}) = Ok({i}) but that slot does not hold {k}")));
                    }
                }
                Ok(i) => out.push(f("find_false_positive", format!("find_or_find_insert_slot({k}) = Ok({i}) but {k} is not in the set"))),
                Err(i) if present => out.push(f("find_false_negative", format!("find_or_find_insert_slot({k}) = Err({i}) but {k} is in the set"))),
                Err(i) => {
                    let code = if i < slots { slot_code(t, cfg, i) } else { C_INVALID };
                    if code != C_FREE && code != C_TOMB {
                        // the documented precondition of insert_in_slot_unchecked would be violated
                        out.push(f("insert_slot_not_empty", format!("find_or_find_insert_slot({k}) = Err({i}) which is not an empty slot of the {slots} slots")));
                    } else {
                        oc.hit(if code == C_TOMB { "insert_reuses_tombstone" } else { "insert_into_free_slot" });
                        if i < (h as usize & (slots - 1)) {
                            oc.hit("insert_wraps_around");
                        }
                        // SAFETY: i was returned in the Err case, no modification in between
                        let r = unsafe { t.insert_in_slot_unchecked(h, i, k) };
                        if *r != k {
                            out.push(f("insert_returns_wrong_ref", format!("insert_in_slot_unchecked returned a reference to {}", *r)));
                        }
                        model.insert(k);
                    }
                }
            }
            dump_into(t, cfg, after);
        }
        Op::Remove(k) => {
            let h = hash_of(cfg.hash, k);
            let present = model.contains(&k);
            let w = EqWatch::new(model);
            let r = t.remove_entry(h, |x| w.eq(x, k));
            if let Some(x) = w.foreign.get() {
                out.push(f("eq_on_absent_entry", format!("remove_entry({k}): eq called with {x} which is not in the table")));
            }
            if r != present.then_some(k) {
                out.push(f("remove_wrong", format!("remove_entry({k}) = {r:?}, expected {:?}", present.then_some(k))));
            }
            model.remove(&k);
            dump_into(t, cfg, after);
            if r.is_some() {
                oc.hit(if after.n_tomb > before.n_tomb { "remove_leaves_tombstone" } else { "remove_frees_slot" });
            } else {
                oc.hit("remove_absent");
            }
        }
        Op::Retain(p) => {
            let seen = RefCell::new(Vec::<u16>::new());
            let dropped = RefCell::new(Vec::<u16>::new());
            t.retain(
                |x| {
                    seen.borrow_mut().push(*x);
                    pred(p, *x)
                },
                |x| dropped.borrow_mut().push(x),
            );
            let seen = seen.into_inner();
            let mut dropped = dropped.into_inner();
            if let Some(x) = seen.iter().find(|x| !model.contains(x)) {
                out.push(f("retain_predicate_on_absent_entry", format!("predicate called with {x}, model {model:?}")));
            }
            let mut want: Vec<u16> = model.iter().copied().filter(|&k| !pred(p, k)).collect();
            want.sort();
            dropped.sort();
            if dropped != want {
                out.push(f("retain_drop_wrong", format!("drop called for {dropped:?}, rejected elements are {want:?}")));
            }
            model.retain(|&k| pred(p, k));
            dump_into(t, cfg, after);
            if after.codes.len() < before.codes.len() {
                oc.hit(if after.codes.is_empty() { "retain_shrinks_to_zero" } else { "retain_shrinks_table" });
            } else if after.n_tomb < before.n_tomb {
                oc.hit("retain_compacts_tombstones");
            }
        }
        Op::Drain | Op::DrainPartial => {
            let want: Vec<u16> = model.iter().copied().collect();
            let mut it = t.drain();
            let n = it.len();
            if op == Op::Drain {
                let mut got: Vec<u16> = it.by_ref().collect();
                let fused = it.next().is_none() && it.len() == 0;
                got.sort();
                if n != want.len() || got != want || !fused {
                    out.push(f("drain_wrong", format!("drain(): len {n}, items {got:?}, exhausted-stays-None {fused}; model {want:?}")));
                }
            } else {
                let first = it.next();
                if n != want.len() || first.is_some() != !want.is_empty() || first.is_some_and(|x| !model.contains(&x)) || it.len() != want.len().saturating_sub(1) {
                    out.push(f("drain_wrong", format!("drain() partially consumed: len {n}, first {first:?}, remaining {}; model {want:?}", it.len())));
                }
            }
            drop(it);
            model.clear();
            if t.slots() != before.codes.len() {
                out.push(f("drain_changes_capacity", format!("slots() {} -> {}", before.codes.len(), t.slots())));
            }
            if before.n_tomb > 0 {
                oc.hit("drain_with_tombstones");
            }
            dump_into(t, cfg, after);
        }
        Op::Clear | Op::ClearNoDrop => {
            if op == Op::Clear { t.clear() } else { t.clear_no_drop() }
            model.clear();
            if t.slots() != before.codes.len() {
                out.push(f("clear_changes_capacity", format!("slots() {} -> {}", before.codes.len(), t.slots())));
            }
            if before.n_tomb > 0 {
                oc.hit("clear_with_tombstones");
            }
            dump_into(t, cfg, after);
        }
        Op::ResetNoDrop => {
            t.reset_no_drop();
            model.clear();
            if t.capacity() != 0 || t.slots() != 0 {
                out.push(f("reset_keeps_capacity", format!("capacity() = {}, slots() = {}", t.capacity(), t.slots())));
            }
            dump_into(t, cfg, after);
        }
        Op::Reserve(n) => {
            t.reserve(n);
            dump_into(t, cfg, after);
            if after.codes != before.codes {
                oc.hit(if after.codes.len() > before.codes.len() {
                    "reserve_grows_table"
                } else if after.codes.len() < before.codes.len() {
                    "reserve_shrinks_table"
                } else {
                    "reserve_rehashes_same_size"
                });
            }
            // documented: the next n insertions do not rehash or resize. Without a rehash no stored
            // element moves, slots() stays, and a slot changes only from FREE/TOMBSTONE to a new key
            // (a rehash would turn every remaining tombstone into FREE).
            let absent: Vec<u16> = (0..cfg.nkeys).filter(|k| !model.contains(k)).take(n).collect();
            if !absent.is_empty() && !(after.codes.len() != 0 && after.n_free == 0) {
                let mut c = t.clone();
                let mut m2 = model.clone();
                let mut ok = true;
                for &k in &absent {
                    let h = hash_of(cfg.hash, k);
                    let w = EqWatch::new(&m2);
                    match c.find_or_find_insert_slot(h, |x| w.eq(x, k)) {
                        Err(i) if i < c.slots() && !unsafe { c.is_slot_occupied_unchecked(i) } => {
                            // SAFETY: Err(i), no modification in between, slot i is empty
                            unsafe { c.insert_in_slot_unchecked(h, i, k) };
                        }
                        r => {
                            out.push(f("reserve_guarantee", format!("after reserve({n}): find_or_find_insert_slot({k}) = {r:?} for an absent key")));
                            ok = false;
                            break;
                        }
                    }
                    m2.insert(k);
                    if c.slots() != after.codes.len() {
                        out.push(f("reserve_guarantee", format!("after reserve({n}) the table was resized ({} -> {} slots) by insert({k}), one of the next {n} insertions", after.codes.len(), c.slots())));
                        ok = false;
                        break;
                    }
                }
                if ok {
                    let now = dump(&c, cfg);
                    let moved = after.codes.iter().zip(&now.codes).any(|(&a, &b)| a != b && !(a < C_KEY0 && b >= C_KEY0 && b < C_FOREIGN && absent.contains(&((b - C_KEY0) as u16))));
                    if moved {
                        out.push(f("reserve_guarantee", format!("after reserve({n}) the next insertions {absent:?} rehashed the table: {} -> {}", after.pretty(), now.pretty())));
                    }
                }
            }
        }
        Op::CloneOp => {
            let c = t.clone();
            dump_into(&c, cfg, after);
            if *after != *before {
                out.push(f("clone_differs", format!("original {}, clone {}", before.pretty(), after.pretty())));
            }
            *t = c;
        }
    }
    out
}

// ---------------------------------------------------------------------------------------------
// search

struct Node {
    parent: u32,
    op: Op,
}

struct Entry {
    idx: u32,
    depth: u32,
    t: Tbl,
    model: BTreeSet<u16>,
    d: Dump,
}

struct Search<'a> {
    cfg: &'a Cfg,
    nodes: Vec<Node>,
    visited: std::collections::HashMap<Box<[u8]>, u32>,
    frontier: VecDeque<Entry>,
    prefix: Vec<String>,
    oc: Oc,
    scratch: Dump,
    keybuf: Vec<u8>,
    sig_counts: RefCell<BTreeMap<(String, String), u64>>,
    transitions: u64,
    nontrivial: u64,
    state_checks: u64,
    pruned_states: u64,
    max_depth_seen: u32,
    bound_hit: bool,
    cap_hit_at_depth: Option<u32>,
}

/// memory cap per group (about 1.6 GB); a group that hits it reports `state_cap_hit`, not a fixed point
const STATE_CAP: usize = 13_000_000;

impl Search<'_> {
    fn trace(&self, mut idx: u32, last: Option<Op>) -> Vec<String> {
        let mut ops = vec![];
        if let Some(o) = last {
            ops.push(o.label());
        }
        while idx != 0 {
            let n = &self.nodes[idx as usize];
            ops.push(n.op.label());
            idx = n.parent;
        }
        ops.extend(self.prefix.iter().rev().cloned());
        ops.reverse();
        ops
    }

    fn case(&self, parent: u32, op: Option<Op>, before: Option<&Dump>, after: Option<&Dump>, model: &BTreeSet<u16>) -> Value {
        json!({
            "table": "RawTable<u16, u32>::new()",
            "keys": self.cfg.nkeys,
            "hash_assignment": HASH_NAMES[self.cfg.hash as usize],
            "hashes": (0..self.cfg.nkeys).map(|k| hash_of(self.cfg.hash, k)).collect::<Vec<_>>(),
            "trace": self.trace(parent, op),
            "state_before_last_op": before.map(|d| d.pretty()),
            "state_after": after.map(|d| d.pretty()),
            "model_after": model.iter().copied().collect::<Vec<_>>(),
        })
    }

    /// Record a violation. The case description is built only while the signature (class, op) is
    /// still being recorded by `Ctx::viol` (2 per signature and shard); later ones are only counted.
    fn report(&self, ctx: &mut Ctx, class: &str, opname: &str, msg: &str, case: impl FnOnce() -> Value) {
        // "free_counter_wrong/over" = class free_counter_wrong with the extra attribute dir=over
        let sigkey = class;
        let (class, dir) = match class.split_once('/') {
            Some((c, d)) => (c, Some(d)),
            None => (class, None),
        };
        let mut a = attrs(&[("class", class), ("op", opname)]);
        if let Some(d) = dir {
            a.insert("dir".into(), d.into());
        }
        let n = {
            let mut g = self.sig_counts.borrow_mut();
            let c = g.entry((sigkey.to_string(), opname.to_string())).or_insert(0);
            *c += 1;
            *c
        };
        if n > ctx.max_per_sig {
            ctx.viol(a, Value::Null, "");
            return;
        }
        let case = case();
        let trace = case["trace"].as_array().map(|a| a.iter().filter_map(|x| x.as_str()).collect::<Vec<_>>().join("; ")).unwrap_or_default();
        ctx.viol(a, case, &format!("{class} after [{trace}] ({}): {msg}", HASH_NAMES[self.cfg.hash as usize]));
    }
    fn recording(&self, class: &str, opname: &str) -> bool {
        self.sig_counts.borrow().get(&(class.to_string(), opname.to_string())).copied().unwrap_or(0) < 2
    }

    fn report_panic(&self, ctx: &mut Ctx, opname: &str, phase: &str, case: Value) {
        let (loc, msg) = take_panic();
        let first = msg.lines().next().unwrap_or("").to_string();
        let trace = case["trace"].as_array().map(|a| a.iter().filter_map(|x| x.as_str()).collect::<Vec<_>>().join("; ")).unwrap_or_default();
        if first.contains(PROBE_PANIC) {
            ctx.viol(
                attrs(&[("class", "probe_diverges"), ("op", opname)]),
                case,
                &format!("probe_diverges after [{trace}] ({}): a lookup compared more stored entries than the table holds ({phase})", HASH_NAMES[self.cfg.hash as usize]),
            );
            return;
        }
        let site = short_site(&loc);
        // the scratch copy of the repository lives under another prefix
        let site = match site.find("crates/") {
            Some(p) => site[p..].to_string(),
            None => site,
        };
        ctx.viol(
            attrs(&[("class", "panic"), ("panic", "1"), ("site", &site), ("op", opname)]),
            case,
            &format!("panic at {site} after [{trace}] ({}, {phase}): {first}", HASH_NAMES[self.cfg.hash as usize]),
        );
    }

    /// Execute `op` on a copy of the state `e`; register and check the successor.
    fn step(&mut self, ctx: &mut Ctx, e: &Entry, op: Op) {
        self.transitions += 1;
        let cfg = self.cfg;
        let mut oc = std::mem::take(&mut self.oc);
        let mut scratch = std::mem::take(&mut self.scratch);
        let res = catch_unwind(AssertUnwindSafe(|| {
            let mut t2 = e.t.clone();
            let mut m2 = e.model.clone();
            let fs = apply(cfg, &mut t2, &mut m2, op, &e.d, &mut scratch, &mut oc);
            (t2, m2, fs)
        }));
        self.oc = oc;
        let (mut t2, m2, fs) = match res {
            Ok(x) => x,
            Err(_) => {
                self.scratch = scratch;
                let mut m = e.model.clone();
                model_apply(&mut m, op);
                let case = self.case(e.idx, Some(op), Some(&e.d), None, &m);
                self.report_panic(ctx, op.name(), "during the operation", case);
                return;
            }
        };
        for x in &fs {
            self.report(ctx, x.class, op.name(), &x.msg, || self.case(e.idx, Some(op), Some(&e.d), Some(&scratch), &m2));
        }
        if scratch.codes != e.d.codes || scratch.free != e.d.free || scratch.len != e.d.len {
            self.nontrivial += 1;
        }
        let mut key = std::mem::take(&mut self.keybuf);
        scratch.canon_into(&mut key);
        let known = self.visited.contains_key(&key[..]);
        if known {
            self.keybuf = key;
            self.scratch = scratch;
            return;
        }
        let idx = self.nodes.len() as u32;
        self.nodes.push(Node { parent: e.idx, op });
        self.visited.insert(key.clone().into_boxed_slice(), idx);
        self.keybuf = key;
        let d2 = scratch.clone();
        self.scratch = scratch;
        let depth = e.depth + 1;
        self.max_depth_seen = self.max_depth_seen.max(depth);
        // accounting / load factor: report when this transition introduced (or changed) the defect;
        // the direction is the direction of the change made by this operation
        let (disc, disc0) = (d2.disc(), e.d.disc());
        if disc != 0 && disc != disc0 {
            // dir = sign of (counter - FREE slots) after the operation: "over" can make probing diverge
            let class = if disc > 0 { "free_counter_wrong/over" } else { "free_counter_wrong/under" };
            let msg = if !self.recording(class, op.name()) {
                String::new()
            } else {
                format!(
                    "free counter = {} but {} slots are FREE ({} tombstones, len {}, {} slots; counter - FREE was {disc0} before the operation): {}",
                    d2.free,
                    d2.n_free,
                    d2.n_tomb,
                    d2.len,
                    d2.codes.len(),
                    d2.pretty()
                )
            };
            self.report(ctx, class, op.name(), &msg, || self.case(e.idx, Some(op), Some(&e.d), Some(&d2), &m2));
        }
        if d2.len + d2.n_tomb + d2.free != d2.codes.len() && disc == 0 {
            // (cannot happen when the counter equals the number of FREE slots; kept as the literal form of the invariant)
            self.report(ctx, "len_tombstones_free_sum", op.name(), &format!("len + tombstones + free != slots: {}", d2.pretty()), || self.case(e.idx, Some(op), Some(&e.d), Some(&d2), &m2));
        }
        if !d2.spare_ok() && e.d.spare_ok() {
            self.report(ctx, "spare_slots_below_25_percent", op.name(), &format!("{} of {} slots are FREE (< 25 %): {}", d2.n_free, d2.codes.len(), d2.pretty()), || self.case(e.idx, Some(op), Some(&e.d), Some(&d2), &m2));
        }
        if !d2.codes.is_empty() && d2.n_free == 0 {
            self.report(ctx, "no_free_slot", op.name(), &format!("no FREE slot is left, a lookup of an absent key cannot terminate: {}", d2.pretty()), || self.case(e.idx, Some(op), Some(&e.d), Some(&d2), &m2));
        }
        if d2.len > d2.codes.len() / 4 * 3 && !(e.d.len > e.d.codes.len() / 4 * 3) {
            self.report(ctx, "len_exceeds_capacity", op.name(), &format!("len {} > capacity() {}", d2.len, d2.codes.len() / 4 * 3), || self.case(e.idx, Some(op), Some(&e.d), Some(&d2), &m2));
        }
        self.state_checks += 1;
        let mut oc = std::mem::take(&mut self.oc);
        let res = catch_unwind(AssertUnwindSafe(|| check_state(cfg, &mut t2, &m2, &d2, &mut oc)));
        self.oc = oc;
        match res {
            Err(_) => {
                let case = self.case(e.idx, Some(op), Some(&e.d), Some(&d2), &m2);
                self.report_panic(ctx, op.name(), "while evaluating find/get/iter in the successor state", case);
                self.pruned_states += 1;
            }
            Ok((fs, fatal)) => {
                for x in &fs {
                    self.report(ctx, x.class, op.name(), &x.msg, || self.case(e.idx, Some(op), Some(&e.d), Some(&d2), &m2));
                }
                if fatal {
                    self.pruned_states += 1;
                    return;
                }
                match d2.codes.len() {
                    0 => self.oc.hit("state_slots_0"),
                    16 => self.oc.hit("state_slots_16"),
                    32 => self.oc.hit("state_slots_32"),
                    64 => self.oc.hit("state_slots_64"),
                    _ => self.oc.hit("state_slots_other"),
                }
                if d2.n_tomb > 0 {
                    self.oc.hit("state_with_tombstones");
                }
                if self.cfg.depth.is_some_and(|m| depth >= m) {
                    self.bound_hit = true;
                    return;
                }
                self.frontier.push_back(Entry { idx, depth, t: t2, model: m2, d: d2 });
            }
        }
    }
}

fn model_apply(m: &mut BTreeSet<u16>, op: Op) {
    match op {
        Op::Insert(k) => {
            m.insert(k);
        }
        Op::Remove(k) => {
            m.remove(&k);
        }
        Op::Retain(p) => m.retain(|&k| pred(p, k)),
        Op::Drain | Op::DrainPartial | Op::Clear | Op::ClearNoDrop | Op::ResetNoDrop => m.clear(),
        Op::Reserve(_) | Op::CloneOp => {}
    }
}

fn explore(ctx: &mut Ctx, cfg: &Cfg) {
    let mut s = Search {
        cfg,
        nodes: vec![],
        visited: std::collections::HashMap::new(),
        frontier: VecDeque::new(),
        prefix: vec![],
        oc: Oc::default(),
        scratch: Dump::default(),
        keybuf: vec![],
        sig_counts: RefCell::new(BTreeMap::new()),
        transitions: 0,
        nontrivial: 0,
        state_checks: 0,
        pruned_states: 0,
        max_depth_seen: 0,
        bound_hit: false,
        cap_hit_at_depth: None,
    };
    // seed state: keys 0..prefill inserted in order through the real API, checked after every step
    let mut t = Tbl::new();
    let mut model = BTreeSet::new();
    let mut d = dump(&t, cfg);
    let mut seed_ok = true;
    for k in 0..cfg.prefill {
        let op = Op::Insert(k);
        let mut oc = Oc::default();
        let res = catch_unwind(AssertUnwindSafe(|| {
            let mut d2 = Dump::default();
            let fs = apply(cfg, &mut t, &mut model, op, &d, &mut d2, &mut oc);
            let (fs2, fatal) = check_state(cfg, &mut t, &model, &d2, &mut oc);
            (fs, fs2, fatal, d2)
        }));
        s.transitions += 1;
        s.state_checks += 1;
        s.prefix.push(op.label());
        match res {
            Err(_) => {
                let case = s.case(0, None, Some(&d), None, &model);
                s.report_panic(ctx, op.name(), "while building the seed state", case);
                seed_ok = false;
                break;
            }
            Ok((fs, fs2, fatal, d2)) => {
                for x in fs.iter().chain(&fs2) {
                    s.report(ctx, x.class, op.name(), &x.msg, || s.case(0, None, Some(&d), Some(&d2), &model));
                }
                if d2.disc() != 0 && d2.disc() != d.disc() {
                    s.report(ctx, if d2.disc() > 0 { "free_counter_wrong/over" } else { "free_counter_wrong/under" }, op.name(), &format!("free counter = {} but {} slots are FREE: {}", d2.free, d2.n_free, d2.pretty()), || s.case(0, None, Some(&d), Some(&d2), &model));
                }
                if !d2.spare_ok() && d.spare_ok() {
                    s.report(ctx, "spare_slots_below_25_percent", op.name(), &format!("{} of {} slots are FREE (< 25 %): {}", d2.n_free, d2.codes.len(), d2.pretty()), || s.case(0, None, Some(&d), Some(&d2), &model));
                }
                d = d2;
                if fatal {
                    seed_ok = false;
                    break;
                }
            }
        }
    }
    if seed_ok {
        if cfg.prefill == 0 {
            // the empty table is a state, too
            s.state_checks += 1;
            let mut oc = Oc::default();
            let res = catch_unwind(AssertUnwindSafe(|| check_state(cfg, &mut t, &model, &d, &mut oc)));
            match res {
                Err(_) => {
                    let case = s.case(0, None, None, Some(&d), &model);
                    s.report_panic(ctx, "new", "while evaluating the empty table", case);
                }
                Ok((fs, _)) => {
                    for x in &fs {
                        s.report(ctx, x.class, "new", &x.msg, || s.case(0, None, None, Some(&d), &model));
                    }
                }
            }
        }
        s.nodes.push(Node { parent: 0, op: Op::CloneOp });
        s.visited.insert(d.canon(), 0);
        let root = Entry { idx: 0, depth: 0, t, model, d };
        for op in first_ops(cfg) {
            s.step(ctx, &root, op);
        }
        ROTSYM.with(|c| c.set(cfg.window.is_some() && cfg.hash == 3 && cfg.nkeys == 16));
        let all: Vec<Op> = match cfg.window {
            None => alphabet(cfg.nkeys),
            Some(_) => alphabet(cfg.nkeys).into_iter().filter(|o| matches!(o, Op::Insert(_) | Op::Remove(_) | Op::Reserve(0))).collect(),
        };
        while let Some(e) = s.frontier.pop_front() {
            if s.nodes.len() >= STATE_CAP {
                // memory cap: stop here; every state of BFS depth < e.depth has been expanded completely
                s.cap_hit_at_depth = Some(e.depth);
                s.frontier.clear();
                break;
            }
            for &op in &all {
                if let (Some(w), Op::Insert(_)) = (cfg.window, op) {
                    if e.d.len >= w {
                        continue;
                    }
                }
                // (window mode: removals of absent keys are covered by the other configurations; one
                //  representative per state keeps the check of the `None` answer)
                if let (Some(_), Op::Remove(k)) = (cfg.window, op) {
                    if !e.model.contains(&k) && k != (e.depth as u16) % cfg.nkeys {
                        continue;
                    }
                }
                s.step(ctx, &e, op);
            }
        }
    }
    let states = s.nodes.len() as u64;
    ctx.count("states", states);
    ctx.count("transitions", s.transitions);
    ctx.count("executions", s.transitions);
    ctx.count("evaluations", s.transitions + s.state_checks);
    ctx.count("nontrivial", s.nontrivial);
    ctx.count("state_checks", s.state_checks);
    ctx.count("states_not_expanded_because_corrupt", s.pruned_states);
    ctx.count("groups", 1);
    let fixpoint = s.cap_hit_at_depth.is_none() && !s.bound_hit;
    if let Some(dd) = s.cap_hit_at_depth {
        // not a fixed point: the search is complete only up to BFS depth dd (all states at depth < dd expanded)
        ctx.outcome("state_cap_hit");
        ctx.count("groups_state_cap_hit", 1);
        ctx.count(&format!("groups_state_cap_hit_complete_to_depth_{dd}"), 1);
    } else if s.bound_hit {
        ctx.outcome("depth_bound_reached");
        ctx.count("groups_depth_bound_reached", 1);
    } else {
        // no new state was left to expand (also possible below a depth bound)
        ctx.outcome(if cfg.depth.is_none() { "fixpoint_reached" } else { "fixpoint_reached_below_depth_bound" });
        ctx.count("groups_fixpoint_reached", 1);
    }
    for (k, n) in &s.oc.0 {
        ctx.outcome(k);
        ctx.count(&format!("oc_{k}"), *n);
    }
    let (cfgc, maxd) = (cfg.clone(), s.max_depth_seen);
    ctx.sample(|| json!({"shard_cfg": format!("{cfgc:?}"), "states": states, "transitions": s.transitions, "bfs_depth_reached": maxd, "fixpoint": fixpoint, "state_cap_hit_at_depth": s.cap_hit_at_depth}));
    eprintln!("C17 {}: states {states} transitions {} depth {maxd} fixpoint {fixpoint} cap_hit_at_depth {:?}", ctx.shard, s.transitions, s.cap_hit_at_depth);
}
