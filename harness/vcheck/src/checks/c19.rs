//! C19 — C API: handle ownership is balanced and results equal the Rust API's.
//!
//! E-HIST, mirrored. The C API sources of /repo/crates/oxidd-ffi-c are compiled
//! unchanged as an rlib (`capi-shim`), the prototypes are declared by hand in
//! `capi.rs`. For each of BDD, BCDD (thorough only), ZBDD: every call sequence
//! of length 2 (quick) / 3 (thorough) over a fixed alphabet of 36 (ZBDD: 41) C
//! calls and of length 3 (quick) / 4 (thorough) over a 24-letter core
//! alphabet, on a pool of three handle slots
//! plus the INVALID handle and three variables, is executed on a fresh C
//! manager and mirrored call by call on a twin manager driven through the
//! Rust API (shorter sequences are covered as prefixes).
//! Additionally a "sweep" script that calls every exported entry point is run
//! from each state reached at depth <= 1 (quick) / <= 2 (thorough).
//!
//! After every C call:
//! * returned handle valid <=> mirrored Rust call succeeded; same table (the C
//!   result is read through the Rust view of the *same* manager:
//!   `RawFunction::from_raw` in `ManuallyDrop` + `dd::BoolKind::table`);
//! * INVALID operand => INVALID result;
//! * `dd::BoolKind::audit(.., check_rc = true)` with the multiset of C handles
//!   the harness owns according to the documented ownership rules as roots;
//! * the manager's strong count (read from the `Arc` header in front of the
//!   raw manager pointer; position calibrated per manager with a Rust-side
//!   clone) = base + manager references owned + function handles owned;
//! * number of inner nodes = the twin's.
//! At the end: unref everything, gc => no inner nodes (ZBDD: tautology chain),
//! strong count back to base + 1.

use std::ffi::{CString, c_char, c_void};
use std::hash::BuildHasherDefault;
use std::mem::ManuallyDrop;
use std::path::{Path, PathBuf};
use std::sync::atomic::{AtomicUsize, Ordering};

use oxidd::bcdd::{BCDDFunction, BCDDManagerRef};
use oxidd::bdd::{BDDFunction, BDDManagerRef};
use oxidd::util::num::{F64, Natural};
use oxidd::util::{AllocResult, SatCountCache};
use oxidd::zbdd::{ZBDDFunction, ZBDDManagerRef};
use oxidd::{
    BooleanFunction, BooleanFunctionQuant, BooleanVecSet, Function, FunctionSubst, HasLevel, Manager,
    ManagerRef, RawFunction, RawManagerRef,
};
use oxidd_core::function::BooleanOperator;
use oxidd_core::util::Subst;
use oxidd_dump::dddmp::{DDDMPVersion, DumpHeader, ExportSettings};
use rustc_hash::FxHasher;
use serde_json::json;

use super::boolops::apply_bin;
use crate::capi::{self, *};
use crate::dd::{AuditInfo, Bcdd, Bdd, BoolKind, MRefOf, Zbdd};
use crate::driver::Meta;
use crate::model::{self, BINOPS, BinOp, Tab};
use crate::proto::{Ctx, attrs, fx};

type FxBuild = BuildHasherDefault<FxHasher>;

pub fn meta() -> Meta {
    Meta {
        level: "model_checking",
        rule: "for each kind in {bdd,zbdd} (quick) / {bdd,bcdd,zbdd} (thorough): quick: every sequence of 2 letters over the kind's full alphabet and of 3 letters over a 24-letter core alphabet; thorough: every sequence of 3 letters over the full alphabet and of 4 letters over the core alphabet (full alphabet: 36 resp. 41 C calls with fixed operand slots: constructors, not/and/or/xor/imp/ite with valid, repeated and INVALID operands, quantifiers/restrict/apply_exists/substitute resp. the set operations and make_node, cofactors, node_count/sat_count_double/eval/pick_cube queries, pick_cube_dd(_set), ref/unref, gc, manager_ref/unref, containing_manager) on a fresh C manager with 3 variables, pool = 3 slots + INVALID, results stored round-robin, mirrored call by call on a Rust-API twin manager; checks after every C call (validity <=> Ok, equal tables, INVALID in => INVALID out, node reference counts = owned handles, manager strong count = owned references, equal node counts), full release + gc at the end. A letter whose documented precondition does not hold in the state (valid function required for the queries and containing_manager, valid replacement for substitution_add_pair, make_node: var above hi and lo, >= 2 manager references owned for manager_unref; quantifier/restrict/pick_cube_dd_set cube operands are built by the letter itself) is disabled and cuts the sequence. The sweep calls every exported entry point (all oxidd_<kind>_* and the 24 kind-independent ones) at least once from each state reached at depth <= 1 (quick) / <= 2 (thorough). `few0` / `few1`: managers with 0 and 1 variables (pick_cube of the constants: an empty assignment is not 'unsatisfiable'); `orders`: after every pair of reorder requests every single-variable substitution into two new functions. executions = sequences run on the real C API; transitions = C calls executed; states = distinct abstract states (slot tables, manager references, node count). A sequence is non-trivial when its last letter was executed with valid operands only (and, if it returns a function, returned a valid one).",
        assumptions: vec![
            "the C API sources are compiled unchanged as an rlib (capi-shim) and called through hand-declared prototypes in capi.rs; the cdylib/staticlib packaging and the generated C header are not exercised".into(),
            "the manager strong count is read from the Arc header in front of the raw manager pointer; its offset is calibrated per manager with a Rust-side clone (std's ArcInner is repr(C): strong, weak, data); if calibration fails the count checks are skipped and outcome mgr_count_unobservable is recorded".into(),
            "reference counts of terminal nodes are not stored; a lost/extra reference to a terminal is observed through the manager strong count only".into(),
            "apart from the `orders` shards (all ordered pairs of the 16 partial/total reordering requests over 3 variables with three live handles, level maps and new functions compared with the twin) manager_set_var_order is called on a manager without live function handles only (reordering live nodes is the subject of C08)".into(),
            "the visualize entry points are called with a TCP port that the harness keeps occupied, so they return an error after having consumed their function arguments instead of blocking".into(),
            "index-based manager, 1 worker thread, capacity 1024 nodes (no allocation failure; INVALID handles are injected explicitly)".into(),
        ],
        hang_is_violation: false,
        shard_timeout: (300, 1800),
    }
}

// ---------------------------------------------------------------------------
// operations
// ---------------------------------------------------------------------------

#[derive(Clone, Debug, PartialEq)]
pub enum Op {
    // constructors (manager argument)
    False,
    True,
    Var(u32),
    NotVar(u32),
    Singleton(u32),
    Empty,
    Base,
    // function-valued, common
    Not,
    Bin(BinOp),
    Ite,
    CofT,
    CofF,
    PickDD,
    PickDDSet,
    Ref,
    // BDD / BCDD
    Restrict,
    Forall,
    Exists,
    Unique,
    ApplyForall(BooleanOperator),
    ApplyExists(BooleanOperator),
    ApplyUnique(BooleanOperator),
    // ZBDD
    Subset0(u32),
    Subset1(u32),
    Change(u32),
    Union,
    Intsec,
    Diff,
    /// args: var, hi, lo; consumes hi and lo
    MakeNode,
}

impl Op {
    fn suffix(&self) -> &'static str {
        match self {
            Op::False => "false",
            Op::True => "true",
            Op::Var(_) => "var",
            Op::NotVar(_) => "not_var",
            Op::Singleton(_) => "singleton",
            Op::Empty => "empty",
            Op::Base => "base",
            Op::Not => "not",
            Op::Bin(b) => b.name(),
            Op::Ite => "ite",
            Op::CofT => "cofactor_true",
            Op::CofF => "cofactor_false",
            Op::PickDD => "pick_cube_dd",
            Op::PickDDSet => "pick_cube_dd_set",
            Op::Ref => "ref",
            Op::Restrict => "restrict",
            Op::Forall => "forall",
            Op::Exists => "exists",
            Op::Unique => "unique",
            Op::ApplyForall(_) => "apply_forall",
            Op::ApplyExists(_) => "apply_exists",
            Op::ApplyUnique(_) => "apply_unique",
            Op::Subset0(_) => "subset0",
            Op::Subset1(_) => "subset1",
            Op::Change(_) => "change",
            Op::Union => "union",
            Op::Intsec => "intsec",
            Op::Diff => "diff",
            Op::MakeNode => "make_node",
        }
    }
    /// scalar parameters, for the trace
    fn params(&self) -> String {
        match self {
            Op::Var(v) | Op::NotVar(v) | Op::Singleton(v) | Op::Subset0(v) | Op::Subset1(v) | Op::Change(v) => format!("{v}"),
            Op::ApplyForall(o) | Op::ApplyExists(o) | Op::ApplyUnique(o) => format!("{o:?}"),
            _ => String::new(),
        }
    }
    fn is_cons(&self) -> bool {
        matches!(self, Op::False | Op::True | Op::Var(_) | Op::NotVar(_) | Op::Singleton(_) | Op::Empty | Op::Base)
    }
}

fn bin_fn(api: &'static Common, b: BinOp) -> unsafe extern "C" fn(CFn, CFn) -> CFn {
    match b {
        BinOp::And => api.and,
        BinOp::Or => api.or,
        BinOp::Xor => api.xor,
        BinOp::Equiv => api.equiv,
        BinOp::Nand => api.nand,
        BinOp::Nor => api.nor,
        BinOp::Imp => api.imp,
        BinOp::ImpStrict => api.imp_strict,
    }
}

// ---------------------------------------------------------------------------
// kinds
// ---------------------------------------------------------------------------

pub trait CKind: BoolKind {
    const ZB: bool;
    fn api() -> &'static Common;
    fn quant() -> Option<&'static Quant>;
    fn setops() -> Option<&'static SetOps>;
    /// Rust view of the C manager (not owned)
    unsafe fn mview(p: *const c_void) -> ManuallyDrop<MRefOf<Self>>;
    /// Rust view of a valid C function handle (not owned)
    unsafe fn fview(h: CFn) -> ManuallyDrop<Self::F>;
    /// kind-specific operations through the Rust API
    fn t_ext(op: &Op, a: &[&Self::F], tm: &MRefOf<Self>) -> AllocResult<Self::F>;
    fn t_substitute(f: &Self::F, vars: &[u32], repl: &[Self::F]) -> AllocResult<Self::F>;
    fn t_export(tm: &MRefOf<Self>, path: &Path, fns: &[&Self::F], names: Option<&[&str]>, named_settings: bool) -> std::io::Result<()>;
    fn t_import(tm: &MRefOf<Self>, path: &Path) -> std::io::Result<Vec<Self::F>>;
    fn node_level_var(f: &Self::F) -> (u32, u32);
}

fn export_common<'a, F>(tm: &F::ManagerRef, path: &Path, fns: &[&'a F], names: Option<&[&str]>, named_settings: bool) -> std::io::Result<()>
where
    F: Function,
    for<'id> oxidd_core::function::INodeOfFunc<'id, F>: HasLevel,
    for<'id> oxidd_core::function::TermOfFunc<'id, F>: oxidd_dump::AsciiDisplay,
{
    let file = std::fs::File::create(path)?;
    tm.with_manager_shared(|m| {
        let set = ExportSettings::default();
        let set = if named_settings { set.ascii().version(DDDMPVersion::V2_0).strict(false).diagram_name("c19") } else { set };
        match names {
            None => set.export(file, m, fns.iter().copied()),
            Some(ns) => set.export_with_names(file, m, fns.iter().copied().zip(ns.iter().copied())),
        }
    })
}

fn import_common<F>(tm: &F::ManagerRef, path: &Path) -> std::io::Result<Vec<F>>
where
    F: BooleanFunction,
    for<'id> oxidd_core::function::INodeOfFunc<'id, F>: HasLevel,
    for<'id> oxidd_core::function::TermOfFunc<'id, F>: oxidd_dump::ParseTagged<oxidd_core::function::ETagOfFunc<'id, F>>,
{
    let mut reader = std::io::BufReader::new(std::fs::File::open(path)?);
    let header = DumpHeader::load(&mut reader)?;
    tm.with_manager_shared(|m| {
        oxidd_dump::dddmp::import::<F>(&mut reader, &header, m, header.support_var_order().iter().copied(), F::not_edge_owned)
    })
}

fn level_var_common<F: Function>(f: &F) -> (u32, u32)
where
    for<'id> oxidd_core::function::INodeOfFunc<'id, F>: HasLevel,
{
    f.with_manager_shared(|m, e| match m.get_node(e) {
        oxidd::Node::Inner(n) => {
            let l = n.level();
            (l, m.level_to_var(l))
        }
        oxidd::Node::Terminal(_) => (u32::MAX, u32::MAX),
    })
}

macro_rules! ckind_common {
    ($F:ty, $MR:ty) => {
        unsafe fn mview(p: *const c_void) -> ManuallyDrop<$MR> {
            ManuallyDrop::new(unsafe { <$MR as RawManagerRef>::from_raw(p) })
        }
        unsafe fn fview(h: CFn) -> ManuallyDrop<$F> {
            assert!(h.valid(), "harness: view of an INVALID handle");
            ManuallyDrop::new(unsafe { <$F as RawFunction>::from_raw(h.p, h.i) })
        }
        fn t_export(tm: &$MR, path: &Path, fns: &[&$F], names: Option<&[&str]>, named_settings: bool) -> std::io::Result<()> {
            export_common::<$F>(tm, path, fns, names, named_settings)
        }
        fn t_import(tm: &$MR, path: &Path) -> std::io::Result<Vec<$F>> {
            import_common::<$F>(tm, path)
        }
        fn node_level_var(f: &$F) -> (u32, u32) {
            level_var_common(f)
        }
    };
}

macro_rules! ckind_quant {
    ($K:ty, $F:ty, $MR:ty, $api:path, $q:path) => {
        impl CKind for $K {
            const ZB: bool = false;
            fn api() -> &'static Common {
                &$api
            }
            fn quant() -> Option<&'static Quant> {
                Some(&$q)
            }
            fn setops() -> Option<&'static SetOps> {
                None
            }
            ckind_common!($F, $MR);
            fn t_ext(op: &Op, a: &[&$F], _tm: &$MR) -> AllocResult<$F> {
                match op {
                    Op::Restrict => a[0].restrict(a[1]),
                    Op::Forall => a[0].forall(a[1]),
                    Op::Exists => a[0].exists(a[1]),
                    Op::Unique => a[0].unique(a[1]),
                    Op::ApplyForall(o) => a[0].apply_forall(*o, a[1], a[2]),
                    Op::ApplyExists(o) => a[0].apply_exists(*o, a[1], a[2]),
                    Op::ApplyUnique(o) => a[0].apply_unique(*o, a[1], a[2]),
                    _ => panic!("harness: {op:?} is not an operation of this kind"),
                }
            }
            fn t_substitute(f: &$F, vars: &[u32], repl: &[$F]) -> AllocResult<$F> {
                let s = Subst::new(vars.to_vec(), repl.to_vec());
                f.substitute(&s)
            }
        }
    };
}

ckind_quant!(Bdd, BDDFunction, BDDManagerRef, capi::bdd::API, capi::bdd_q::API);
ckind_quant!(Bcdd, BCDDFunction, BCDDManagerRef, capi::bcdd::API, capi::bcdd_q::API);

impl CKind for Zbdd {
    const ZB: bool = true;
    fn api() -> &'static Common {
        &capi::zbdd::API
    }
    fn quant() -> Option<&'static Quant> {
        None
    }
    fn setops() -> Option<&'static SetOps> {
        Some(&capi::zbdd_s::API)
    }
    ckind_common!(ZBDDFunction, ZBDDManagerRef);
    fn t_ext(op: &Op, a: &[&ZBDDFunction], tm: &ZBDDManagerRef) -> AllocResult<ZBDDFunction> {
        match op {
            Op::Singleton(v) => tm.with_manager_exclusive(|m| ZBDDFunction::singleton(m, *v)),
            Op::Empty => Ok(tm.with_manager_shared(|m| ZBDDFunction::empty(m))),
            Op::Base => Ok(tm.with_manager_shared(|m| ZBDDFunction::base(m))),
            Op::Subset0(v) => a[0].subset0(*v),
            Op::Subset1(v) => a[0].subset1(*v),
            Op::Change(v) => a[0].change(*v),
            Op::Union => a[0].union(a[1]),
            Op::Intsec => a[0].intsec(a[1]),
            Op::Diff => a[0].diff(a[1]),
            Op::MakeNode => {
                let hi = a[1].clone();
                let lo = a[2].clone();
                a[0].with_manager_shared(|m, var| {
                    oxidd::zbdd::make_node(m, var, hi.into_edge(m), lo.into_edge(m)).map(|e| ZBDDFunction::from_edge(m, e))
                })
            }
            _ => panic!("harness: {op:?} is not a ZBDD operation"),
        }
    }
    fn t_substitute(_f: &ZBDDFunction, _vars: &[u32], _repl: &[ZBDDFunction]) -> AllocResult<ZBDDFunction> {
        panic!("harness: ZBDDs have no substitution")
    }
}

/// the C call of a function-valued operation
unsafe fn c_fop<K: CKind>(op: &Op, a: &[CFn], m: CMgr) -> CFn {
    let api = K::api();
    unsafe {
        match op {
            Op::False => (api.ffalse)(m),
            Op::True => (api.ftrue)(m),
            Op::Var(v) => (api.var)(m, *v),
            Op::NotVar(v) => (api.not_var)(m, *v),
            Op::Not => (api.not)(a[0]),
            Op::Bin(b) => (bin_fn(api, *b))(a[0], a[1]),
            Op::Ite => (api.ite)(a[0], a[1], a[2]),
            Op::CofT => (api.cofactor_true)(a[0]),
            Op::CofF => (api.cofactor_false)(a[0]),
            Op::PickDD => (api.pick_cube_dd)(a[0]),
            Op::PickDDSet => (api.pick_cube_dd_set)(a[0], a[1]),
            Op::Ref => (api.fref)(a[0]),
            Op::Restrict => (K::quant().unwrap().restrict)(a[0], a[1]),
            Op::Forall => (K::quant().unwrap().forall)(a[0], a[1]),
            Op::Exists => (K::quant().unwrap().exists)(a[0], a[1]),
            Op::Unique => (K::quant().unwrap().unique)(a[0], a[1]),
            Op::ApplyForall(o) => (K::quant().unwrap().apply_forall)(*o, a[0], a[1], a[2]),
            Op::ApplyExists(o) => (K::quant().unwrap().apply_exists)(*o, a[0], a[1], a[2]),
            Op::ApplyUnique(o) => (K::quant().unwrap().apply_unique)(*o, a[0], a[1], a[2]),
            Op::Singleton(v) => (K::setops().unwrap().singleton)(m, *v),
            Op::Empty => (K::setops().unwrap().empty)(m),
            Op::Base => (K::setops().unwrap().base)(m),
            Op::Subset0(v) => (K::setops().unwrap().subset0)(a[0], *v),
            Op::Subset1(v) => (K::setops().unwrap().subset1)(a[0], *v),
            Op::Change(v) => (K::setops().unwrap().change)(a[0], *v),
            Op::Union => (K::setops().unwrap().union)(a[0], a[1]),
            Op::Intsec => (K::setops().unwrap().intsec)(a[0], a[1]),
            Op::Diff => (K::setops().unwrap().diff)(a[0], a[1]),
            Op::MakeNode => (K::setops().unwrap().make_node)(a[0], a[1], a[2]),
        }
    }
}

/// the mirrored Rust-API call; `None` <=> the C call has to return INVALID
fn t_fop<K: CKind>(op: &Op, a: &[Option<&K::F>], tm: &MRefOf<K>) -> Option<K::F> {
    if a.iter().any(|x| x.is_none()) {
        return None;
    }
    let a: Vec<&K::F> = a.iter().map(|x| x.unwrap()).collect();
    match op {
        Op::False => Some(tm.with_manager_shared(|m| K::F::f(m))),
        Op::True => Some(tm.with_manager_shared(|m| K::F::t(m))),
        Op::Var(v) => tm.with_manager_shared(|m| K::F::var(m, *v)).ok(),
        Op::NotVar(v) => tm.with_manager_shared(|m| K::F::not_var(m, *v)).ok(),
        Op::Not => a[0].not().ok(),
        Op::Bin(b) => apply_bin(*b, a[0], a[1]).ok(),
        Op::Ite => a[0].ite(a[1], a[2]).ok(),
        Op::CofT => a[0].cofactor_true(),
        Op::CofF => a[0].cofactor_false(),
        Op::PickDD => a[0].pick_cube_dd(|_, _, _| false).ok(),
        Op::PickDDSet => a[0].pick_cube_dd_set(a[1]).ok(),
        Op::Ref => Some(a[0].clone()),
        _ => K::t_ext(op, &a, tm).ok(),
    }
}

// ---------------------------------------------------------------------------
// state of one execution
// ---------------------------------------------------------------------------

/// a C handle owned by the harness together with its twin
pub struct Val<K: CKind> {
    pub c: CFn,
    pub t: Option<K::F>,
}

impl<K: CKind> Val<K> {
    fn invalid() -> Self {
        Val { c: CFn::INVALID, t: None }
    }
    fn valid(&self) -> bool {
        self.c.valid()
    }
}

pub struct Core<K: CKind> {
    pub cm: CMgr,
    /// byte offset of the Arc strong counter in front of `cm.p`
    off: Option<usize>,
    /// strong count not attributable to the harness (gc thread, ...)
    base: usize,
    /// manager references owned by the harness
    pub mrefs: usize,
    pub tm: MRefOf<K>,
    /// valid function handles owned by the harness (multiset) with their trace names
    owned: Vec<(CFn, u32)>,
    serial: u32,
    pub trace: Vec<String>,
    pub failed: bool,
    /// compare inner node counts with the twin
    mirror_nodes: bool,
    pub calls: u64,
    last_audit: AuditInfo,
}

fn strong_at(p: *const c_void, off: usize) -> usize {
    unsafe { (*p.cast::<u8>().sub(off).cast::<AtomicUsize>()).load(Ordering::SeqCst) }
}

fn calibrate<K: CKind>(p: *const c_void) -> Option<usize> {
    let view = unsafe { K::mview(p) };
    // ascending, so that every read stays inside the ArcInner allocation
    for off in [16usize, 32, 64, 128, 256] {
        let b = strong_at(p, off);
        let c: MRefOf<K> = (*view).clone();
        let a = strong_at(p, off);
        drop(c);
        let e = strong_at(p, off);
        if a == b.wrapping_add(1) && e == b && b >= 2 && b < 1 << 20 {
            return Some(off);
        }
    }
    None
}

impl<K: CKind> Core<K> {
    fn cname(&self, suffix: &str) -> String {
        format!("{}{}", K::api().prefix, suffix)
    }

    pub fn log(&mut self, s: String) {
        self.trace.push(s);
    }

    fn hname(&self, h: CFn) -> String {
        if !h.valid() {
            return "INVALID".into();
        }
        match self.owned.iter().find(|(o, _)| *o == h) {
            Some((_, n)) => format!("h{n}"),
            None => format!("?{:x}", h.i),
        }
    }

    fn case(&self) -> serde_json::Value {
        json!({"kind": K::NAME, "nodes": 1024, "cache": 1024, "threads": 1, "calls": self.trace,
               "legend": "m = oxidd_<kind>_manager_new(1024, 1024, 1) (big shards: (131072, 1024, 2), tiny shards: (9, 1024, 1)); hN = handle returned by the N-th handle-returning call (copies obtained through ref have the same value and print under the name of the first owned copy); every listed call is executed in order on one manager"})
    }

    pub fn viol(&mut self, ctx: &mut Ctx, op: &str, class: &str, msg: &str) {
        self.failed = true;
        let full = self.cname(op);
        let calls = self.trace.join("; ");
        ctx.viol(
            attrs(&[("kind", K::NAME), ("op", &full), ("class", class)]),
            self.case(),
            &format!("{full}: {msg} [calls: {calls}]"),
        );
    }

    /// A handle returned by the C API: owned by the harness from now on.
    fn adopt(&mut self, h: CFn) {
        if h.valid() {
            self.serial += 1;
            self.owned.push((h, self.serial));
        }
    }
    fn disown(&mut self, h: CFn) {
        if h.valid() {
            let pos = self.owned.iter().rposition(|(o, _)| *o == h).expect("harness: disown of a handle that is not owned");
            self.owned.remove(pos);
        }
    }

    fn strong(&self) -> Option<usize> {
        self.off.map(|o| strong_at(self.cm.p, o))
    }

    /// checks after every C call
    pub fn post(&mut self, ctx: &mut Ctx, op: &str) {
        self.calls += 1;
        ctx.count("transitions", 1);
        ctx.count("evaluations", 1);
        if self.failed {
            return;
        }
        let view = unsafe { K::mview(self.cm.p) };
        let views: Vec<ManuallyDrop<K::F>> = self.owned.iter().map(|(h, _)| unsafe { K::fview(*h) }).collect();
        let refs: Vec<&K::F> = views.iter().map(|v| &**v).collect();
        let info = K::audit(&view, &refs, true);
        if !info.errors.is_empty() {
            let msg = format!(
                "reference counts / structure inconsistent with the {} handles the harness owns ({}): {}",
                self.owned.len(),
                self.owned.iter().map(|(_, n)| format!("h{n}")).collect::<Vec<_>>().join(","),
                info.errors.join(" | ")
            );
            self.viol(ctx, op, "node_refcount", &msg);
            return;
        }
        if let Some(s) = self.strong() {
            let exp = self.base + self.mrefs + self.owned.len();
            if s != exp {
                let msg = format!(
                    "manager strong count is {s}, expected {exp} = {} (base) + {} manager references + {} function handles owned by the caller",
                    self.base,
                    self.mrefs,
                    self.owned.len()
                );
                self.viol(ctx, op, "manager_refcount", &msg);
                return;
            }
        }
        if self.mirror_nodes {
            let tn = self.tm.with_manager_shared(|m| m.num_inner_nodes());
            if tn != info.inner_nodes {
                let msg = format!("C manager holds {} inner nodes, the Rust-API twin {tn} after the same calls", info.inner_nodes);
                self.viol(ctx, op, "node_count_diverged", &msg);
                return;
            }
        }
        self.last_audit = info;
    }

    /// table of a valid C handle through the Rust view of the same manager
    fn ctable(&self, h: CFn) -> Result<Tab, String> {
        if h.p != self.cm.p {
            return Err(format!("handle refers to manager {:p}, expected {:p}", h.p, self.cm.p));
        }
        let v = unsafe { K::fview(h) };
        K::table(&v)
    }

    /// compare a C result with its twin; returns false on violation
    fn compare(&mut self, ctx: &mut Ctx, op: &str, c: CFn, t: &Option<K::F>, any_invalid_arg: bool) -> bool {
        if any_invalid_arg && c.valid() {
            self.viol(ctx, op, "invalid_in_valid_out", "an operand is INVALID but the result is a valid handle");
            return false;
        }
        match (c.valid(), t) {
            (false, None) => {
                ctx.outcome("result_invalid");
                true
            }
            (true, None) => {
                let tab = self.ctable(c);
                self.viol(ctx, op, "validity_mismatch", &format!("C result is valid (table {tab:x?}) but the Rust API call fails / returns None"));
                false
            }
            (false, Some(t)) => {
                let tt = K::table(t);
                self.viol(ctx, op, "validity_mismatch", &format!("C result is INVALID but the Rust API call succeeds (table {tt:x?})"));
                false
            }
            (true, Some(t)) => {
                ctx.outcome("result_valid");
                let ct = self.ctable(c);
                let tt = K::table(t);
                match (&ct, &tt) {
                    (Ok(a), Ok(b)) if a == b => true,
                    _ => {
                        self.viol(ctx, op, "wrong_value", &format!("C result has table {ct:x?}, the Rust API result {tt:x?}"));
                        false
                    }
                }
            }
        }
    }

    /// Execute one function-valued operation on the C API and on the twin.
    pub fn fcall(&mut self, ctx: &mut Ctx, op: &Op, args: &[&Val<K>]) -> Val<K> {
        if self.failed {
            return Val::invalid();
        }
        let cargs: Vec<CFn> = args.iter().map(|v| v.c).collect();
        let targs: Vec<Option<&K::F>> = args.iter().map(|v| v.t.as_ref()).collect();
        let mut parts: Vec<String> = vec![];
        if op.is_cons() {
            parts.push("m".into());
        }
        if matches!(op, Op::ApplyForall(_) | Op::ApplyExists(_) | Op::ApplyUnique(_)) {
            parts.push(op.params());
        }
        parts.extend(cargs.iter().map(|h| self.hname(*h)));
        if !op.params().is_empty() && !matches!(op, Op::ApplyForall(_) | Op::ApplyExists(_) | Op::ApplyUnique(_)) {
            parts.push(op.params());
        }
        let name = op.suffix();
        let c = unsafe { c_fop::<K>(op, &cargs, self.cm) };
        let t = t_fop::<K>(op, &targs, &self.tm);
        if *op == Op::MakeNode {
            // documented: takes ownership of hi and lo
            self.disown(cargs[1]);
            self.disown(cargs[2]);
        }
        self.adopt(c);
        let res = if c.valid() { format!("h{}", self.serial) } else { "INVALID".into() };
        let line = format!("{res} = {}({})", self.cname(name), parts.join(", "));
        self.log(line);
        if *op == Op::Ref && (c.p != cargs[0].p || c.i != cargs[0].i) {
            self.viol(ctx, name, "wrong_value", "ref does not return its argument");
        }
        let any_invalid = cargs.iter().any(|h| !h.valid());
        if !self.failed {
            self.compare(ctx, name, c, &t, any_invalid);
        }
        self.post(ctx, name);
        Val { c, t }
    }

    /// `unref` a handle owned by the harness
    pub fn release(&mut self, ctx: &mut Ctx, v: Val<K>) {
        if self.failed {
            std::mem::forget(v.t);
            return;
        }
        if v.c.valid() {
            let line = format!("{}({})", self.cname("unref"), self.hname(v.c));
            self.log(line);
            unsafe { (K::api().unref)(v.c) };
            self.disown(v.c);
            drop(v.t);
            self.post(ctx, "unref");
        }
    }

    /// conjunction of the positive variables in `mask`, built through C calls
    pub fn cube(&mut self, ctx: &mut Ctx, mask: u32) -> Val<K> {
        let mut acc: Option<Val<K>> = None;
        for v in 0..6 {
            if (mask >> v) & 1 == 1 {
                let x = self.fcall(ctx, &Op::Var(v), &[]);
                acc = Some(match acc {
                    None => x,
                    Some(a) => {
                        let r = self.fcall(ctx, &Op::Bin(BinOp::And), &[&a, &x]);
                        self.release(ctx, a);
                        self.release(ctx, x);
                        r
                    }
                });
            }
        }
        match acc {
            Some(a) => a,
            None => self.fcall(ctx, &Op::True, &[]),
        }
    }
}

/// A manager is torn down by its gc thread, which is told to quit through a
/// condition variable when the last outside reference is dropped. The gc
/// thread waits on the condition variable without checking the flag first, so
/// the notification is lost (and the manager with its two threads stays
/// forever) if the manager is dropped before the freshly spawned gc thread has
/// reached the wait. Executions here last a few hundred microseconds, so make
/// sure (timing only, no influence on results) that all gc threads of this
/// process are parked before a last reference goes away: state `S` in two
/// observations with an unchanged context switch count in between. Otherwise
/// thousands of leaked threads pile up and thread creation fails with EAGAIN.
fn wait_gc_threads_parked() {
    fn snapshot() -> Option<Vec<(String, String)>> {
        let mut v = vec![];
        let pid = std::process::id().to_string();
        for e in std::fs::read_dir("/proc/self/task").ok()?.flatten() {
            let p = e.path();
            let comm = std::fs::read_to_string(p.join("comm")).unwrap_or_default();
            let comm = comm.trim_end();
            if e.file_name().to_string_lossy() == pid {
                continue; // this (the main) thread
            }
            if comm != "oxidd mi gc" {
                if comm.starts_with("oxidd mi") {
                    continue; // pool worker
                }
                // a freshly spawned thread that has not named itself yet
                return None;
            }
            let status = std::fs::read_to_string(p.join("status")).unwrap_or_default();
            let mut state = String::new();
            let mut sw = String::new();
            for l in status.lines() {
                if let Some(r) = l.strip_prefix("State:") {
                    state = r.trim().chars().take(1).collect();
                } else if l.contains("ctxt_switches") {
                    sw.push_str(l);
                }
            }
            if state != "S" {
                return None;
            }
            v.push((p.to_string_lossy().into_owned(), sw));
        }
        Some(v)
    }
    let mut prev: Option<Vec<(String, String)>> = None;
    for _ in 0..2000 {
        let cur = snapshot();
        if cur.is_some() && cur == prev {
            return;
        }
        prev = cur;
        std::thread::sleep(std::time::Duration::from_micros(40));
    }
}

pub struct St<K: CKind> {
    pub core: Core<K>,
    pub slots: Vec<Val<K>>,
    next: usize,
}

pub const NV: u32 = 3;
/// number of variables of the managers `St::new` creates (3 everywhere except in the `few` shards)
static NVARS: std::sync::atomic::AtomicU32 = std::sync::atomic::AtomicU32::new(NV);

/// `big` shards: node store above the 65536-node threshold of the index backend and two workers
/// (worker threads keep private node counters / free lists)
static BIG: std::sync::atomic::AtomicBool = std::sync::atomic::AtomicBool::new(false);
/// `tiny` shards: a node store that the sequences fill up, so that operations fail with out-of-memory
/// (the C API returns an invalid handle where the Rust API returns an error)
static TINY: std::sync::atomic::AtomicBool = std::sync::atomic::AtomicBool::new(false);
fn mgr_cfg() -> (usize, usize, u32) {
    if BIG.load(Ordering::Relaxed) {
        (1 << 17, 1024, 2)
    } else if TINY.load(Ordering::Relaxed) {
        (9, 1024, 1)
    } else {
        (1024, 1024, 1)
    }
}

impl<K: CKind> St<K> {
    /// fresh C manager + twin, 3 variables, pool: s0, s1 valid, s2 INVALID
    pub fn new(ctx: &mut Ctx) -> St<K> {
        let api = K::api();
        let (cap, cache, threads) = mgr_cfg();
        let cm = unsafe { (api.manager_new)(cap, cache, threads) };
        assert!(!cm.p.is_null(), "harness: manager_new returned an invalid manager");
        let off = calibrate::<K>(cm.p);
        if off.is_none() {
            ctx.outcome("mgr_count_unobservable");
        }
        let base = off.map(|o| strong_at(cm.p, o) - 1).unwrap_or(0);
        let tm = K::new_manager(cap, cache, threads);
        let mut core: Core<K> = Core {
            cm,
            off,
            base,
            mrefs: 1,
            tm,
            owned: vec![],
            serial: 0,
            trace: vec![],
            failed: false,
            mirror_nodes: true,
            calls: 0,
            last_audit: AuditInfo::default(),
        };
        core.log(format!("m = {}({cap}, {cache}, {threads})", core.cname("manager_new")));
        core.post(ctx, "manager_new");
        let nv = NVARS.load(Ordering::Relaxed);
        let r = unsafe { (api.manager_add_vars)(cm, nv) };
        let tr = core.tm.with_manager_exclusive(|m| m.add_vars(nv));
        core.log(format!("{}(m, {nv})", core.cname("manager_add_vars")));
        if (r.start, r.end) != (tr.start, tr.end) {
            core.viol(ctx, "manager_add_vars", "wrong_value", &format!("returned {r:?}, Rust API {tr:?}"));
        }
        core.post(ctx, "manager_add_vars");
        let (o0, o1) = match nv {
            // `few` shards: managers with no or one variable
            0 => (Op::False, Op::True),
            1 => (Op::Var(0), Op::True),
            _ if K::ZB => (Op::Var(0), Op::Singleton(1)),
            _ => (Op::Var(0), Op::Var(1)),
        };
        let s0 = core.fcall(ctx, &o0, &[]);
        let mut s1 = core.fcall(ctx, &o1, &[]);
        if BIG.load(Ordering::Relaxed) {
            // slot 1 holds a diagram with several nodes that were created by the worker threads:
            // (s1 op x2) op x0 with op = xor (BDD/BCDD) resp. union (ZBDD)
            let op = if K::ZB { Op::Union } else { Op::Bin(BinOp::Xor) };
            let x2 = core.fcall(ctx, &if K::ZB { Op::Singleton(2) } else { Op::Var(2) }, &[]);
            let a = core.fcall(ctx, &op, &[&s1, &x2]);
            let b = core.fcall(ctx, &op, &[&a, &s0]);
            core.release(ctx, x2);
            core.release(ctx, a);
            core.release(ctx, std::mem::replace(&mut s1, b));
        }
        St { core, slots: vec![s0, s1, Val::invalid()], next: 2 }
    }

    /// store a result in the next slot (round robin), releasing the old content
    pub fn put(&mut self, ctx: &mut Ctx, v: Val<K>) {
        let d = self.next;
        self.next = (self.next + 1) % 3;
        let old = std::mem::replace(&mut self.slots[d], v);
        self.core.release(ctx, old);
    }

    pub fn state_hash(&self) -> u64 {
        let mut w: Vec<u64> = vec![K::NAME.len() as u64, self.core.mrefs as u64, self.core.last_audit.inner_nodes as u64, self.next as u64];
        for s in &self.slots {
            w.push(match &s.t {
                Some(t) => K::table(t).unwrap_or(u64::MAX - 1),
                None => u64::MAX,
            });
        }
        fx(&w)
    }

    /// unref everything, gc, check that nothing is left, drop the manager
    pub fn finish(mut self, ctx: &mut Ctx) {
        let api = K::api();
        if self.core.failed {
            // do not touch a manager whose bookkeeping is known to be broken
            std::mem::forget(self);
            return;
        }
        for v in std::mem::take(&mut self.slots) {
            self.core.release(ctx, v);
        }
        let core = &mut self.core;
        if !core.failed {
            assert!(core.owned.is_empty(), "harness: handles left in the ownership list");
            let removed = unsafe { (api.manager_gc)(core.cm) };
            let tremoved = core.tm.with_manager_shared(|m| m.gc());
            core.log(format!("{}(m)", core.cname("manager_gc")));
            if core.mirror_nodes && removed != tremoved {
                core.viol(ctx, "manager_gc", "wrong_value", &format!("final gc removed {removed} nodes, on the twin {tremoved}"));
            }
            core.post(ctx, "manager_gc");
        }
        if !core.failed {
            let view = unsafe { K::mview(core.cm.p) };
            let (nodes, nvars) = view.with_manager_shared(|m| (m.num_inner_nodes(), m.num_vars() as usize));
            let exp = if K::ZB { nvars } else { 0 };
            if nodes != exp || core.last_audit.inner_nodes != core.last_audit.reachable {
                core.viol(
                    ctx,
                    "manager_gc",
                    "leak_at_end",
                    &format!("after unref of all handles and gc the manager holds {nodes} inner nodes, expected {exp} ({} reachable from manager data)", core.last_audit.reachable),
                );
            }
        }
        if !core.failed {
            while core.mrefs > 1 {
                unsafe { (api.manager_unref)(core.cm) };
                core.mrefs -= 1;
                core.log(format!("{}(m)", core.cname("manager_unref")));
                core.post(ctx, "manager_unref");
                if core.failed {
                    break;
                }
            }
        }
        if self.core.failed {
            std::mem::forget(self);
            return;
        }
        // The last reference: the manager is destroyed by this call. Nothing can be
        // observed afterwards, so the call (and the drop of the twin) is deferred by a
        // few executions, see `wait_gc_threads_parked`.
        ctx.count("transitions", 1);
        let cm = self.core.cm;
        let St { core, slots, .. } = self;
        drop(slots);
        let Core { tm, .. } = core;
        defer_release(Box::new(move || {
            unsafe { (api.manager_unref)(cm) };
            drop(tm);
        }));
    }
}

thread_local! {
    static PENDING: std::cell::RefCell<std::collections::VecDeque<Box<dyn FnOnce()>>> = const { std::cell::RefCell::new(std::collections::VecDeque::new()) };
}

/// Final release of the two managers of an execution: run once 32 later
/// executions have finished (their gc threads are parked by then), or at the
/// end of the group after an explicit wait.
fn defer_release(f: Box<dyn FnOnce()>) {
    let old = PENDING.with(|p| {
        let mut p = p.borrow_mut();
        p.push_back(f);
        if p.len() > 32 { p.pop_front() } else { None }
    });
    if let Some(f) = old {
        f();
    }
}

pub fn flush_releases() {
    let all: Vec<Box<dyn FnOnce()>> = PENDING.with(|p| p.borrow_mut().drain(..).collect());
    if !all.is_empty() {
        wait_gc_threads_parked();
        for f in all {
            f();
        }
    }
}

// ---------------------------------------------------------------------------
// alphabet of the history exploration
// ---------------------------------------------------------------------------

/// operand source: slot or the INVALID handle
#[derive(Clone, Copy, Debug, PartialEq)]
pub enum Src {
    S(usize),
    Inv,
}

#[derive(Clone, Debug)]
pub enum Letter {
    /// constructor -> next slot
    Cons(Op),
    /// function-valued operation on slots -> next slot
    F(Op, Vec<Src>),
    /// op(s_i, conjunction of the variables in mask) -> next slot
    Quant(Op, usize, u32),
    /// restrict(s_i, literal of var) -> next slot
    Restrict(usize, u32, bool),
    /// apply_exists(op, s_i, s_j, cube(mask)) -> next slot
    ApplyQ(Op, usize, usize, u32),
    /// substitute(s_i, {x_var -> s_j}) via substitution_new/add_pair/free -> next slot
    Subst(usize, u32, usize),
    /// pick_cube_dd_set(s_i, var(v)) -> next slot
    PickSet(usize, u32),
    /// make_node(singleton(v), ref(s_i), ref(s_j)) -> next slot
    MakeNode(u32, usize, usize),
    /// cofactors(s_i) -> next two slots
    Cofactors(usize),
    /// node_count, satisfiable, valid, sat_count_double, eval x2, node_level, node_var
    Query(usize),
    /// pick_cube + assignment_free
    PickCube(usize),
    Ref(Src),
    Unref(Src),
    Gc,
    MRef,
    MUnref,
    Containing(usize),
}

use Src::{Inv, S};

pub fn alphabet<K: CKind>() -> Vec<Letter> {
    let mut a = vec![
        Letter::Cons(Op::False),
        Letter::Cons(Op::True),
        Letter::Cons(Op::Var(2)),
        Letter::Cons(Op::NotVar(1)),
        Letter::F(Op::Not, vec![S(0)]),
        Letter::F(Op::Not, vec![Inv]),
        Letter::F(Op::Bin(BinOp::And), vec![S(0), S(1)]),
        Letter::F(Op::Bin(BinOp::Or), vec![S(1), S(2)]),
        Letter::F(Op::Bin(BinOp::Xor), vec![S(2), S(0)]),
        Letter::F(Op::Bin(BinOp::Imp), vec![S(1), S(1)]),
        Letter::F(Op::Bin(BinOp::And), vec![S(0), Inv]),
        Letter::F(Op::Bin(BinOp::Or), vec![Inv, S(1)]),
        Letter::F(Op::Ite, vec![S(0), S(1), S(2)]),
        Letter::F(Op::Ite, vec![S(2), Inv, S(0)]),
    ];
    if K::ZB {
        a.extend([
            Letter::Cons(Op::Singleton(2)),
            Letter::Cons(Op::Base),
            Letter::Cons(Op::Empty),
            Letter::F(Op::Subset0(0), vec![S(0)]),
            Letter::F(Op::Subset1(1), vec![S(1)]),
            Letter::F(Op::Change(0), vec![S(2)]),
            Letter::F(Op::Subset0(1), vec![Inv]),
            Letter::F(Op::Union, vec![S(0), S(1)]),
            Letter::F(Op::Intsec, vec![S(1), S(2)]),
            Letter::F(Op::Diff, vec![S(0), S(2)]),
            Letter::MakeNode(0, 1, 2),
        ]);
    } else {
        a.extend([
            Letter::Quant(Op::Exists, 0, 0b001),
            Letter::Quant(Op::Forall, 1, 0b010),
            Letter::Quant(Op::Unique, 2, 0b011),
            Letter::Restrict(0, 0, false),
            Letter::ApplyQ(Op::ApplyExists(BooleanOperator::And), 0, 1, 0b010),
            Letter::Subst(0, 0, 1),
        ]);
    }
    a.extend([
        Letter::F(Op::CofT, vec![S(0)]),
        Letter::F(Op::CofF, vec![S(1)]),
        Letter::Cofactors(2),
        Letter::Query(0),
        Letter::Query(2),
        Letter::PickCube(1),
        Letter::F(Op::PickDD, vec![S(1)]),
        Letter::PickSet(0, 1),
        Letter::Ref(S(0)),
        Letter::Ref(Inv),
        Letter::Unref(S(1)),
        Letter::Unref(Inv),
        Letter::Gc,
        Letter::MRef,
        Letter::MUnref,
        Letter::Containing(0),
    ]);
    a
}

#[derive(Clone, Copy, PartialEq, Debug)]
pub enum Step {
    /// executed; the flag says whether all operands were valid (and the result, if any, too)
    Done(bool),
    Disabled,
    Failed,
}

impl<K: CKind> St<K> {
    fn src(&self, s: Src) -> Val<K> {
        // a borrowed copy of the pair (C handles are Copy; the twin is cloned)
        match s {
            S(i) => Val { c: self.slots[i].c, t: self.slots[i].t.clone() },
            Inv => Val::invalid(),
        }
    }

    /// queries that require a valid function
    fn queries(&mut self, ctx: &mut Ctx, v: &Val<K>, all_assignments: bool) {
        let api = K::api();
        let core = &mut self.core;
        let t = v.t.as_ref().expect("harness: query on an invalid pair");
        let h = core.hname(v.c);
        let n = core.tm.with_manager_shared(|m| m.num_vars());
        macro_rules! q {
            ($name:literal, $args:expr, $c:expr, $t:expr) => {{
                if core.failed {
                    return;
                }
                let c = $c;
                let tt = $t;
                core.log(format!("{}({}{}) -> {:?}", core.cname($name), h, $args, c));
                if c != tt {
                    core.viol(ctx, $name, "query_mismatch", &format!("C API returns {c:?}, the Rust API {tt:?}"));
                }
                core.post(ctx, $name);
            }};
        }
        q!("node_count", "", unsafe { (api.node_count)(v.c) }, t.node_count());
        q!("satisfiable", "", unsafe { (api.satisfiable)(v.c) }, t.satisfiable());
        q!("valid", "", unsafe { (api.valid)(v.c) }, t.valid());
        q!(
            "sat_count_double",
            format!(", {n}"),
            unsafe { (api.sat_count_double)(v.c, n) }.to_bits(),
            t.sat_count::<F64, FxBuild>(n, &mut SatCountCache::default()).0.to_bits()
        );
        let (tl, tv) = K::node_level_var(t);
        q!("node_level", "", unsafe { (api.node_level)(v.c) }, tl);
        q!("node_var", "", unsafe { (api.node_var)(v.c) }, tv);
        let assignments: Vec<u32> = if all_assignments { (0..(1u32 << n.min(3))).collect() } else { vec![0b101, 0b010] };
        for a in assignments {
            let args: Vec<CVarBool> = (0..n).map(|x| CVarBool { var: x, val: (a >> x) & 1 == 1 }).collect();
            q!(
                "eval",
                format!(", {a:#b}"),
                unsafe { (api.eval)(v.c, args.as_ptr(), args.len()) },
                t.eval((0..n).map(|x| (x, (a >> x) & 1 == 1)))
            );
        }
    }

    fn pick_cube(&mut self, ctx: &mut Ctx, v: &Val<K>) {
        let api = K::api();
        let core = &mut self.core;
        if core.failed {
            return;
        }
        let t = v.t.as_ref().expect("harness: query on an invalid pair");
        let a = unsafe { (api.pick_cube)(v.c) };
        let got: Option<Vec<i8>> = if a.data.is_null() { None } else { Some(unsafe { std::slice::from_raw_parts(a.data, a.len) }.to_vec()) };
        let exp: Option<Vec<i8>> = t.pick_cube(|_, _, _| false).map(|v| v.into_iter().map(|o| o as i8).collect());
        core.log(format!("{}({}) -> {:?}", core.cname("pick_cube"), core.hname(v.c), got));
        if got != exp || (a.data.is_null() && a.len != 0) {
            core.viol(ctx, "pick_cube", "query_mismatch", &format!("C API returns {got:?} (len {}), the Rust API {exp:?}", a.len));
        }
        core.post(ctx, "pick_cube");
        unsafe { oxidd_assignment_free(a) };
        core.log("oxidd_assignment_free(..)".into());
        core.post(ctx, "pick_cube");
    }

    pub fn step(&mut self, ctx: &mut Ctx, l: &Letter) -> Step {
        let api = K::api();
        let n = NV;
        let done = |st: &St<K>, ok: bool| if st.core.failed { Step::Failed } else { Step::Done(ok) };
        match l {
            Letter::Cons(op) => {
                let v = self.core.fcall(ctx, op, &[]);
                let ok = v.valid();
                self.put(ctx, v);
                done(self, ok)
            }
            Letter::F(op, srcs) => {
                let args: Vec<Val<K>> = srcs.iter().map(|s| self.src(*s)).collect();
                let refs: Vec<&Val<K>> = args.iter().collect();
                let all_valid = args.iter().all(|a| a.valid());
                let v = self.core.fcall(ctx, op, &refs);
                let ok = all_valid && v.valid();
                self.put(ctx, v);
                done(self, ok)
            }
            Letter::Quant(op, i, mask) => {
                let f = self.src(S(*i));
                let cube = self.core.cube(ctx, *mask);
                let v = self.core.fcall(ctx, op, &[&f, &cube]);
                self.core.release(ctx, cube);
                let ok = f.valid() && v.valid();
                self.put(ctx, v);
                done(self, ok)
            }
            Letter::Restrict(i, var, pos) => {
                let f = self.src(S(*i));
                let lit = self.core.fcall(ctx, &if *pos { Op::Var(*var) } else { Op::NotVar(*var) }, &[]);
                let v = self.core.fcall(ctx, &Op::Restrict, &[&f, &lit]);
                self.core.release(ctx, lit);
                let ok = f.valid() && v.valid();
                self.put(ctx, v);
                done(self, ok)
            }
            Letter::ApplyQ(op, i, j, mask) => {
                let f = self.src(S(*i));
                let g = self.src(S(*j));
                let cube = self.core.cube(ctx, *mask);
                let v = self.core.fcall(ctx, op, &[&f, &g, &cube]);
                self.core.release(ctx, cube);
                let ok = f.valid() && g.valid() && v.valid();
                self.put(ctx, v);
                done(self, ok)
            }
            Letter::Subst(i, var, j) => {
                let f = self.src(S(*i));
                let r = self.src(S(*j));
                if !r.valid() {
                    // documented: the replacement must be valid
                    return Step::Disabled;
                }
                let v = self.substitute(ctx, &f, &[(*var, &r)]);
                let ok = f.valid() && v.valid();
                self.put(ctx, v);
                done(self, ok)
            }
            Letter::PickSet(i, var) => {
                let f = self.src(S(*i));
                let lit = self.core.fcall(ctx, &Op::Var(*var), &[]);
                let v = self.core.fcall(ctx, &Op::PickDDSet, &[&f, &lit]);
                self.core.release(ctx, lit);
                let ok = f.valid() && v.valid();
                self.put(ctx, v);
                done(self, ok)
            }
            Letter::MakeNode(var, i, j) => {
                let hi = self.src(S(*i));
                let lo = self.src(S(*j));
                // documented preconditions: var is a singleton whose level is above hi's and lo's levels
                let below = |v: &Val<K>| match &v.t {
                    Some(t) => K::table(t).map(|t| (0..=*var).all(|u| model::fam_subset1(t, u, n) == 0)).unwrap_or(false),
                    None => false,
                };
                // (with an invalid operand the call is made all the same: the result is invalid and the
                //  documented ownership transfer of the valid operand must still happen)
                let any_invalid = !hi.valid() || !lo.valid();
                if !any_invalid && (!below(&hi) || !below(&lo)) {
                    return Step::Disabled;
                }
                let sv = self.core.fcall(ctx, &Op::Singleton(*var), &[]);
                let hi2 = self.core.fcall(ctx, &Op::Ref, &[&hi]);
                let lo2 = self.core.fcall(ctx, &Op::Ref, &[&lo]);
                let v = self.core.fcall(ctx, &Op::MakeNode, &[&sv, &hi2, &lo2]);
                // hi2/lo2 were consumed by make_node (fcall has removed them from the ownership list)
                drop(hi2.t);
                drop(lo2.t);
                self.core.release(ctx, sv);
                let ok = v.valid();
                self.put(ctx, v);
                done(self, ok)
            }
            Letter::Cofactors(i) => {
                let f = self.src(S(*i));
                let (a, b) = self.cofactors(ctx, &f);
                let ok = a.valid() && b.valid();
                self.put(ctx, a);
                self.put(ctx, b);
                done(self, ok)
            }
            Letter::Query(i) => {
                let f = self.src(S(*i));
                if !f.valid() {
                    return Step::Disabled;
                }
                self.queries(ctx, &f, false);
                done(self, true)
            }
            Letter::PickCube(i) => {
                let f = self.src(S(*i));
                if !f.valid() {
                    return Step::Disabled;
                }
                self.pick_cube(ctx, &f);
                done(self, true)
            }
            Letter::Ref(s) => {
                let f = self.src(*s);
                let v = self.core.fcall(ctx, &Op::Ref, &[&f]);
                let ok = v.valid();
                self.put(ctx, v);
                done(self, ok)
            }
            Letter::Unref(s) => match s {
                S(i) => {
                    let old = std::mem::replace(&mut self.slots[*i], Val::invalid());
                    let ok = old.valid();
                    if ok {
                        self.core.release(ctx, old);
                    } else {
                        self.unref_invalid(ctx);
                    }
                    done(self, ok)
                }
                Inv => {
                    self.unref_invalid(ctx);
                    done(self, false)
                }
            },
            Letter::Gc => {
                let core = &mut self.core;
                let before = core.last_audit.inner_nodes;
                let removed = unsafe { (api.manager_gc)(core.cm) };
                let tremoved = core.tm.with_manager_shared(|m| m.gc());
                core.log(format!("{}(m) -> {removed}", core.cname("manager_gc")));
                if removed != tremoved {
                    core.viol(ctx, "manager_gc", "wrong_value", &format!("gc removed {removed} nodes, on the twin {tremoved}"));
                }
                core.post(ctx, "manager_gc");
                if !core.failed {
                    let a = &core.last_audit;
                    if a.inner_nodes != a.reachable || before - a.inner_nodes != removed {
                        let msg = format!("after gc {} nodes are stored, {} are reachable from the owned handles; {before} before, return value {removed}", a.inner_nodes, a.reachable);
                        core.viol(ctx, "manager_gc", "gc_not_exact", &msg);
                    }
                }
                done(self, true)
            }
            Letter::MRef => {
                self.manager_ref(ctx);
                done(self, true)
            }
            Letter::MUnref => {
                if self.core.mrefs < 2 {
                    return Step::Disabled;
                }
                self.manager_unref(ctx);
                done(self, true)
            }
            Letter::Containing(i) => {
                let f = self.src(S(*i));
                if !f.valid() {
                    return Step::Disabled;
                }
                self.containing(ctx, &f);
                done(self, true)
            }
        }
    }

    fn unref_invalid(&mut self, ctx: &mut Ctx) {
        let core = &mut self.core;
        if core.failed {
            return;
        }
        unsafe { (K::api().unref)(CFn::INVALID) };
        core.log(format!("{}(INVALID)", core.cname("unref")));
        core.post(ctx, "unref");
    }

    fn manager_ref(&mut self, ctx: &mut Ctx) {
        let core = &mut self.core;
        if core.failed {
            return;
        }
        let r = unsafe { (K::api().manager_ref)(core.cm) };
        core.mrefs += 1;
        core.log(format!("{}(m)", core.cname("manager_ref")));
        if r.p != core.cm.p {
            core.viol(ctx, "manager_ref", "wrong_value", "manager_ref does not return its argument");
        }
        core.post(ctx, "manager_ref");
    }

    fn manager_unref(&mut self, ctx: &mut Ctx) {
        let core = &mut self.core;
        if core.failed {
            return;
        }
        assert!(core.mrefs >= 2);
        unsafe { (K::api().manager_unref)(core.cm) };
        core.mrefs -= 1;
        core.log(format!("{}(m)", core.cname("manager_unref")));
        core.post(ctx, "manager_unref");
    }

    fn containing(&mut self, ctx: &mut Ctx, f: &Val<K>) {
        let core = &mut self.core;
        if core.failed {
            return;
        }
        let r = unsafe { (K::api().containing_manager)(f.c) };
        // documented: "A manager reference with its own reference count"
        core.mrefs += 1;
        core.log(format!("m' = {}({})", core.cname("containing_manager"), core.hname(f.c)));
        if r.p != core.cm.p {
            core.mrefs -= 1;
            core.viol(ctx, "containing_manager", "wrong_value", &format!("returned manager {:p}, the function is stored in {:p}", r.p, core.cm.p));
        }
        core.post(ctx, "containing_manager");
    }

    fn cofactors(&mut self, ctx: &mut Ctx, f: &Val<K>) -> (Val<K>, Val<K>) {
        let core = &mut self.core;
        if core.failed {
            return (Val::invalid(), Val::invalid());
        }
        let p = unsafe { (K::api().cofactors)(f.c) };
        let tp = f.t.as_ref().and_then(|t| t.cofactors());
        let arg = core.hname(f.c);
        core.adopt(p.first);
        let n1 = core.hname(p.first);
        core.adopt(p.second);
        let n2 = if p.second.valid() { format!("h{}", core.serial) } else { "INVALID".into() };
        core.log(format!("({n1}, {n2}) = {}({arg})", core.cname("cofactors")));
        let (t1, t2) = match tp {
            Some((a, b)) => (Some(a), Some(b)),
            None => (None, None),
        };
        let inv = !f.c.valid();
        if core.compare(ctx, "cofactors", p.first, &t1, inv) {
            core.compare(ctx, "cofactors", p.second, &t2, inv);
        }
        core.post(ctx, "cofactors");
        (Val { c: p.first, t: t1 }, Val { c: p.second, t: t2 })
    }

    /// substitution_new, add_pair.., substitute, substitution_free
    fn substitute(&mut self, ctx: &mut Ctx, f: &Val<K>, pairs: &[(u32, &Val<K>)]) -> Val<K> {
        let q = K::quant().expect("harness: kind without substitution");
        let core = &mut self.core;
        if core.failed {
            return Val::invalid();
        }
        let s = unsafe { (q.substitution_new)(pairs.len()) };
        core.log(format!("s = {}({})", core.cname("substitution_new"), pairs.len()));
        core.post(ctx, "substitution_new");
        for (v, r) in pairs {
            unsafe { (q.substitution_add_pair)(s, *v, r.c) };
            core.log(format!("{}(s, {v}, {})", core.cname("substitution_add_pair"), core.hname(r.c)));
            // documented: increments the reference counter of the replacement
            core.serial += 1;
            core.owned.push((r.c, core.serial));
            core.post(ctx, "substitution_add_pair");
        }
        let c = if core.failed { CFn::INVALID } else { unsafe { (q.substitute)(f.c, s) } };
        let t = match &f.t {
            Some(tf) => {
                let vars: Vec<u32> = pairs.iter().map(|(v, _)| *v).collect();
                let repl: Vec<K::F> = pairs.iter().map(|(_, r)| r.t.clone().unwrap()).collect();
                K::t_substitute(tf, &vars, &repl).ok()
            }
            None => None,
        };
        if !core.failed {
            let arg = core.hname(f.c);
            core.adopt(c);
            let res = core.hname(c);
            core.log(format!("{res} = {}({arg}, s)", core.cname("substitute")));
            core.compare(ctx, "substitute", c, &t, !f.c.valid());
            core.post(ctx, "substitute");
        }
        if !core.failed {
            unsafe { (q.substitution_free)(s) };
            core.log(format!("{}(s)", core.cname("substitution_free")));
            for (_, r) in pairs {
                core.disown(r.c);
            }
            core.post(ctx, "substitution_free");
        }
        Val { c, t }
    }
}

// ---------------------------------------------------------------------------
// shards and exploration
// ---------------------------------------------------------------------------

fn kinds(tier: &str) -> Vec<&'static str> {
    if tier == "thorough" { vec!["bdd", "bcdd", "zbdd"] } else { vec!["bdd", "zbdd"] }
}

fn alpha_len(kind: &str) -> usize {
    match kind {
        "bdd" => alphabet::<Bdd>().len(),
        "bcdd" => alphabet::<Bcdd>().len(),
        "zbdd" => alphabet::<Zbdd>().len(),
        _ => panic!("bad kind"),
    }
}

pub const CORE: usize = 24;

/// indices (into the alphabet) of the 24 core letters used for the depth-4 exploration
pub fn core_letters<K: CKind>() -> Vec<usize> {
    let alpha = alphabet::<K>();
    let want = |l: &Letter| -> bool {
        match l {
            Letter::Cons(Op::Var(2)) | Letter::Cons(Op::True) | Letter::Cons(Op::False) => true,
            Letter::F(Op::Not, s) => s[0] == S(0),
            Letter::F(Op::Bin(BinOp::And), s) => s[1] == S(1),
            Letter::F(Op::Bin(BinOp::Xor), _) | Letter::F(Op::Bin(BinOp::Imp), _) | Letter::F(Op::Bin(BinOp::Or), _) => true,
            Letter::F(Op::Ite, _) => true,
            Letter::Quant(Op::Exists, ..) | Letter::Subst(..) | Letter::Restrict(..) => true,
            Letter::F(Op::Union, _) | Letter::MakeNode(..) | Letter::F(Op::Change(_), _) => true,
            Letter::F(Op::CofT, _) | Letter::F(Op::PickDD, _) => true,
            Letter::Cofactors(_) | Letter::Query(0) | Letter::Ref(S(0)) | Letter::Unref(S(1)) | Letter::Gc => true,
            Letter::MRef | Letter::MUnref | Letter::Containing(_) => true,
            _ => false,
        }
    };
    let v: Vec<usize> = alpha.iter().enumerate().filter(|(_, l)| want(l)).map(|(i, _)| i).collect();
    assert_eq!(v.len(), CORE, "harness: core alphabet");
    v
}

pub fn shards(tier: &str) -> Vec<String> {
    let mut v = vec![];
    for k in kinds(tier) {
        v.push(format!("{k}:root"));
        for l in 0..alpha_len(k) {
            v.push(format!("{k}:{l}"));
        }
        for c in 0..CORE {
            v.push(format!("{k}:c{c}"));
        }
        for c in 0..CORE {
            v.push(format!("{k}:big{c}"));
        }
        for c in 0..CORE {
            v.push(format!("{k}:tiny{c}"));
        }
        v.push(format!("{k}:orders"));
        v.push(format!("{k}:few0"));
        v.push(format!("{k}:few1"));
    }
    v
}

pub fn run(ctx: &mut Ctx) {
    // Two managers (with a worker pool and a gc thread each) are created per
    // execution. The library's default worker stack is 1 GiB of address space;
    // with thousands of short-lived managers per second thread creation fails
    // with EAGAIN. 3-variable diagrams need no deep recursion.
    if std::env::var_os("OXIDD_STACK_SIZE").is_none() {
        // no other thread exists yet in this worker process
        unsafe { std::env::set_var("OXIDD_STACK_SIZE", "4194304") };
    }
    let shard = ctx.shard.clone();
    let (k, rest) = shard.split_once(':').expect("bad shard");
    let rest = match (rest.strip_prefix("big"), rest.strip_prefix("tiny")) {
        (Some(c), _) => {
            BIG.store(true, Ordering::Relaxed);
            format!("c{c}")
        }
        (_, Some(c)) => {
            TINY.store(true, Ordering::Relaxed);
            format!("c{c}")
        }
        _ => rest.to_string(),
    };
    if let Some(k) = rest.strip_prefix("few") {
        NVARS.store(k.parse().unwrap(), Ordering::Relaxed);
        return match k {
            "bdd" => few_group::<Bdd>(ctx),
            "bcdd" => few_group::<Bcdd>(ctx),
            _ => few_group::<Zbdd>(ctx),
        };
    }
    if rest == "orders" {
        match k {
            "bdd" => orders_group::<Bdd>(ctx),
            "bcdd" => orders_group::<Bcdd>(ctx),
            "zbdd" => orders_group::<Zbdd>(ctx),
            _ => panic!("bad shard"),
        }
        return;
    }
    let first = match rest.as_str() {
        "root" => First::Root,
        r if r.starts_with('c') => First::Core(r[1..].parse().expect("bad shard")),
        r => First::Full(r.parse().expect("bad shard")),
    };
    match k {
        "bdd" => run_k::<Bdd>(ctx, first),
        "bcdd" => run_k::<Bcdd>(ctx, first),
        "zbdd" => run_k::<Zbdd>(ctx, first),
        _ => panic!("bad shard"),
    }
}

#[derive(Clone, Copy)]
enum First {
    Root,
    /// first letter (index into the full alphabet): depth 3 over the full alphabet + sweeps
    Full(usize),
    /// first letter (index into the core letters): depth 4 over the core alphabet
    Core(usize),
}

/// Execute one sequence; returns the position at which it was cut (disabled
/// letter or violation), `None` if it ran to the end.
fn exec_seq<K: CKind>(ctx: &mut Ctx, alpha: &[Letter], seq: &[usize], sweep_after: bool) -> Option<usize> {
    ctx.count("executions", 1);
    let mut st = St::<K>::new(ctx);
    let mut cut = None;
    let mut last_ok = false;
    for (pos, &li) in seq.iter().enumerate() {
        if st.core.failed {
            cut = Some(pos.saturating_sub(1));
            break;
        }
        match st.step(ctx, &alpha[li]) {
            Step::Done(ok) => {
                last_ok = ok;
                if ctx.distinct(st.state_hash()) {
                    ctx.count("states", 1);
                }
            }
            Step::Disabled => {
                ctx.count("disabled", 1);
                cut = Some(pos);
                break;
            }
            Step::Failed => {
                cut = Some(pos);
                break;
            }
        }
    }
    if cut.is_none() {
        if last_ok {
            ctx.count("nontrivial", 1);
        }
        if sweep_after && !st.core.failed {
            sweep(ctx, &mut st);
        }
        if !sweep_after {
            ctx.sample(|| st.core.case());
        }
    }
    st.finish(ctx);
    cut
}

/// all sequences of length d over `set` (indices into alpha) that start with set[i1]; one group per second letter
fn dfs_groups<K: CKind>(ctx: &mut Ctx, alpha: &[Letter], set: &[usize], d: usize, i1: usize) {
    let a = set.len();
    for i2 in 0..a {
        ctx.group(&format!("dfs{d} {:?} {:?}", alpha[set[i1]], alpha[set[i2]]), |ctx| {
            let mut idx = vec![0usize; d];
            idx[0] = i1;
            idx[1] = i2;
            loop {
                let seq: Vec<usize> = idx.iter().map(|&i| set[i]).collect();
                let cut = exec_seq::<K>(ctx, alpha, &seq, false);
                // odometer: advance at the cut position (skips all continuations of a cut prefix)
                let mut pos = cut.unwrap_or(d - 1);
                if pos < 2 {
                    break;
                }
                for p in (pos + 1)..d {
                    idx[p] = 0;
                }
                loop {
                    idx[pos] += 1;
                    if idx[pos] < a {
                        break;
                    }
                    idx[pos] = 0;
                    pos -= 1;
                    if pos < 2 {
                        break;
                    }
                }
                if pos < 2 {
                    break;
                }
            }
            flush_releases();
        });
    }
}

fn run_k<K: CKind>(ctx: &mut Ctx, first: First) {
    let alpha = alphabet::<K>();
    let a = alpha.len();
    let full: Vec<usize> = (0..a).collect();
    match first {
        First::Root => {
            ctx.group("sweep []", |ctx| {
                exec_seq::<K>(ctx, &alpha, &[], true);
                flush_releases();
            });
        }
        First::Core(c) => {
            let core = core_letters::<K>();
            dfs_groups::<K>(ctx, &alpha, &core, if ctx.thorough() { 4 } else { 3 }, c);
        }
        First::Full(l1) => {
            if ctx.thorough() {
                dfs_groups::<K>(ctx, &alpha, &full, 3, l1);
            } else {
                ctx.group(&format!("dfs2 {:?} *", alpha[l1]), |ctx| {
                    for l2 in 0..a {
                        exec_seq::<K>(ctx, &alpha, &[l1, l2], false);
                    }
                    flush_releases();
                });
            }
            // whole-surface sweep from the states at depth 1 (and 2)
            ctx.group(&format!("sweep {:?}", alpha[l1]), |ctx| {
                exec_seq::<K>(ctx, &alpha, &[l1], true);
                flush_releases();
            });
            if ctx.thorough() {
                for l2 in 0..a {
                    ctx.group(&format!("sweep {:?} {:?}", alpha[l1], alpha[l2]), |ctx| {
                        exec_seq::<K>(ctx, &alpha, &[l1, l2], true);
                        flush_releases();
                    });
                }
            }
        }
    }
}

// ---------------------------------------------------------------------------
// whole-surface sweep
// ---------------------------------------------------------------------------

static TMP_COUNTER: AtomicUsize = AtomicUsize::new(0);

struct TmpFile(PathBuf);
impl TmpFile {
    fn new(tag: &str) -> TmpFile {
        let n = TMP_COUNTER.fetch_add(1, Ordering::SeqCst);
        TmpFile(std::env::temp_dir().join(format!("vcheck_c19_{}_{n}_{tag}", std::process::id())))
    }
    fn ptr(&self) -> (*const c_char, usize) {
        let s = self.0.to_str().expect("harness: temp path not UTF-8");
        (s.as_ptr().cast(), s.len())
    }
    fn bytes(&self) -> Vec<u8> {
        std::fs::read(&self.0).unwrap_or_default()
    }
}
impl Drop for TmpFile {
    fn drop(&mut self) {
        let _ = std::fs::remove_file(&self.0);
    }
}

/// A TCP port on localhost that stays occupied while this value lives.
struct PortHold {
    port: u16,
    _l4: std::net::TcpListener,
    _l6: Option<std::net::TcpListener>,
}

fn hold_port() -> Option<PortHold> {
    for _ in 0..32 {
        let l4 = std::net::TcpListener::bind(("127.0.0.1", 0)).ok()?;
        let port = l4.local_addr().ok()?.port();
        match std::net::TcpListener::bind(("::1", port)) {
            Ok(l6) => return Some(PortHold { port, _l4: l4, _l6: Some(l6) }),
            Err(e) if e.kind() == std::io::ErrorKind::AddrInUse => continue,
            // no IPv6 loopback: the library cannot bind there either
            Err(_) => return Some(PortHold { port, _l4: l4, _l6: None }),
        }
    }
    None
}

fn zero_err() -> CError {
    CError { msg: CStringT { data: std::ptr::null(), len: 0, cap: 0 } }
}

extern "C" fn worker_cb(data: *mut c_void) -> *mut c_void {
    (data as usize + 1) as *mut c_void
}

extern "C" fn var_name_cb(data: *mut c_void, name: *const c_char, len: usize) -> *mut c_void {
    let out = unsafe { &mut *(data as *mut String) };
    *out = String::from_utf8_lossy(unsafe { std::slice::from_raw_parts(name.cast::<u8>(), len) }).into_owned();
    len as *mut c_void
}

unsafe extern "C" {
    fn free(p: *mut c_void);
}

impl<K: CKind> Core<K> {
    /// log + compare a scalar answer of the C API with the mirrored one + post checks
    fn scalar<T: PartialEq + std::fmt::Debug>(&mut self, ctx: &mut Ctx, name: &str, args: &str, got: T, exp: T) {
        if self.failed {
            return;
        }
        self.log(format!("{}({args}) -> {got:?}", self.cname(name)));
        if got != exp {
            self.viol(ctx, name, "query_mismatch", &format!("C API returns {got:?}, expected (Rust API / documentation) {exp:?}"));
        }
        self.post(ctx, name);
    }

    /// same for the kind-independent entry points
    fn util_scalar<T: PartialEq + std::fmt::Debug>(&mut self, ctx: &mut Ctx, name: &str, got: T, exp: T) {
        if self.failed {
            return;
        }
        self.log(format!("{name}(..) -> {got:?}"));
        if got != exp {
            self.failed = true;
            let calls = self.trace.join("; ");
            ctx.viol(
                attrs(&[("kind", K::NAME), ("op", name), ("class", "query_mismatch")]),
                self.case(),
                &format!("{name}: C API returns {got:?}, expected {exp:?} [calls: {calls}]"),
            );
        }
        self.calls += 1;
        ctx.count("transitions", 1);
    }

    /// call + release
    fn fr(&mut self, ctx: &mut Ctx, op: &Op, args: &[&Val<K>]) {
        let r = self.fcall(ctx, op, args);
        self.release(ctx, r);
    }

    /// compare the tables of all owned handles given as pairs (sanity after manager-level calls)
    fn recheck(&mut self, ctx: &mut Ctx, name: &str, vals: &[&Val<K>]) {
        for v in vals {
            if self.failed {
                return;
            }
            if let Some(t) = &v.t {
                let ct = self.ctable(v.c);
                let tt = K::table(t);
                if ct != tt || ct.is_err() {
                    self.viol(ctx, name, "wrong_value", &format!("after the call handle {} has table {ct:x?}, its twin {tt:x?}", self.hname(v.c)));
                }
            }
        }
    }
}

fn take_err(e: CError) -> String {
    let s = unsafe { e.msg.to_string() };
    unsafe { oxidd_error_free(e) };
    s
}

pub fn sweep<K: CKind>(ctx: &mut Ctx, st: &mut St<K>) {
    ctx.count("sweeps", 1);
    let api = K::api();
    let cm = st.core.cm;
    let x = st.src(S(0));
    let y = st.src(S(1));
    let z = st.src(S(2));
    let inv = Val::<K>::invalid();
    let va = if x.valid() { st.core.fcall(ctx, &Op::Ref, &[&x]) } else { st.core.fcall(ctx, &Op::Var(0), &[]) };
    let vb = if y.valid() { st.core.fcall(ctx, &Op::Ref, &[&y]) } else { st.core.fcall(ctx, &Op::Var(1), &[]) };
    if st.core.failed {
        return;
    }
    let view = unsafe { K::mview(cm.p) };
    let n0 = NV;

    // ---- A: manager getters -------------------------------------------------
    {
        let core = &mut st.core;
        let (vn, vnamed, vgc, vnv) = view.with_manager_shared(|m| (m.num_inner_nodes(), m.num_named_vars(), m.gc_count(), m.num_vars()));
        core.scalar(ctx, "manager_num_inner_nodes", "m", unsafe { (api.manager_num_inner_nodes)(cm) }, vn);
        let approx = unsafe { (api.manager_approx_num_inner_nodes)(cm) };
        core.log(format!("{}(m) -> {approx}", core.cname("manager_approx_num_inner_nodes")));
        core.post(ctx, "manager_approx_num_inner_nodes");
        core.scalar(ctx, "manager_num_vars", "m", unsafe { (api.manager_num_vars)(cm) }, vnv);
        let tnv = core.tm.with_manager_shared(|m| m.num_vars());
        core.scalar(ctx, "manager_num_vars", "m", unsafe { (api.manager_num_vars)(cm) }, tnv);
        core.scalar(ctx, "manager_num_named_vars", "m", unsafe { (api.manager_num_named_vars)(cm) }, vnamed);
        core.scalar(ctx, "manager_gc_count", "m", unsafe { (api.manager_gc_count)(cm) }, vgc);
        for v in 0..n0 {
            let tl = core.tm.with_manager_shared(|m| m.var_to_level(v));
            core.scalar(ctx, "manager_var_to_level", &format!("m, {v}"), unsafe { (api.manager_var_to_level)(cm, v) }, tl);
            let tv = core.tm.with_manager_shared(|m| m.level_to_var(v));
            core.scalar(ctx, "manager_level_to_var", &format!("m, {v}"), unsafe { (api.manager_level_to_var)(cm, v) }, tv);
        }
    }

    // ---- B: every function-valued entry point --------------------------------
    {
        let core = &mut st.core;
        for v in 0..n0 {
            core.fr(ctx, &Op::Var(v), &[]);
            core.fr(ctx, &Op::NotVar(v), &[]);
        }
        core.fr(ctx, &Op::False, &[]);
        core.fr(ctx, &Op::True, &[]);
        core.fr(ctx, &Op::Not, &[&x]);
        core.fr(ctx, &Op::Not, &[&inv]);
        for b in BINOPS {
            core.fr(ctx, &Op::Bin(b), &[&x, &y]);
            core.fr(ctx, &Op::Bin(b), &[&va, &vb]);
            core.fr(ctx, &Op::Bin(b), &[&va, &va]);
        }
        core.fr(ctx, &Op::Bin(BinOp::And), &[&x, &inv]);
        core.fr(ctx, &Op::Bin(BinOp::Xor), &[&inv, &vb]);
        core.fr(ctx, &Op::Ite, &[&x, &y, &z]);
        core.fr(ctx, &Op::Ite, &[&va, &vb, &va]);
        core.fr(ctx, &Op::Ite, &[&va, &vb, &inv]);
        for f in [&x, &va, &vb, &inv] {
            core.fr(ctx, &Op::CofT, &[f]);
            core.fr(ctx, &Op::CofF, &[f]);
            core.fr(ctx, &Op::PickDD, &[f]);
        }
        let lit = core.fcall(ctx, &Op::NotVar(0), &[]);
        core.fr(ctx, &Op::PickDDSet, &[&va, &lit]);
        core.fr(ctx, &Op::PickDDSet, &[&x, &lit]);
        {
            // positive literals, on a function with a free choice for every variable
            let pos = core.cube(ctx, 0b110);
            let tt = core.fcall(ctx, &Op::True, &[]);
            core.fr(ctx, &Op::PickDDSet, &[&tt, &pos]);
            core.fr(ctx, &Op::PickDDSet, &[&vb, &pos]);
            core.fr(ctx, &Op::PickDDSet, &[&x, &pos]);
            core.release(ctx, tt);
            core.release(ctx, pos);
        }
        core.fr(ctx, &Op::PickDDSet, &[&vb, &inv]);
        core.fr(ctx, &Op::Ref, &[&va]);
        core.fr(ctx, &Op::Ref, &[&inv]);
        if K::ZB {
            for v in 0..n0 {
                core.fr(ctx, &Op::Singleton(v), &[]);
                for f in [&x, &va, &vb] {
                    core.fr(ctx, &Op::Subset0(v), &[f]);
                    core.fr(ctx, &Op::Subset1(v), &[f]);
                    core.fr(ctx, &Op::Change(v), &[f]);
                }
            }
            core.fr(ctx, &Op::Subset0(1), &[&inv]);
            core.fr(ctx, &Op::Subset1(1), &[&inv]);
            core.fr(ctx, &Op::Change(1), &[&inv]);
            core.fr(ctx, &Op::Empty, &[]);
            core.fr(ctx, &Op::Base, &[]);
            for op in [Op::Union, Op::Intsec, Op::Diff] {
                core.fr(ctx, &op, &[&x, &y]);
                core.fr(ctx, &op, &[&va, &vb]);
                core.fr(ctx, &op, &[&va, &inv]);
                core.fr(ctx, &op, &[&inv, &vb]);
            }
            // make_node(singleton(0), hi = base, lo = singleton(2)): consumes hi and lo
            let sv = core.fcall(ctx, &Op::Singleton(0), &[]);
            let hi = core.fcall(ctx, &Op::Base, &[]);
            let lo = core.fcall(ctx, &Op::Singleton(2), &[]);
            if !core.failed {
                let r = core.fcall(ctx, &Op::MakeNode, &[&sv, &hi, &lo]);
                core.release(ctx, r);
            }
            drop(hi.t);
            drop(lo.t);
            core.release(ctx, sv);
        } else {
            let c1 = core.cube(ctx, 0b010);
            let c2 = core.cube(ctx, 0b011);
            for f in [&x, &va, &inv] {
                core.fr(ctx, &Op::Restrict, &[f, &lit]);
                core.fr(ctx, &Op::Forall, &[f, &c1]);
                core.fr(ctx, &Op::Exists, &[f, &c2]);
                core.fr(ctx, &Op::Unique, &[f, &c1]);
            }
            core.fr(ctx, &Op::Exists, &[&va, &inv]);
            core.fr(ctx, &Op::ApplyForall(BooleanOperator::Or), &[&x, &y, &c1]);
            core.fr(ctx, &Op::ApplyExists(BooleanOperator::And), &[&va, &vb, &c2]);
            core.fr(ctx, &Op::ApplyUnique(BooleanOperator::Xor), &[&x, &y, &c1]);
            core.fr(ctx, &Op::ApplyForall(BooleanOperator::Imp), &[&va, &vb, &c1]);
            core.fr(ctx, &Op::ApplyExists(BooleanOperator::Nand), &[&va, &inv, &c1]);
            core.fr(ctx, &Op::ApplyUnique(BooleanOperator::Equiv), &[&va, &vb, &c2]);
            core.fr(ctx, &Op::ApplyUnique(BooleanOperator::ImpStrict), &[&inv, &vb, &c2]);
            core.fr(ctx, &Op::ApplyExists(BooleanOperator::Nor), &[&va, &vb, &inv]);
            core.release(ctx, c1);
            core.release(ctx, c2);
        }
        core.release(ctx, lit);
    }
    if !K::ZB {
        for f in [&x, &va, &inv] {
            let r = st.substitute(ctx, f, &[(0, &va), (2, &vb)]);
            st.core.release(ctx, r);
        }
        let r = st.substitute(ctx, &va, &[]);
        st.core.release(ctx, r);
        let q = K::quant().unwrap();
        let core = &mut st.core;
        if !core.failed {
            // NULL substitution => INVALID
            let c = unsafe { (q.substitute)(va.c, std::ptr::null()) };
            core.adopt(c);
            core.log(format!("{} = {}({}, NULL)", core.hname(c), core.cname("substitute"), core.hname(va.c)));
            if c.valid() {
                core.viol(ctx, "substitute", "invalid_in_valid_out", "NULL substitution but the result is valid");
            }
            core.post(ctx, "substitute");
            unsafe { (q.substitution_free)(std::ptr::null_mut()) };
            core.log(format!("{}(NULL)", core.cname("substitution_free")));
            core.post(ctx, "substitution_free");
        }
    }
    {
        let (a, b) = st.cofactors(ctx, &y);
        st.core.release(ctx, a);
        st.core.release(ctx, b);
        let (a, b) = st.cofactors(ctx, &va);
        st.core.release(ctx, a);
        st.core.release(ctx, b);
        let (a, b) = st.cofactors(ctx, &inv);
        st.core.release(ctx, a);
        st.core.release(ctx, b);
    }

    // ---- C: queries, ref counting entry points --------------------------------
    let f0 = st.core.fcall(ctx, &Op::False, &[]);
    for f in [&va, &vb, &f0] {
        if st.core.failed {
            break;
        }
        st.queries(ctx, f, true);
        st.pick_cube(ctx, f);
        // sat_count with the Natural result + the oxidd_natural_* / oxidd_string_* helpers
        let core = &mut st.core;
        if core.failed {
            break;
        }
        let t = f.t.as_ref().unwrap();
        let nat = unsafe { (api.sat_count)(f.c, n0) };
        let exp = t.sat_count::<Natural, FxBuild>(n0, &mut SatCountCache::default()).to_string();
        let s = unsafe { oxidd_natural_to_string(&nat) };
        let got = unsafe { s.to_string() };
        core.scalar(ctx, "sat_count", &format!("{}, {n0}", core.hname(f.c)), got.clone(), exp);
        let nat2 = unsafe { oxidd_natural_clone(&nat) };
        core.util_scalar(ctx, "oxidd_natural_eq", unsafe { oxidd_natural_eq(&nat, &nat2) }, true);
        // mirrored Rust call first: where `Natural::partial_cmp` itself panics (debug
        // overflow check) the extern "C" wrapper would abort the process in the same way
        let tnat = t.sat_count::<Natural, FxBuild>(n0, &mut SatCountCache::default());
        let tcmp = std::panic::catch_unwind(|| tnat.partial_cmp(&tnat.clone()));
        match tcmp {
            Ok(o) => {
                let exp: i8 = match o {
                    Some(std::cmp::Ordering::Less) => -1,
                    Some(std::cmp::Ordering::Equal) => 0,
                    Some(std::cmp::Ordering::Greater) => 1,
                    None => -128,
                };
                core.util_scalar(ctx, "oxidd_natural_cmp", unsafe { oxidd_natural_cmp(&nat, &nat2) }, exp);
            }
            Err(_) => {
                let _ = crate::proto::take_panic();
                ctx.outcome("rust_api_panics:Natural::partial_cmp");
            }
        }
        let s2 = unsafe { oxidd_string_clone(&s) };
        core.util_scalar(ctx, "oxidd_string_clone", unsafe { s2.to_string() }, got);
        let s3 = unsafe { oxidd_natural_to_string(&nat2) };
        core.util_scalar(ctx, "oxidd_natural_to_string", unsafe { s3.to_string() }, unsafe { s.to_string() });
        unsafe {
            oxidd_string_free(s);
            oxidd_string_free(s2);
            oxidd_string_free(s3);
            oxidd_natural_free(nat);
            oxidd_natural_free(nat2);
        }
        core.log("oxidd_string_free x3, oxidd_natural_free x2".into());
        core.post(ctx, "sat_count");
    }
    st.core.release(ctx, f0);
    {
        let core = &mut st.core;
        core.scalar(ctx, "node_level", "INVALID", unsafe { (api.node_level)(CFn::INVALID) }, u32::MAX);
        core.scalar(ctx, "node_var", "INVALID", unsafe { (api.node_var)(CFn::INVALID) }, u32::MAX);
    }
    st.containing(ctx, &va);
    st.manager_unref(ctx);
    st.manager_ref(ctx);
    st.manager_unref(ctx);
    st.unref_invalid(ctx);
    {
        let core = &mut st.core;
        if !core.failed {
            let r = unsafe { (api.manager_ref)(CMgr { p: std::ptr::null() }) };
            core.scalar(ctx, "manager_ref", "NULL", r.p.is_null(), true);
            unsafe { (api.manager_unref)(CMgr { p: std::ptr::null() }) };
            core.log(format!("{}(NULL)", core.cname("manager_unref")));
            core.post(ctx, "manager_unref");
        }
    }

    // ---- D: worker pool, statistics --------------------------------------------
    {
        let core = &mut st.core;
        if !core.failed {
            let r = unsafe { (api.manager_run_in_worker_pool)(cm, worker_cb, 41usize as *mut c_void) };
            core.scalar(ctx, "manager_run_in_worker_pool", "m, cb, 41", r as usize, 42usize);
            unsafe { (api.print_stats)() };
            core.log(format!("{}()", core.cname("print_stats")));
            core.post(ctx, "print_stats");
        }
    }

    // ---- E: DDDMP / DOT export, import, visualize -------------------------------
    sweep_files(ctx, st, &va, &vb);

    // ---- F: variables and names ---------------------------------------------------
    sweep_vars(ctx, st, &va, &vb);

    // ---- G: release everything, reorder on the empty manager --------------------
    st.core.release(ctx, va);
    st.core.release(ctx, vb);
    drop((x, y, z));
    for v in std::mem::replace(&mut st.slots, vec![Val::invalid(), Val::invalid(), Val::invalid()]) {
        st.core.release(ctx, v);
    }
    let core = &mut st.core;
    if core.failed {
        return;
    }
    let removed = unsafe { (api.manager_gc)(cm) };
    let tremoved = core.tm.with_manager_shared(|m| m.gc());
    core.scalar(ctx, "manager_gc", "m", removed, tremoved);
    if core.failed {
        return;
    }
    let n = view.with_manager_shared(|m| m.num_vars());
    // no function handle is live here (ZBDD: only the manager's own tautology chain)
    let order: Vec<u32> = [5u32, 2, 0, 4, 1, 3].into_iter().filter(|v| *v < n).collect();
    unsafe { (api.manager_set_var_order)(cm, std::ptr::null(), 0) };
    unsafe { (api.manager_set_var_order)(cm, order.as_ptr(), 1) };
    core.log(format!("{}(m, NULL, 0); {}(m, order, 1)", core.cname("manager_set_var_order"), core.cname("manager_set_var_order")));
    core.post(ctx, "manager_set_var_order");
    unsafe { (api.manager_set_var_order)(cm, order.as_ptr(), order.len()) };
    K::set_order(&core.tm, &order);
    core.log(format!("{}(m, {order:?}, {})", core.cname("manager_set_var_order"), order.len()));
    core.post(ctx, "manager_set_var_order");
    for (l, &v) in order.iter().enumerate() {
        core.scalar(ctx, "manager_level_to_var", &format!("m, {l}"), unsafe { (api.manager_level_to_var)(cm, l as u32) }, v);
        core.scalar(ctx, "manager_var_to_level", &format!("m, {v}"), unsafe { (api.manager_var_to_level)(cm, v) }, l as u32);
    }
    // functions built after reordering agree with the twin
    let a = core.fcall(ctx, &Op::Var(0), &[]);
    let b = core.fcall(ctx, &Op::NotVar(n - 1), &[]);
    let c = core.fcall(ctx, &Op::Bin(BinOp::Or), &[&a, &b]);
    let d = core.fcall(ctx, &Op::Ite, &[&c, &a, &b]);
    for v in [a, b, c, d] {
        core.release(ctx, v);
    }
}

fn sweep_files<K: CKind>(ctx: &mut Ctx, st: &mut St<K>, va: &Val<K>, vb: &Val<K>) {
    let api = K::api();
    let core = &mut st.core;
    if core.failed {
        return;
    }
    let cm = core.cm;
    let fns = [va.c, vb.c];
    let tfns = [va.t.as_ref().unwrap(), vb.t.as_ref().unwrap()];
    let names_c = [CString::new("f").unwrap(), CString::new("g").unwrap()];
    let name_ptrs = [names_c[0].as_ptr(), names_c[1].as_ptr()];
    let settings = CExportSettings { version: 0, ascii: true, strict: false, diagram_name: CStrT::of("c19") };
    let fnames = format!("[{}, {}]", core.hname(va.c), core.hname(vb.c));

    // helper: check one export against the Rust API export of the twin
    macro_rules! export_check {
        ($name:literal, $call:expr, $tnames:expr, $named:expr) => {{
            if !core.failed {
                let cf = TmpFile::new("c.dddmp");
                let tf = TmpFile::new("t.dddmp");
                let mut err = zero_err();
                let (p, pl) = cf.ptr();
                let ok: bool = $call(p, pl, &mut err as *mut CError);
                let msg = take_err(err);
                let tres = K::t_export(&core.tm, &tf.0, &tfns, $tnames, $named);
                core.log(format!("{}(m, <tmp>, {fnames}, ..) -> {ok} {msg:?}", core.cname($name)));
                if ok != tres.is_ok() {
                    core.viol(ctx, $name, "validity_mismatch", &format!("C export returns {ok} ({msg:?}), the Rust API {tres:?}"));
                } else if ok && cf.bytes() != tf.bytes() {
                    core.viol(ctx, $name, "wrong_value", &format!("exported file differs from the Rust API export of the twin:\n{}\nvs\n{}", String::from_utf8_lossy(&cf.bytes()), String::from_utf8_lossy(&tf.bytes())));
                }
                core.post(ctx, $name);
            }
        }};
    }
    export_check!(
        "manager_export_dddmp",
        |p, pl, e| unsafe { (api.manager_export_dddmp)(cm, p, pl, fns.as_ptr(), 2, std::ptr::null(), std::ptr::null(), e) },
        None,
        false
    );
    export_check!(
        "manager_export_dddmp",
        |p, pl, e| unsafe { (api.manager_export_dddmp)(cm, p, pl, fns.as_ptr(), 2, name_ptrs.as_ptr(), &settings, e) },
        Some(&["f", "g"][..]),
        true
    );
    {
        let mut it = VecIterCtx::new(fns.to_vec());
        export_check!(
            "manager_export_dddmp_iter",
            |p, pl, e| unsafe { (api.manager_export_dddmp_iter)(cm, p, pl, it.iter(true), std::ptr::null(), e) },
            None,
            false
        );
    }
    {
        let mut it = VecIterCtx::new(vec![CNamed { func: fns[0], name: CStrT::of("f") }, CNamed { func: fns[1], name: CStrT::of("g") }]);
        export_check!(
            "manager_export_dddmp_with_names_iter",
            |p, pl, e| unsafe { (api.manager_export_dddmp_with_names_iter)(cm, p, pl, it.iter(false), &settings, e) },
            Some(&["f", "g"][..]),
            true
        );
    }
    // an INVALID function among the exported ones: error, no crash
    if !core.failed {
        let cf = TmpFile::new("inv.dddmp");
        let (p, pl) = cf.ptr();
        let with_inv = [va.c, CFn::INVALID];
        let mut err = zero_err();
        let ok = unsafe { (api.manager_export_dddmp)(cm, p, pl, with_inv.as_ptr(), 2, std::ptr::null(), std::ptr::null(), &mut err) };
        let err2 = unsafe { oxidd_error_clone(&err) };
        let (m1, m2) = (take_err(err), take_err(err2));
        core.scalar(ctx, "manager_export_dddmp", "m, <tmp>, [h, INVALID], ..", (ok, m1.clone()), (false, "function 1 is invalid".to_string()));
        core.util_scalar(ctx, "oxidd_error_clone", m2, m1);
        let mut it = VecIterCtx::new(vec![CFn::INVALID, vb.c]);
        let mut err = zero_err();
        let ok = unsafe { (api.manager_export_dddmp_iter)(cm, p, pl, it.iter(true), std::ptr::null(), &mut err) };
        core.scalar(ctx, "manager_export_dddmp_iter", "m, <tmp>, [INVALID, h], ..", (ok, take_err(err)), (false, "function 0 is invalid".to_string()));
        let mut it = VecIterCtx::new(vec![CNamed { func: va.c, name: CStrT::of("f") }, CNamed { func: CFn::INVALID, name: CStrT::of("g") }]);
        let ok = unsafe { (api.manager_export_dddmp_with_names_iter)(cm, p, pl, it.iter(true), std::ptr::null(), std::ptr::null_mut()) };
        core.scalar(ctx, "manager_export_dddmp_with_names_iter", "m, <tmp>, [h, INVALID], NULL, NULL", ok, false);
        // named export with the INVALID handle in the middle: the call fails, but what it wrote is the
        // export of the valid functions under THEIR names
        let cf3 = TmpFile::new("inv3.dddmp");
        let tf3 = TmpFile::new("inv3t.dddmp");
        let (p3, pl3) = cf3.ptr();
        let three = [va.c, CFn::INVALID, vb.c];
        let n3 = [CString::new("a").unwrap(), CString::new("b").unwrap(), CString::new("c").unwrap()];
        let n3p = [n3[0].as_ptr(), n3[1].as_ptr(), n3[2].as_ptr()];
        let mut err = zero_err();
        let ok = unsafe { (api.manager_export_dddmp)(cm, p3, pl3, three.as_ptr(), 3, n3p.as_ptr(), &settings, &mut err) };
        core.scalar(ctx, "manager_export_dddmp", "m, <tmp>, [h, INVALID, h'], [a, b, c], settings", (ok, take_err(err)), (false, "function 1 'b' is invalid".to_string()));
        if !core.failed {
            let tres = K::t_export(&core.tm, &tf3.0, &tfns, Some(&["a", "c"][..]), true);
            if tres.is_ok() && cf3.bytes() != tf3.bytes() {
                core.viol(ctx, "manager_export_dddmp", "wrong_value", &format!("named export of [h, INVALID, h'] as [a, b, c]: the file differs from the Rust API export of (h, a), (h', c):\n{}\nvs\n{}", String::from_utf8_lossy(&cf3.bytes()), String::from_utf8_lossy(&tf3.bytes())));
            }
            core.post(ctx, "manager_export_dddmp");
        }
    }

    // export, open, header getters, import (C and twin import the same file)
    if !core.failed {
        let cf = TmpFile::new("imp.dddmp");
        let (p, pl) = cf.ptr();
        let mut err = zero_err();
        let ok = unsafe { (api.manager_export_dddmp)(cm, p, pl, fns.as_ptr(), 2, name_ptrs.as_ptr(), &settings, &mut err) };
        core.scalar(ctx, "manager_export_dddmp", &format!("m, <tmp>, {fnames}, [f, g], settings"), (ok, take_err(err)), (true, String::new()));
        let mut err = zero_err();
        let file = unsafe { oxidd_dddmp_open(p, pl, &mut err) };
        core.util_scalar(ctx, "oxidd_dddmp_open", (!file.is_null(), take_err(err)), (true, String::new()));
        let header = std::fs::File::open(&cf.0).and_then(|f| DumpHeader::load(std::io::BufReader::new(f)));
        if let (false, Ok(h)) = (file.is_null() || core.failed, &header) {
            unsafe {
                core.util_scalar(ctx, "oxidd_dddmp_diagram_name", oxidd_dddmp_diagram_name(file).to_string(), h.diagram_name().unwrap_or_default().to_string());
                core.util_scalar(ctx, "oxidd_dddmp_num_nodes", oxidd_dddmp_num_nodes(file), h.num_nodes());
                core.util_scalar(ctx, "oxidd_dddmp_num_vars", oxidd_dddmp_num_vars(file), h.num_vars());
                core.util_scalar(ctx, "oxidd_dddmp_num_support_vars", oxidd_dddmp_num_support_vars(file), h.num_support_vars());
                core.util_scalar(ctx, "oxidd_dddmp_support_vars", oxidd_dddmp_support_vars(file).to_vec(), h.support_vars().to_vec());
                core.util_scalar(ctx, "oxidd_dddmp_support_var_order", oxidd_dddmp_support_var_order(file).to_vec(), h.support_var_order().to_vec());
                core.util_scalar(ctx, "oxidd_dddmp_support_var_to_level", oxidd_dddmp_support_var_to_level(file).to_vec(), h.support_var_to_level().to_vec());
                core.util_scalar(ctx, "oxidd_dddmp_has_var_names", oxidd_dddmp_has_var_names(file), h.var_names().is_some());
                for i in 0..h.num_vars() {
                    let exp = h.var_names().map(|s| s[i as usize].clone()).unwrap_or_default();
                    core.util_scalar(ctx, "oxidd_dddmp_var_name", oxidd_dddmp_var_name(file, i).to_string(), exp);
                }
                core.util_scalar(ctx, "oxidd_dddmp_num_roots", oxidd_dddmp_num_roots(file), h.num_roots());
                core.util_scalar(ctx, "oxidd_dddmp_has_root_names", oxidd_dddmp_has_root_names(file), h.root_names().is_some());
                for i in 0..h.num_roots() {
                    let exp = h.root_names().map(|s| s[i].clone()).unwrap_or_default();
                    core.util_scalar(ctx, "oxidd_dddmp_root_name", oxidd_dddmp_root_name(file, i).to_string(), exp);
                }
            }
            if !core.failed {
                let nroots = h.num_roots();
                let mut roots = vec![CFn::INVALID; nroots];
                let mut err = zero_err();
                let ok = unsafe { (api.manager_import_dddmp)(cm, file, std::ptr::null(), roots.as_mut_ptr(), &mut err) };
                let msg = take_err(err);
                let timp = K::t_import(&core.tm, &cf.0);
                core.log(format!("{}(m, file, NULL, roots, &err) -> {ok} {msg:?}", core.cname("manager_import_dddmp")));
                match (ok, timp) {
                    (true, Ok(tr)) => {
                        // the imported roots are new references owned by the caller
                        let mut vals: Vec<Val<K>> = vec![];
                        for (i, r) in roots.iter().enumerate() {
                            core.adopt(*r);
                            let t = tr.get(i).cloned();
                            if !r.valid() {
                                core.viol(ctx, "manager_import_dddmp", "validity_mismatch", &format!("import reports success but root {i} is INVALID"));
                            } else if !core.failed {
                                core.compare(ctx, "manager_import_dddmp", *r, &t, false);
                                // round trip: same function as the exported one
                                let orig = K::table(tfns[i.min(1)]);
                                if !core.failed && core.ctable(*r) != orig {
                                    core.viol(ctx, "manager_import_dddmp", "wrong_value", &format!("imported root {i} has table {:x?}, the exported function {orig:x?}", core.ctable(*r)));
                                }
                            }
                            vals.push(Val { c: *r, t });
                        }
                        core.post(ctx, "manager_import_dddmp");
                        for v in vals {
                            core.release(ctx, v);
                        }
                    }
                    (false, Err(_)) => {
                        ctx.outcome("import_rejected_by_both");
                        core.post(ctx, "manager_import_dddmp");
                    }
                    (ok, timp) => {
                        core.viol(ctx, "manager_import_dddmp", "validity_mismatch", &format!("C import returns {ok} ({msg:?}), the Rust API import of the same file {:?}", timp.map(|v| v.len())));
                    }
                }
            }
        } else if !core.failed {
            core.viol(ctx, "manager_export_dddmp", "wrong_value", &format!("the exported file cannot be opened / its header cannot be loaded: {:?}", header.err()));
        }
        if !file.is_null() {
            unsafe { oxidd_dddmp_close(file) };
        }
        unsafe { oxidd_dddmp_close(std::ptr::null_mut()) };
        core.log("oxidd_dddmp_close(file); oxidd_dddmp_close(NULL)".into());
        core.post(ctx, "manager_import_dddmp");
        // a file that does not exist
        let missing = TmpFile::new("missing.dddmp");
        let (p, pl) = missing.ptr();
        let mut err = zero_err();
        let f = unsafe { oxidd_dddmp_open(p, pl, &mut err) };
        let msg = take_err(err);
        core.util_scalar(ctx, "oxidd_dddmp_open", (f.is_null(), !msg.is_empty()), (true, true));
    }

    // DOT
    if !core.failed {
        let cf = TmpFile::new("c.dot");
        let (p, pl) = cf.ptr();
        let mut err = zero_err();
        let ok = unsafe { (api.manager_dump_all_dot_path)(cm, p, pl, fns.as_ptr(), name_ptrs.as_ptr(), 2, &mut err) };
        let good = cf.bytes().starts_with(b"digraph");
        core.scalar(ctx, "manager_dump_all_dot_path", &format!("m, <tmp>, {fnames}, [f, g], 2"), (ok, take_err(err), good), (true, String::new(), true));
        let with_inv = [va.c, CFn::INVALID];
        let ok = unsafe { (api.manager_dump_all_dot_path)(cm, p, pl, with_inv.as_ptr(), name_ptrs.as_ptr(), 2, std::ptr::null_mut()) };
        core.scalar(ctx, "manager_dump_all_dot_path", "m, <tmp>, [h, INVALID], [f, g], 2, NULL", ok, true);
        let ok = unsafe { (api.manager_dump_all_dot_path)(cm, p, pl, std::ptr::null(), std::ptr::null(), 0, std::ptr::null_mut()) };
        core.scalar(ctx, "manager_dump_all_dot_path", "m, <tmp>, NULL, NULL, 0, NULL", ok, true);
        let mut it = VecIterCtx::new(vec![
            CNamed { func: fns[0], name: CStrT::of("f") },
            CNamed { func: CFn::INVALID, name: CStrT::of("i") },
            CNamed { func: fns[1], name: CStrT::of("g") },
        ]);
        let mut err = zero_err();
        let ok = unsafe { (api.manager_dump_all_dot_path_iter)(cm, p, pl, it.iter(true), &mut err) };
        let good = cf.bytes().starts_with(b"digraph");
        core.scalar(ctx, "manager_dump_all_dot_path_iter", &format!("m, <tmp>, {fnames}+INVALID"), (ok, take_err(err), good, it.yielded), (true, String::new(), true, 3));
    }

    // visualize: the port is occupied, so the functions are added to the
    // visualizer and serving fails
    if !core.failed {
        match hold_port() {
            None => ctx.outcome("no_tcp_port_for_visualize"),
            Some(hold) => {
                let dn = "c19";
                let mut err = zero_err();
                let ok = unsafe { (api.manager_visualize)(cm, dn.as_ptr().cast(), dn.len(), fns.as_ptr(), 2, name_ptrs.as_ptr(), hold.port, &mut err) };
                let msg = take_err(err);
                core.scalar(ctx, "manager_visualize", &format!("m, c19, {fnames}, [f, g], <occupied port>"), (ok, msg.is_empty()), (false, false));
                let with_inv = [va.c, CFn::INVALID];
                let ok = unsafe { (api.manager_visualize)(cm, dn.as_ptr().cast(), dn.len(), with_inv.as_ptr(), 2, std::ptr::null(), hold.port, std::ptr::null_mut()) };
                core.scalar(ctx, "manager_visualize", "m, c19, [h, INVALID], NULL, <occupied port>, NULL", ok, false);
                let mut it = VecIterCtx::new(vec![fns[0], CFn::INVALID, fns[1]]);
                let mut err = zero_err();
                let ok = unsafe { (api.manager_visualize_iter)(cm, dn.as_ptr().cast(), dn.len(), it.iter(true), hold.port, &mut err) };
                let msg = take_err(err);
                core.scalar(ctx, "manager_visualize_iter", &format!("m, c19, {fnames}+INVALID, <occupied port>"), (ok, msg.is_empty(), it.yielded), (false, false, 3));
                let mut it = VecIterCtx::new(vec![CNamed { func: fns[0], name: CStrT::of("f") }, CNamed { func: fns[1], name: CStrT::of("g") }]);
                let mut err = zero_err();
                let ok = unsafe { (api.manager_visualize_with_names_iter)(cm, dn.as_ptr().cast(), dn.len(), it.iter(false), hold.port, &mut err) };
                let msg = take_err(err);
                core.scalar(ctx, "manager_visualize_with_names_iter", &format!("m, c19, {fnames}, <occupied port>"), (ok, msg.is_empty(), it.yielded), (false, false, 2));
            }
        }
    }
}

fn sweep_vars<K: CKind>(ctx: &mut Ctx, st: &mut St<K>, va: &Val<K>, vb: &Val<K>) {
    let api = K::api();
    let core = &mut st.core;
    if core.failed {
        return;
    }
    let cm = core.cm;
    const MAXV: u32 = u32::MAX;
    let set_name = |core: &mut Core<K>, ctx: &mut Ctx, var: u32, name: &str| {
        let got = unsafe { (api.manager_set_var_name)(cm, var, name.as_ptr().cast(), name.len()) };
        let exp = core.tm.with_manager_exclusive(|m| match m.set_var_name(var, name) {
            Ok(()) => MAXV,
            Err(e) => e.present_var,
        });
        core.scalar(ctx, "manager_set_var_name", &format!("m, {var}, {name:?}"), got, exp);
    };
    let lookup = |core: &mut Core<K>, ctx: &mut Ctx, name: &str| {
        let got = unsafe { (api.manager_name_to_var)(cm, name.as_ptr().cast(), name.len()) };
        let exp = core.tm.with_manager_shared(|m| m.name_to_var(name)).unwrap_or(MAXV);
        core.scalar(ctx, "manager_name_to_var", &format!("m, {name:?}"), got, exp);
    };
    let get_name = |core: &mut Core<K>, ctx: &mut Ctx, var: u32| {
        if core.failed {
            return;
        }
        let mut len = usize::MAX;
        let p = unsafe { (api.manager_var_name)(cm, var, &mut len) };
        let got = if p.is_null() { String::new() } else { unsafe { std::ffi::CStr::from_ptr(p) }.to_string_lossy().into_owned() };
        if !p.is_null() {
            unsafe { free(p as *mut c_void) };
        }
        let exp = core.tm.with_manager_shared(|m| m.var_name(var).to_string());
        core.scalar(ctx, "manager_var_name", &format!("m, {var}, &len"), (got.clone(), len, p.is_null()), (exp.clone(), exp.len(), exp.is_empty()));
        let p = unsafe { (api.manager_var_name)(cm, var, std::ptr::null_mut()) };
        if !p.is_null() {
            unsafe { free(p as *mut c_void) };
        }
        core.scalar(ctx, "manager_var_name", &format!("m, {var}, NULL"), p.is_null(), exp.is_empty());
        let mut out = String::from("<not called>");
        let r = unsafe { (api.manager_with_var_name)(cm, var, var_name_cb, (&mut out as *mut String).cast()) };
        core.scalar(ctx, "manager_with_var_name", &format!("m, {var}, cb"), (out, r as usize), (exp.clone(), exp.len()));
    };
    let counts = |core: &mut Core<K>, ctx: &mut Ctx| {
        let (nv, nn) = core.tm.with_manager_shared(|m| (m.num_vars(), m.num_named_vars()));
        core.scalar(ctx, "manager_num_vars", "m", unsafe { (api.manager_num_vars)(cm) }, nv);
        core.scalar(ctx, "manager_num_named_vars", "m", unsafe { (api.manager_num_named_vars)(cm) }, nn);
    };
    let dup = |r: Result<std::ops::Range<u32>, oxidd::error::DuplicateVarName>| match r {
        Ok(r) => CDupName { added_vars: CVarRange { start: r.start, end: r.end }, present_var: MAXV },
        Err(e) => CDupName { added_vars: CVarRange { start: e.added_vars.start, end: e.added_vars.end }, present_var: e.present_var },
    };

    set_name(core, ctx, 0, "a");
    // the same name for the same variable again (no clash with itself), then a genuine clash
    set_name(core, ctx, 0, "a");
    set_name(core, ctx, 1, "a");
    set_name(core, ctx, 2, "");
    // rename and name it back, un-name twice
    set_name(core, ctx, 0, "b");
    set_name(core, ctx, 0, "a");
    set_name(core, ctx, 2, "");
    lookup(core, ctx, "a");
    lookup(core, ctx, "zz");
    lookup(core, ctx, "");
    if !core.failed {
        let got = unsafe { (api.manager_name_to_var)(cm, std::ptr::null(), 0) };
        core.scalar(ctx, "manager_name_to_var", "m, NULL, 0", got, MAXV);
    }
    get_name(core, ctx, 0);
    get_name(core, ctx, 1);
    counts(core, ctx);

    // add_vars(1): 3 -> 4
    if !core.failed {
        let r = unsafe { (api.manager_add_vars)(cm, 1) };
        let tr = core.tm.with_manager_exclusive(|m| m.add_vars(1));
        core.scalar(ctx, "manager_add_vars", "m, 1", (r.start, r.end), (tr.start, tr.end));
        core.recheck(ctx, "manager_add_vars", &[va, vb]);
    }
    // add_named_vars(["b"], 1): 4 -> 5; with NULL names: nothing added for count 0
    if !core.failed {
        let b = CString::new("b").unwrap();
        let ptrs = [b.as_ptr()];
        let r = unsafe { (api.manager_add_named_vars)(cm, ptrs.as_ptr(), 1) };
        let tr = dup(core.tm.with_manager_exclusive(|m| m.add_named_vars(["b"])));
        core.scalar(ctx, "manager_add_named_vars", "m, [\"b\"], 1", r, tr);
        let r = unsafe { (api.manager_add_named_vars)(cm, std::ptr::null(), 0) };
        let tr = dup(Ok(core.tm.with_manager_exclusive(|m| m.add_vars(0))));
        core.scalar(ctx, "manager_add_named_vars", "m, NULL, 0", r, tr);
        // duplicate name: nothing added, present_var = 0
        let a = CString::new("a").unwrap();
        let ptrs = [a.as_ptr()];
        let r = unsafe { (api.manager_add_named_vars)(cm, ptrs.as_ptr(), 1) };
        let tr = dup(core.tm.with_manager_exclusive(|m| m.add_named_vars(["a"])));
        core.scalar(ctx, "manager_add_named_vars", "m, [\"a\"], 1", r, tr);
        core.recheck(ctx, "manager_add_named_vars", &[va, vb]);
    }
    // add_named_vars_iter(["c", "a"]): adds "c" (5 -> 6), then reports the duplicate
    if !core.failed {
        let mut it = VecIterCtx::new(vec![CStrT::of("c"), CStrT::of("a")]);
        let r = unsafe { (api.manager_add_named_vars_iter)(cm, it.iter(true)) };
        let tr = dup(core.tm.with_manager_exclusive(|m| m.add_named_vars(["c", "a"])));
        core.scalar(ctx, "manager_add_named_vars_iter", "m, [\"c\", \"a\"]", r, tr);
        core.recheck(ctx, "manager_add_named_vars_iter", &[va, vb]);
    }
    counts(core, ctx);
    lookup(core, ctx, "b");
    lookup(core, ctx, "c");
    get_name(core, ctx, 3);
    get_name(core, ctx, 4);
    get_name(core, ctx, 5);
    if core.failed {
        return;
    }
    let n = core.tm.with_manager_shared(|m| m.num_vars());
    for v in 0..n {
        let tl = core.tm.with_manager_shared(|m| m.var_to_level(v));
        core.scalar(ctx, "manager_var_to_level", &format!("m, {v}"), unsafe { (api.manager_var_to_level)(cm, v) }, tl);
    }
    // functions over the new variables
    let p = core.fcall(ctx, &Op::Var(n - 1), &[]);
    let q = core.fcall(ctx, &Op::Bin(BinOp::And), &[va, &p]);
    let r = core.fcall(ctx, &Op::Bin(BinOp::Xor), &[&q, vb]);
    // export with variable names present, then read the names back from the header
    if !core.failed {
        let cf = TmpFile::new("names.dddmp");
        let (pp, pl) = cf.ptr();
        let fns = [r.c];
        let mut err = zero_err();
        let ok = unsafe { (api.manager_export_dddmp)(cm, pp, pl, fns.as_ptr(), 1, std::ptr::null(), std::ptr::null(), &mut err) };
        core.scalar(ctx, "manager_export_dddmp", &format!("m, <tmp>, [{}], NULL, NULL", core.hname(r.c)), (ok, take_err(err)), (true, String::new()));
        let file = unsafe { oxidd_dddmp_open(pp, pl, std::ptr::null_mut()) };
        let header = std::fs::File::open(&cf.0).and_then(|f| DumpHeader::load(std::io::BufReader::new(f)));
        if let (false, Ok(h)) = (file.is_null(), &header) {
            unsafe {
                core.util_scalar(ctx, "oxidd_dddmp_has_var_names", oxidd_dddmp_has_var_names(file), h.var_names().is_some());
                for i in 0..h.num_vars() {
                    let exp = h.var_names().map(|s| s[i as usize].clone()).unwrap_or_default();
                    core.util_scalar(ctx, "oxidd_dddmp_var_name", oxidd_dddmp_var_name(file, i).to_string(), exp);
                }
                core.util_scalar(ctx, "oxidd_dddmp_has_root_names", oxidd_dddmp_has_root_names(file), h.root_names().is_some());
                core.util_scalar(ctx, "oxidd_dddmp_root_name", oxidd_dddmp_root_name(file, 0).to_string(), h.root_names().map(|s| s[0].clone()).unwrap_or_default());
            }
        } else {
            core.util_scalar(ctx, "oxidd_dddmp_open", (file.is_null(), header.is_ok()), (false, true));
        }
        if !file.is_null() {
            unsafe { oxidd_dddmp_close(file) };
        }
        core.post(ctx, "manager_export_dddmp");
    }
    for v in [p, q, r] {
        core.release(ctx, v);
    }
}

/// Managers with no variable / one variable: the satisfying-assignment query on the constants (and the
/// variable), compared with the Rust API (an empty assignment is not "unsatisfiable")
fn few_group<K: CKind>(ctx: &mut Ctx) {
    ctx.group("managers with fewer than two variables", |ctx| {
        ctx.count("executions", 1);
        let mut st = St::<K>::new(ctx);
        for i in 0..2 {
            let v = st.src(S(i));
            if v.valid() {
                st.pick_cube(ctx, &v);
                ctx.count("transitions", 1);
                ctx.count("nontrivial", 1);
            }
        }
        st.finish(ctx);
        flush_releases();
    });
}

/// Every ordered pair of reordering requests (all sequences of 0..3 distinct variables, i.e. partial
/// and total orders) issued one after the other through the C API and on the twin, with the two
/// initial handles alive; after each request the level maps, the handles and a few new functions
/// must agree with the twin.
fn orders_group<K: CKind>(ctx: &mut Ctx) {
    let mut reqs: Vec<Vec<u32>> = vec![vec![]];
    for a in 0..NV {
        reqs.push(vec![a]);
        for b in 0..NV {
            if b != a {
                reqs.push(vec![a, b]);
                for c in 0..NV {
                    if c != a && c != b {
                        reqs.push(vec![a, b, c]);
                    }
                }
            }
        }
    }
    let api = K::api();
    ctx.group("reorder request pairs", |ctx| {
        for r1 in &reqs {
            for r2 in &reqs {
                ctx.count("executions", 1);
                let mut st = St::<K>::new(ctx);
                // a third variable below/above the two initial handles
                let x2 = st.core.fcall(ctx, &if K::ZB { Op::Singleton(2) } else { Op::Var(2) }, &[]);
                st.put(ctx, x2);
                for r in [r1, r2] {
                    let core = &mut st.core;
                    if core.failed {
                        break;
                    }
                    let cm = core.cm;
                    unsafe { (api.manager_set_var_order)(cm, r.as_ptr(), r.len()) };
                    K::set_order(&core.tm, r);
                    core.log(format!("{}(m, {r:?}, {})", core.cname("manager_set_var_order"), r.len()));
                    core.post(ctx, "manager_set_var_order");
                    for v in 0..NV {
                        let tl = core.tm.with_manager_shared(|m| m.var_to_level(v));
                        core.scalar(ctx, "manager_var_to_level", &format!("m, {v}"), unsafe { (api.manager_var_to_level)(cm, v) }, tl);
                        let tv = core.tm.with_manager_shared(|m| m.level_to_var(v));
                        core.scalar(ctx, "manager_level_to_var", &format!("m, {v}"), unsafe { (api.manager_level_to_var)(cm, v) }, tv);
                    }
                    ctx.count("transitions", 1);
                    if ctx.distinct(st.state_hash()) {
                        ctx.count("states", 1);
                    }
                }
                if !st.core.failed {
                    // new functions agree with the twin under the new order
                    let (core, slots) = (&mut st.core, &st.slots);
                    let op = if K::ZB { Op::Union } else { Op::Bin(BinOp::Xor) };
                    let a = core.fcall(ctx, &op, &[&slots[0], &slots[2]]);
                    let b = core.fcall(ctx, &op, &[&a, &slots[1]]);
                    if !K::ZB {
                        // every single-variable substitution into the two new functions under the new order
                        for var in 0..NV {
                            for j in 0..3 {
                                let r = st.src(S(j));
                                if !r.valid() || st.core.failed {
                                    continue;
                                }
                                for f in [&a, &b] {
                                    let v = st.substitute(ctx, f, &[(var, &r)]);
                                    st.core.release(ctx, v);
                                    ctx.count("transitions", 1);
                                }
                            }
                        }
                    }
                    let core = &mut st.core;
                    core.release(ctx, a);
                    core.release(ctx, b);
                    ctx.count("nontrivial", 1);
                }
                st.finish(ctx);
            }
        }
        flush_releases();
    });
}
