//! C16 — variable and name bookkeeping stays a consistent bijection.
//!
//! Part (a): bounded-exhaustive exploration of all call *histories* of the real
//! `oxidd_core::util::VarNameMap` against a `Vec<String>` reference model
//! (plus a supplementary de-duplicated state-graph pass that reaches deeper).
//! Part (b): the same call sequences through the `Manager` API of real BDD,
//! BCDD, ZBDD and MTBDD managers, interleaved with handle creation, one binary
//! operation and gc; bookkeeping invariants after every call and "adding
//! variables never changes the function of an existing handle".

use std::collections::{BTreeMap, VecDeque};
use std::panic::{AssertUnwindSafe, catch_unwind};

use oxidd_core::util::VarNameMap;
use rustc_hash::{FxHashMap, FxHashSet};
use serde_json::json;

use crate::driver::Meta;
use crate::proto::{Ctx, attrs, short_site, take_panic};

pub fn meta() -> Meta {
    Meta {
        level: "model_checking",
        rule: "(a) every call HISTORY (not: state) of the real oxidd_core::util::VarNameMap from the empty map up to length 5 (quick) / 6 (thorough) over the alphabet add_unnamed(1|2), add_named(l) for all 20 lists l of length 1-2 over {\"\",a,b,c}, set_var_name(v,s) for every existing v and s in {\"\",a,b,c}, get_or_add(s) for the 4 names, reserve(8) (= all public mutators of the type). Each history is executed from scratch on a fresh real object (the type's Clone is not used by the search; it is checked separately: shard a:clone), the Vec<String> model is stepped in lock-step; in the final state of every history the return value of the last call and all invariants are checked, cheapest first (named_count and len before anything that dereferences an index key, then var_name for every variable, name_to_var for a,b,c,\"\" and a never-used name, finally into_names_iter). No pruning on the model state: the concrete state (hash-table layout and capacity, string allocations, possible stale index entries) is NOT a function of the names vector, so merging histories that reach the same names vector would be unsound; a history is only not extended after its final state violated an invariant (the object may then hold dangling keys, it is leaked, never dropped). Iterative deepening, so the shortest failing history of a shard is reported first. A supplementary pass (shard a:graph) explores the de-duplicated abstract state graph breadth-first to depth 8 (quick) / 10 (thorough) and executes every transition out of every distinct names vector, from that vector's shortest history, on the real object; it supplies the 'states' count and is not part of the exhaustiveness claim; out of every distinct names vector it also issues set_var_name(len, s) for the four names (the first variable number that does not exist: documented panic, or the duplicate error) under catch_unwind and requires the map to read as before and to keep working after one more add_unnamed(1). (b) every sequence up to length 3 (quick) / 4 (thorough; tdd: 3) over add_vars(1|2), add_named_vars(l) (20 lists), add_named_vars_from_map(m) (the 17 lists that form a valid map), set_var_name(v,s) through the Manager API of real index-based BDD, BCDD, ZBDD, MTBDD<I64> and TDD managers; one fresh manager per history with the fixed interleaving: after every call a new handle over all variables existing so far is built (reduce/then_insert), one apply operation (and/add/union; ZBDD also the complement and the family of all sets) on the two newest handles, its result is dropped and gc() runs. Checked after the last call: return value, num_named_vars, num_levels = num_vars = expected, var_to_level/level_to_var inverse permutations and level = number for new variables, var_name/name_to_var as in (a); for BDD/BCDD/MTBDD/TDD the table of every pre-existing handle (own interpreter, over the current number of variables) equals its old table and is independent of the new variables, a freshly built diagram reads back, the apply result is the pointwise model result, and everything again after gc. Histories of length 4 are run for one representative per permutation of the names a,b,c (first-use order a,b,c): names are opaque to library and oracle; all renamings are run up to length 3 and, at VarNameMap level, up to length 6 in (a). VERIF_C16_FULL=1 runs every renaming at length 4 too. A history is non-trivial when it contains a rejected call, a rename, a clearing, a lookup hit or (b) an addition while handles are live.",
        assumptions: vec![
            "index-based backend only; the pointer-based manager shares VarNameMap and the same add_* code shape and is exercised by C20".into(),
            "ZBDD handles are excluded from the function-preservation clause by the property text; for ZBDD only bookkeeping is checked (handles are still created, united and collected)".into(),
            "random longer sequences with unicode names are not run (technique family: bounded exhaustive); reordering with live nodes is left to C08 (currently aborts)".into(),
            "a rejected set_var_name is required to leave the map unchanged and to report an empty added_vars range (reading of 'Label var as name ... Returns Err if not unique' and of the DuplicateVarName field docs); a rejected add_named(_vars) keeps the variables added before the duplicate, as documented".into(),
            "function tables are read by the harness's own interpreter over Manager::get_node (cross-checked against dd.rs BoolKind::table for n <= 6); values of TDD tables: 0 = false, 1 = unknown, 2 = true, and = minimum".into(),
            "UB-prone violations (stale index key): the object/manager is leaked instead of dropped; at manager level, after two such violations with the same (call kind, shape) in a group, further histories ending in that kind of call are counted but not executed (each would leak two threads)".into(),
            "managers are dropped with a delay of 24 histories and manager creation is throttled on the thread count of the worker: dropping a manager before its gc thread reached its first wait loses the quit signal in the library (threads live forever)".into(),
        ],
        hang_is_violation: false,
        shard_timeout: (600, 3600),
    }
}

// ===========================================================================
// alphabet and reference model
// ===========================================================================

const NAMES: [&str; 4] = ["", "a", "b", "c"];
/// the same four symbols as names of more than 64 bytes, two of which share their first 64 bytes
/// (`long` shards: hashing / comparison of long names)
const LONG_NAMES: [&str; 4] = [
    "",
    "top.cpu0.core.pipeline.stage_execute.alu.operand_forwarding.bypass_a_valid",
    "top.cpu0.core.pipeline.stage_execute.alu.operand_forwarding.bypass_b_valid",
    "top.memory_subsystem.l2cache.bank3.way7.tag_compare.hit_qualified_by_parity",
];
static LONG: std::sync::atomic::AtomicBool = std::sync::atomic::AtomicBool::new(false);
fn nm(i: usize) -> &'static str {
    if LONG.load(std::sync::atomic::Ordering::Relaxed) { LONG_NAMES[i] } else { NAMES[i] }
}
/// a name that is never used by any call
const UNUSED: &str = "d";

#[derive(Clone, Debug, PartialEq, Eq, Hash)]
enum Op {
    AddUnnamed(u32),
    /// name indices, length 1..=2
    AddNamed(Vec<u8>),
    SetName(u32, u8),
    GetOrAdd(u8),
    Reserve(u32),
    /// manager level only: add_named_vars_from_map (map built from the list)
    FromMap(Vec<u8>),
}

impl Op {
    fn kind(&self) -> &'static str {
        match self {
            Op::AddUnnamed(_) => "add_unnamed",
            Op::AddNamed(_) => "add_named",
            Op::SetName(..) => "set_var_name",
            Op::GetOrAdd(_) => "get_or_add",
            Op::Reserve(_) => "reserve",
            Op::FromMap(_) => "add_named_vars_from_map",
        }
    }
    fn show(&self) -> String {
        let l = |v: &Vec<u8>| v.iter().map(|&i| format!("{:?}", nm(i as usize))).collect::<Vec<_>>().join(",");
        match self {
            Op::AddUnnamed(k) => format!("add_unnamed({k})"),
            Op::AddNamed(v) => format!("add_named([{}])", l(v)),
            Op::SetName(v, s) => format!("set_var_name({v},{:?})", nm(*s as usize)),
            Op::GetOrAdd(s) => format!("get_or_add({:?})", nm(*s as usize)),
            Op::Reserve(k) => format!("reserve({k})"),
            Op::FromMap(v) => format!("add_named_vars_from_map([{}])", l(v)),
        }
    }
}

fn show_hist(h: &[Op]) -> Vec<String> {
    h.iter().map(|o| o.show()).collect()
}

fn name_lists() -> Vec<Vec<u8>> {
    let mut v = vec![];
    for a in 0..4u8 {
        v.push(vec![a]);
    }
    for a in 0..4u8 {
        for b in 0..4u8 {
            v.push(vec![a, b]);
        }
    }
    v
}

/// all calls of part (a) enabled in a map with `len` variables, fixed order
fn ops_a(len: u32) -> Vec<Op> {
    let mut v = vec![Op::AddUnnamed(1), Op::AddUnnamed(2)];
    for l in name_lists() {
        v.push(Op::AddNamed(l));
    }
    for s in 0..4u8 {
        v.push(Op::GetOrAdd(s));
    }
    v.push(Op::Reserve(8));
    for var in 0..len {
        for s in 0..4u8 {
            v.push(Op::SetName(var, s));
        }
    }
    v
}

/// all calls of part (b) enabled in a manager with `len` variables
fn ops_b(len: u32) -> Vec<Op> {
    let mut v = vec![Op::AddUnnamed(1), Op::AddUnnamed(2)];
    for l in name_lists() {
        v.push(Op::AddNamed(l));
    }
    for l in name_lists() {
        // only lists that are a valid map on their own (no repeated non-empty name)
        if !(l.len() == 2 && l[0] == l[1] && l[0] != 0) {
            v.push(Op::FromMap(l));
        }
    }
    for var in 0..len {
        for s in 0..4u8 {
            v.push(Op::SetName(var, s));
        }
    }
    v
}

/// What a call returns, in a form shared by model and implementation.
#[derive(Clone, Debug, PartialEq, Eq)]
enum Ret {
    Unit,
    Range(u32, u32),
    SetOk,
    /// DuplicateVarName { name, present_var, added_vars }
    Dup { name: String, present: u32, added: (u32, u32) },
    GetOrAdd(u32, bool),
}

/// Shape of the last call w.r.t. the state it was applied in (root-cause attribute).
fn shape(model: &[u8], op: &Op) -> &'static str {
    match op {
        Op::SetName(v, s) => {
            let old = model[*v as usize];
            let other = *s != 0 && model.iter().enumerate().any(|(i, &x)| x == *s && i as u32 != *v);
            if *s == 0 {
                if old == 0 { "clear_unnamed" } else { "clear_named" }
            } else if other {
                if old == 0 { "dup_on_unnamed" } else { "dup_on_named" }
            } else if old == *s {
                "same_name"
            } else if old == 0 {
                "name_unnamed"
            } else {
                "rename"
            }
        }
        Op::AddNamed(l) | Op::FromMap(l) => {
            let mut seen: Vec<u8> = model.iter().copied().filter(|&x| x != 0).collect();
            for (i, &s) in l.iter().enumerate() {
                if s == 0 {
                    continue;
                }
                if seen.contains(&s) {
                    return if model.contains(&s) {
                        if i == 0 { "dup_existing_first" } else { "dup_existing_second" }
                    } else {
                        "dup_in_batch"
                    };
                }
                seen.push(s);
            }
            "fresh"
        }
        Op::GetOrAdd(s) => {
            if *s == 0 {
                "empty"
            } else if model.contains(s) {
                "found"
            } else {
                "fresh"
            }
        }
        Op::AddUnnamed(_) | Op::Reserve(_) => "plain",
    }
}

/// A history is non-trivial when some call is rejected, renames or clears.
fn shape_nontrivial(sh: &str) -> bool {
    matches!(
        sh,
        "clear_named" | "dup_on_unnamed" | "dup_on_named" | "rename" | "same_name" | "dup_existing_first" | "dup_existing_second" | "dup_in_batch" | "found"
    )
}

/// Reference model: the vector var -> name index (0 = unnamed).
fn model_step(model: &mut Vec<u8>, op: &Op) -> Ret {
    let pos = |m: &Vec<u8>, s: u8| m.iter().position(|&x| x == s).map(|p| p as u32);
    match op {
        Op::AddUnnamed(k) => {
            for _ in 0..*k {
                model.push(0);
            }
            Ret::Unit
        }
        Op::AddNamed(l) | Op::FromMap(l) => {
            let pre = model.len() as u32;
            for &s in l {
                if s == 0 {
                    model.push(0);
                    continue;
                }
                if let Some(p) = pos(model, s) {
                    return Ret::Dup { name: nm(s as usize).to_string(), present: p, added: (pre, model.len() as u32) };
                }
                model.push(s);
            }
            Ret::Range(pre, model.len() as u32)
        }
        Op::SetName(v, s) => {
            if *s == 0 {
                model[*v as usize] = 0;
                return Ret::SetOk;
            }
            match pos(model, *s) {
                Some(p) if p != *v => {
                    let n = model.len() as u32;
                    Ret::Dup { name: nm(*s as usize).to_string(), present: p, added: (n, n) }
                }
                _ => {
                    model[*v as usize] = *s;
                    Ret::SetOk
                }
            }
        }
        Op::GetOrAdd(s) => {
            if *s == 0 {
                model.push(0);
                return Ret::GetOrAdd(model.len() as u32 - 1, false);
            }
            match pos(model, *s) {
                Some(p) => Ret::GetOrAdd(p, true),
                None => {
                    model.push(*s);
                    Ret::GetOrAdd(model.len() as u32 - 1, false)
                }
            }
        }
        Op::Reserve(_) => Ret::Unit,
    }
}

fn dup_ret(e: oxidd_core::error::DuplicateVarName) -> Ret {
    Ret::Dup { name: e.name, present: e.present_var, added: (e.added_vars.start, e.added_vars.end) }
}

fn real_step(m: &mut VarNameMap, op: &Op) -> Ret {
    match op {
        Op::AddUnnamed(k) => {
            m.add_unnamed(*k);
            Ret::Unit
        }
        Op::AddNamed(l) | Op::FromMap(l) => match m.add_named(l.iter().map(|&i| nm(i as usize))) {
            Ok(r) => Ret::Range(r.start, r.end),
            Err(e) => dup_ret(e),
        },
        Op::SetName(v, s) => match m.set_var_name(*v, nm(*s as usize)) {
            Ok(()) => Ret::SetOk,
            Err(e) => dup_ret(e),
        },
        Op::GetOrAdd(s) => {
            let (v, f) = m.get_or_add(nm(*s as usize));
            Ret::GetOrAdd(v, f)
        }
        Op::Reserve(k) => {
            m.reserve(*k);
            Ret::Unit
        }
    }
}

/// Compare the return value of a call with the documented one.
fn ret_mismatch(op: &Op, exp: &Ret, got: &Ret) -> Option<(&'static str, String)> {
    if exp == got {
        return None;
    }
    match (exp, got) {
        (Ret::Dup { name: en, present: ep, added: ea }, Ret::Dup { name: gn, present: gp, added: ga }) => {
            if en != gn {
                return Some(("err_name", format!("error reports name {gn:?}, expected {en:?}")));
            }
            if ep != gp {
                return Some(("err_present_var", format!("error reports conflicting variable {gp}, the name {en:?} belongs to variable {ep}")));
            }
            if matches!(op, Op::SetName(..)) {
                // documented: "range of variables that have been successfully added" -> none
                if ga.0 >= ga.1 {
                    return None;
                }
                return Some(("err_added_vars", format!("set_var_name error reports added_vars {}..{}, no variable was added", ga.0, ga.1)));
            }
            Some(("err_added_vars", format!("error reports added_vars {}..{}, expected {}..{}", ga.0, ga.1, ea.0, ea.1)))
        }
        (Ret::Dup { .. }, _) => Some(("accepted_duplicate", format!("call returned {got:?}, expected the rejection {exp:?}"))),
        (_, Ret::Dup { .. }) => Some(("spurious_rejection", format!("call was rejected with {got:?}, expected {exp:?}"))),
        _ => Some(("return_value", format!("call returned {got:?}, expected {exp:?}"))),
    }
}

fn names_of(model: &[u8]) -> Vec<&'static str> {
    model.iter().map(|&i| nm(i as usize)).collect()
}

/// Invariants of the final state, cheapest first. `Err((class, msg, ub_prone))`.
fn check_map(m: &VarNameMap, model: &[u8]) -> Result<(), (&'static str, String, bool)> {
    // 1. cardinalities: nothing here dereferences a stored string
    let named = model.iter().filter(|&&x| x != 0).count() as u32;
    if m.named_count() != named {
        return Err((
            "named_count",
            format!("named_count() = {} but {} variables are named (model {:?}); the index holds a stale or missing key", m.named_count(), named, names_of(model)),
            m.named_count() > named,
        ));
    }
    if m.len() != model.len() as u32 || m.is_empty() != model.is_empty() {
        return Err(("len", format!("len() = {}, is_empty() = {}, expected {} variables", m.len(), m.is_empty(), model.len()), false));
    }
    // 2. var -> name (reads `names` only)
    for (v, &s) in model.iter().enumerate() {
        let got = m.var_name(v as u32);
        if got != nm(s as usize) {
            return Err(("var_name", format!("var_name({v}) = {got:?}, expected {:?} (model {:?})", nm(s as usize), names_of(model)), false));
        }
    }
    // 3. name -> var (probes the index): inverse of var_name on exactly the named variables
    for s in 1..4u8 {
        let exp = model.iter().position(|&x| x == s).map(|p| p as u32);
        let got = m.name_to_var(nm(s as usize));
        if got != exp {
            return Err(("name_to_var", format!("name_to_var({:?}) = {got:?}, expected {exp:?} (model {:?})", nm(s as usize), names_of(model)), false));
        }
    }
    for s in ["", UNUSED] {
        if let Some(v) = m.name_to_var(s) {
            return Err(("name_to_var", format!("name_to_var({s:?}) = Some({v}), expected None"), false));
        }
    }
    Ok(())
}

#[derive(Debug)]
struct Bad {
    class: String,
    msg: String,
    ub_prone: bool,
    site: Option<String>,
}

/// Execute one history from scratch on a fresh real map. The caller supplies the
/// model state before the last call. Only the final state is checked (every
/// prefix is a history of its own).
fn exec_history(hist: &[Op], model_before: &[u8]) -> Result<(), Bad> {
    let r = catch_unwind(AssertUnwindSafe(|| -> Result<(), Bad> {
        // never dropped implicitly (unwinding included): a corrupt map must be leaked
        let mut m = std::mem::ManuallyDrop::new(VarNameMap::new());
        let Some((last, prefix)) = hist.split_last() else {
            let r = check_map(&m, &[]);
            return r.map_err(|(c, msg, ub)| Bad { class: c.into(), msg, ub_prone: ub, site: None });
        };
        for op in prefix {
            let _ = real_step(&mut m, op);
        }
        let got = real_step(&mut m, last);
        let mut model = model_before.to_vec();
        let exp = model_step(&mut model, last);
        // the returned error value is owned data: safe to look at first
        let mut bad = ret_mismatch(last, &exp, &got).map(|(c, msg)| Bad { class: c.into(), msg, ub_prone: false, site: None });
        if let Err((c, msg, ub)) = check_map(&m, &model) {
            // a state violation is the more specific diagnosis unless the return value was already wrong
            let b = Bad { class: c.into(), msg, ub_prone: ub, site: None };
            bad = Some(match bad {
                Some(mut r) => {
                    r.msg = format!("{}; state: {}", r.msg, b.msg);
                    r.ub_prone |= b.ub_prone;
                    r
                }
                None => b,
            });
        }
        if let Some(b) = bad {
            // the object may hold dangling keys: it stays leaked
            return Err(b);
        }
        // consuming observation: the names in variable order
        let it = std::mem::ManuallyDrop::into_inner(m).into_names_iter();
        if it.len() != model.len() {
            let n = it.len();
            std::mem::forget(it);
            return Err(Bad { class: "into_names_iter".into(), msg: format!("into_names_iter().len() = {n}, expected {}", model.len()), ub_prone: false, site: None });
        }
        let got: Vec<String> = it.collect();
        if got.iter().map(|s| s.as_str()).ne(model.iter().map(|&i| nm(i as usize))) {
            return Err(Bad { class: "into_names_iter".into(), msg: format!("into_names_iter() yields {got:?}, expected {:?}", names_of(&model)), ub_prone: false, site: None });
        }
        Ok(())
    }));
    match r {
        Ok(x) => x,
        Err(_) => {
            let (loc, msg) = take_panic();
            let site = short_site(&loc);
            let first = msg.lines().next().unwrap_or("").to_string();
            Err(Bad { class: "panic".into(), msg: format!("panic at {site}: {first}"), ub_prone: false, site: Some(site) })
        }
    }
}

fn report_a(ctx: &mut Ctx, pass: &str, hist: &[Op], model_before: &[u8], b: &Bad) {
    let last = hist.last();
    let sh = last.map(|o| shape(model_before, o)).unwrap_or("initial");
    let mut a = attrs(&[("part", "name_map"), ("op", last.map(|o| o.kind()).unwrap_or("new")), ("shape", sh), ("class", &b.class)]);
    if let Some(s) = &b.site {
        a.insert("panic".into(), "1".into());
        a.insert("site".into(), s.clone());
    }
    let mut model = model_before.to_vec();
    let exp = last.map(|o| model_step(&mut model, o));
    ctx.viol(
        a,
        json!({"part": "name_map", "pass": pass, "history": show_hist(hist), "model_before_last": names_of(model_before),
               "expected_return": format!("{exp:?}"), "expected_names": names_of(&model), "ub_prone": b.ub_prone}),
        &format!(
            "VarNameMap after {:?}: {}{}",
            show_hist(hist),
            b.msg,
            if b.ub_prone { " [UB-prone: a stale index key points to a freed string; lookups, rehashing and drop dereference/free it again]" } else { "" }
        ),
    );
}

#[derive(Default)]
struct Stats {
    histories: u64,
    ops: u64,
    nontrivial: u64,
    rejected: u64,
    pruned: u64,
    skipped_poisoned: u64,
    renamings_skipped: u64,
    outcomes: BTreeMap<String, u64>,
}

impl Stats {
    fn flush(self, ctx: &mut Ctx) {
        ctx.count("evaluations", self.histories);
        ctx.count("executions", self.histories);
        ctx.count("transitions", self.histories);
        ctx.count("ops_executed", self.ops);
        ctx.count("nontrivial", self.nontrivial);
        ctx.count("rejected_calls_checked", self.rejected);
        ctx.count("histories_not_extended_after_violation", self.pruned);
        if self.skipped_poisoned > 0 {
            ctx.count("manager_histories_skipped_after_repeated_ub_prone_violation", self.skipped_poisoned);
        }
        if self.renamings_skipped > 0 {
            ctx.count("manager_subtrees_skipped_as_renamings_of_a_canonical_history", self.renamings_skipped);
        }
        for (k, _) in self.outcomes {
            ctx.outcome(&k);
        }
    }
}

/// What the history explorer needs to know about one part of the check.
trait Subject {
    const PART: &'static str;
    fn ops(len: u32) -> Vec<Op>;
    /// execute the history from scratch, check its final state
    fn exec(&mut self, hist: &[Op], model_before: &[u8]) -> Result<(), Bad>;
    fn report(&self, ctx: &mut Ctx, hist: &[Op], model_before: &[u8], b: &Bad);
    /// additional non-triviality of a call (beyond rejected/rename/clear)
    fn extra_nontrivial(_model_before: &[u8], _op: &Op) -> bool {
        false
    }
    /// do not execute this history (resource protection, see ManagerSubject)
    fn skip(&self, _model_before: &[u8], _last: &Op) -> bool {
        false
    }
    /// run only histories of this length that introduce the names in the order a, b, c
    /// (one representative per renaming class)
    fn canonical_only(&self, _len: usize) -> bool {
        false
    }
}

/// Highest name index in use after `op` if the call keeps the first-use order a, b, c.
fn canonical_step(used: u8, op: &Op) -> Option<u8> {
    let mut u = used;
    let mut see = |s: u8| -> bool {
        if s > u + 1 {
            return false;
        }
        if s == u + 1 {
            u = s;
        }
        true
    };
    let ok = match op {
        Op::AddNamed(l) | Op::FromMap(l) => l.iter().all(|&s| see(s)),
        Op::SetName(_, s) | Op::GetOrAdd(s) => see(*s),
        Op::AddUnnamed(_) | Op::Reserve(_) => true,
    };
    ok.then_some(u)
}

struct Explorer<'a, S: Subject> {
    subj: &'a mut S,
    st: Stats,
    /// histories whose final state violated an invariant: never extended
    violating: FxHashSet<Vec<Op>>,
    /// current iteration runs canonical-name representatives only
    canon: bool,
}

impl<S: Subject> Explorer<'_, S> {
    /// Visit all extensions of `hist` of length exactly `target` (iterative
    /// deepening: shortest failing histories are reported first). Histories
    /// shorter than `target` are only stepped in the model here; they were
    /// executed by an earlier iteration.
    fn visit(&mut self, ctx: &mut Ctx, hist: &mut Vec<Op>, model_before: &[u8], nt_before: bool, target: usize) {
        if self.canon && hist.iter().try_fold(0u8, canonical_step).is_none() {
            self.st.renamings_skipped += 1;
            return;
        }
        let mut model = model_before.to_vec();
        let mut nt = nt_before;
        let at_target = hist.len() == target;
        if let Some(last) = hist.last() {
            let sh = shape(model_before, last);
            nt |= shape_nontrivial(sh) || S::extra_nontrivial(model_before, last);
            let r = model_step(&mut model, last);
            if at_target {
                if matches!(r, Ret::Dup { .. }) {
                    self.st.rejected += 1;
                }
                if hist.len() <= 3 {
                    *self.st.outcomes.entry(format!("{}:{}:{}", S::PART, last.kind(), sh)).or_default() += 1;
                }
            }
        }
        if at_target {
            if let Some(last) = hist.last() {
                if self.subj.skip(model_before, last) {
                    self.st.skipped_poisoned += 1;
                    self.violating.insert(hist.clone());
                    return;
                }
            }
            self.st.histories += 1;
            self.st.ops += hist.len() as u64;
            if nt {
                self.st.nontrivial += 1;
            }
            if let Err(b) = self.subj.exec(hist, model_before) {
                self.subj.report(ctx, hist, model_before, &b);
                self.st.pruned += 1;
                self.violating.insert(hist.clone());
            }
            return;
        }
        if !self.violating.is_empty() && self.violating.contains(hist) {
            return;
        }
        for op in S::ops(model.len() as u32) {
            hist.push(op);
            self.visit(ctx, hist, &model, nt, target);
            hist.pop();
        }
    }
}

/// All histories that start with `prefix` (length >= 1), up to `depth` calls.
/// Prefixes shorter than `prefix` are re-executed quietly to decide whether
/// they may be extended at all (they are checked and reported by the group
/// that owns them).
fn explore_from<S: Subject>(ctx: &mut Ctx, subj: &mut S, prefix: &[Op], depth: usize) {
    let mut model = vec![];
    let mut nt = false;
    for i in 0..prefix.len() - 1 {
        if subj.exec(&prefix[..=i], &model).is_err() {
            return;
        }
        nt |= shape_nontrivial(shape(&model, &prefix[i])) || S::extra_nontrivial(&model, &prefix[i]);
        model_step(&mut model, &prefix[i]);
    }
    let mut ex = Explorer { subj, st: Stats::default(), violating: FxHashSet::default(), canon: false };
    let mut h = prefix.to_vec();
    for target in prefix.len()..=depth.max(prefix.len()) {
        ex.canon = ex.subj.canonical_only(target);
        ex.visit(ctx, &mut h, &model, nt, target);
    }
    ex.st.flush(ctx);
}

// ---------------------------------------------------------------------------
// part (a) subject
// ---------------------------------------------------------------------------

struct MapSubject;

impl Subject for MapSubject {
    const PART: &'static str = "name_map";
    fn ops(len: u32) -> Vec<Op> {
        ops_a(len)
    }
    fn exec(&mut self, hist: &[Op], model_before: &[u8]) -> Result<(), Bad> {
        exec_history(hist, model_before)
    }
    fn report(&self, ctx: &mut Ctx, hist: &[Op], model_before: &[u8], b: &Bad) {
        report_a(ctx, "histories", hist, model_before, b)
    }
}

fn depth_a(tier: &str) -> usize {
    if tier == "thorough" { 6 } else { 5 }
}

fn run_a_shard(ctx: &mut Ctx, first: usize) {
    let depth = depth_a(&ctx.tier);
    let op1 = ops_a(0)[first].clone();
    let mut m1 = vec![];
    model_step(&mut m1, &op1);
    let shard_first = first == 0;
    ctx.group("len<=1", |ctx| {
        if shard_first {
            // the empty history
            ctx.count("evaluations", 1);
            ctx.count("executions", 1);
            if let Err(b) = exec_history(&[], &[]) {
                report_a(ctx, "histories", &[], &[], &b);
            }
        }
        explore_from(ctx, &mut MapSubject, &[op1.clone()], 1);
        ctx.sample(|| json!({"part": "name_map", "history": show_hist(&[op1.clone()])}));
    });
    // one group per second call; the group structure depends on the model only
    for op2 in ops_a(m1.len() as u32) {
        let label = format!("{} ; {}", op1.show(), op2.show());
        ctx.group(&label, |ctx| {
            explore_from(ctx, &mut MapSubject, &[op1.clone(), op2.clone()], depth);
        });
    }
}

/// `hist` on a fresh map, then set_var_name(len, name) under catch_unwind; the state must be the model state
/// before the call, and still after one more add_unnamed(1)
fn exec_oob(hist: &[Op], model: &[u8], name: u8) -> Result<(), Bad> {
    let mut m = std::mem::ManuallyDrop::new(VarNameMap::new());
    for op in hist {
        let _ = real_step(&mut m, op);
    }
    let len = model.len() as u32;
    let r = catch_unwind(AssertUnwindSafe(|| m.set_var_name(len, nm(name as usize)).is_ok()));
    if let Ok(true) = r {
        return Err(Bad { class: "accepted_out_of_range".into(), msg: format!("set_var_name({len}, {:?}) returned Ok for a variable that does not exist", nm(name as usize)), ub_prone: false, site: None });
    }
    let how = if r.is_err() { "panicked" } else { "returned an error" };
    if let Err((c, msg, ub)) = check_map(&m, model) {
        return Err(Bad { class: c.into(), msg: format!("the call {how}; afterwards: {msg}"), ub_prone: ub, site: None });
    }
    m.add_unnamed(1);
    let mut m2 = model.to_vec();
    m2.push(0);
    if let Err((c, msg, ub)) = check_map(&m, &m2) {
        return Err(Bad { class: c.into(), msg: format!("the call {how}; after one more add_unnamed(1): {msg}"), ub_prone: ub, site: None });
    }
    drop(std::mem::ManuallyDrop::into_inner(m));
    Ok(())
}

/// Supplementary E-STATE pass: breadth-first over distinct names vectors; every
/// transition out of every state is executed on the real object, starting from
/// the state's shortest history.
fn run_a_graph(ctx: &mut Ctx) {
    let depth = if ctx.thorough() { 10 } else { 8 };
    ctx.group("state graph", |ctx| {
        let mut seen: FxHashMap<Vec<u8>, Vec<Op>> = FxHashMap::default();
        let mut queue: VecDeque<Vec<u8>> = VecDeque::new();
        seen.insert(vec![], vec![]);
        queue.push_back(vec![]);
        let mut bad_targets: FxHashSet<Vec<u8>> = FxHashSet::default();
        let (mut states, mut trans, mut ops) = (0u64, 0u64, 0u64);
        while let Some(s) = queue.pop_front() {
            states += 1;
            let hist = seen[&s].clone();
            if hist.len() >= depth {
                continue;
            }
            for op in ops_a(s.len() as u32) {
                let mut h = hist.clone();
                h.push(op.clone());
                trans += 1;
                ops += h.len() as u64;
                let mut t = s.clone();
                model_step(&mut t, &op);
                if let Err(b) = exec_history(&h, &s) {
                    report_a(ctx, "state_graph", &h, &s, &b);
                    // a violating history is never the representative of its target state
                    if !seen.contains_key(&t) {
                        bad_targets.insert(t);
                    }
                    continue;
                }
                if !seen.contains_key(&t) {
                    bad_targets.remove(&t);
                    seen.insert(t.clone(), h);
                    queue.push_back(t);
                }
            }
        }
        // calls that are documented to panic (set_var_name with the first variable number that does not exist):
        // out of every distinct state, with every name; whatever the call does (panic, error value), the map
        // must read as before and keep working (one more variable is added afterwards and everything is checked again)
        let mut oob = 0u64;
        let quiet = crate::proto::quiet_panics();
        for (s, hist) in seen.iter() {
            for name in 0..4u8 {
                oob += 1;
                if let Err(b) = exec_oob(hist, s, name) {
                    let mut h = hist.clone();
                    h.push(Op::SetName(s.len() as u32, name));
                    ctx.viol(
                        attrs(&[("part", "name_map"), ("op", "set_var_name"), ("shape", "variable_out_of_range"), ("class", &b.class)]),
                        json!({"part": "name_map", "pass": "state_graph", "history": show_hist(&h), "model_before_last": names_of(s), "expected_names": names_of(s)}),
                        &format!("VarNameMap after {:?} (the last call names a variable that does not exist and is rejected by a panic or an error value): {}", show_hist(&h), b.msg),
                    );
                }
            }
        }
        drop(quiet);
        ctx.count("rejected_out_of_range_calls", oob);
        ctx.count("evaluations", oob);
        ctx.count("states", states);
        ctx.count("graph_transitions", trans);
        ctx.count("transitions", trans);
        ctx.count("executions", trans);
        ctx.count("evaluations", trans);
        ctx.count("ops_executed", ops);
        ctx.count("graph_states_reached_only_by_violating_transitions", bad_targets.len() as u64);
    });
}

/// `Clone`: the copy must be an independent map with the same contents (the
/// state-graph engine of the design relies on it; safe Rust may clone and drop).
fn run_a_clone(ctx: &mut Ctx) {
    ctx.group("clone", |ctx| {
        // all histories of length <= 2 as the state to clone
        let mut hists: Vec<(Vec<Op>, Vec<u8>)> = vec![(vec![], vec![])];
        let mut frontier = hists.clone();
        for _ in 0..2 {
            let mut next = vec![];
            for (h, m) in &frontier {
                for op in ops_a(m.len() as u32) {
                    let mut h2 = h.clone();
                    let mut m2 = m.clone();
                    model_step(&mut m2, &op);
                    h2.push(op);
                    next.push((h2, m2));
                }
            }
            hists.extend(next.iter().cloned());
            frontier = next;
        }
        let mut n = 0u64;
        'hist: for (h, model) in &hists {
            // states that already violate the invariants are reported by the history shards
            let mut m = VarNameMap::new();
            let mut mm: Vec<u8> = vec![];
            let mut ok = true;
            for op in h {
                let _ = real_step(&mut m, op);
                model_step(&mut mm, op);
                if check_map(&m, &mm).is_err() {
                    ok = false;
                    break;
                }
            }
            if !ok {
                std::mem::forget(m);
                continue;
            }
            n += 1;
            let mut c = m.clone();
            let case = |what: &str| json!({"part": "name_map", "pass": "clone", "history": show_hist(h), "then": what});
            if let Err((cl, msg, _)) = check_map(&c, model) {
                ctx.outcome(&format!("outside_property:VarNameMap::clone:{}", cl));
                std::mem::forget(c);
                std::mem::forget(m);
                continue;
            }
            // the two maps must not share string storage: both free their names on drop
            for (v, &s) in model.iter().enumerate() {
                if s != 0 && std::ptr::eq(m.var_name(v as u32).as_ptr(), c.var_name(v as u32).as_ptr()) {
ctx.outcome("outside_property:VarNameMap::clone:clone_shares_storage");
                    std::mem::forget(c);
                    std::mem::forget(m);
                    continue 'hist;
                }
            }
            // mutate the clone with every call; the original must keep its contents
            for op in ops_a(model.len() as u32) {
                // a call that misbehaves without any clone involved is reported by the history shards
                let mut hop = h.clone();
                hop.push(op.clone());
                if exec_history(&hop, model).is_err() {
                    continue;
                }
                let mut c2 = c.clone();
                let mut cm = model.clone();
                let _ = real_step(&mut c2, &op);
                model_step(&mut cm, &op);
                let r1 = check_map(&c2, &cm);
                let r2 = check_map(&m, model);
                if let Err((cl, msg, _)) = r1.and(r2) {
                    ctx.outcome(&format!("outside_property:VarNameMap::clone:{}", cl));
                    std::mem::forget(c2);
                    std::mem::forget(c);
                    std::mem::forget(m);
                    continue 'hist;
                }
                drop(c2);
            }
            let _ = real_step(&mut c, &Op::Reserve(8));
            drop(c);
            if let Err((cl, msg, _)) = check_map(&m, model) {
                ctx.outcome(&format!("outside_property:VarNameMap::clone:{}", cl));
                std::mem::forget(m);
                continue;
            }
        }
        ctx.count("evaluations", n);
        ctx.count("executions", n);
        ctx.count("clone_states", n);
    });
}

// ===========================================================================
// part (b): the Manager API of real managers
// ===========================================================================

use std::mem::ManuallyDrop;
use std::sync::atomic::{AtomicU64, Ordering::Relaxed};

use oxidd::bcdd::{BCDDFunction, BCDDManagerRef};
use oxidd::bdd::{BDDFunction, BDDManagerRef};
use oxidd::mtbdd::terminal::I64;
use oxidd::mtbdd::{MTBDDFunction, MTBDDManagerRef};
use oxidd::tdd::{TDDFunction, TDDManagerRef};
use oxidd::zbdd::{ZBDDFunction, ZBDDManagerRef};
use oxidd::{BooleanFunction, BooleanVecSet, Edge, Function, HasLevel, InnerNode, Manager, ManagerRef, Node, PseudoBooleanFunction, TVLFunction};
use oxidd_core::DiagramRules;
use oxidd_core::util::AllocResult;
use oxidd_rules_bdd::complement_edge::{BCDDTerminal, EdgeTag as BcTag};
use oxidd_rules_bdd::simple::BDDTerminal;
use oxidd_rules_tdd::TDDTerminal;

use crate::dd::{self, BoolKind};
use crate::model::Tab;

/// value table of a function over n <= 8 variables: entry `a` = value under the
/// assignment in which variable v has value (a >> v) & 1
type Sem = Vec<i64>;

fn mgr_step<M: Manager>(m: &mut M, op: &Op) -> Ret {
    match op {
        Op::AddUnnamed(k) => {
            let r = m.add_vars(*k);
            Ret::Range(r.start, r.end)
        }
        Op::AddNamed(l) => match m.add_named_vars(l.iter().map(|&i| nm(i as usize))) {
            Ok(r) => Ret::Range(r.start, r.end),
            Err(e) => dup_ret(e),
        },
        Op::FromMap(l) => {
            let mut map = VarNameMap::new();
            map.add_named(l.iter().map(|&i| nm(i as usize))).expect("harness: list is a valid map");
            match m.add_named_vars_from_map(map) {
                Ok(r) => Ret::Range(r.start, r.end),
                Err(e) => dup_ret(e),
            }
        }
        Op::SetName(v, s) => match m.set_var_name(*v, nm(*s as usize)) {
            Ok(()) => Ret::SetOk,
            Err(e) => dup_ret(e),
        },
        Op::GetOrAdd(_) | Op::Reserve(_) => unreachable!(),
    }
}

/// The model's return value at manager level (add_vars returns the new range).
fn model_step_b(model: &mut Vec<u8>, op: &Op) -> Ret {
    let pre = model.len() as u32;
    match model_step(model, op) {
        Ret::Unit => Ret::Range(pre, model.len() as u32),
        r => r,
    }
}

/// Bookkeeping invariants through the Manager API, cheapest first.
fn check_mgr<M: Manager>(m: &M, model: &[u8], new_vars: (u32, u32)) -> Result<(), (&'static str, String, bool)> {
    let named = model.iter().filter(|&&x| x != 0).count() as u32;
    let n = model.len() as u32;
    let (nv, nl, nn) = (m.num_vars(), m.num_levels(), m.num_named_vars());
    if nn != named {
        return Err(("named_count", format!("num_named_vars() = {nn} but {named} variables are named (model {:?})", names_of(model)), nn > named));
    }
    if nv != nl {
        return Err(("levels_vs_vars", format!("num_levels() = {nl} != num_vars() = {nv}"), false));
    }
    if nv != n {
        return Err(("num_vars", format!("num_vars() = num_levels() = {nv}, expected {n}"), false));
    }
    let mut seen = vec![false; n as usize];
    for v in 0..n {
        let l = m.var_to_level(v);
        if l >= n || seen[l as usize] {
            return Err(("var_level_map", format!("var_to_level({v}) = {l} is out of range or assigned twice ({n} variables)"), false));
        }
        seen[l as usize] = true;
        let v2 = m.level_to_var(l);
        if v2 != v {
            return Err(("var_level_map", format!("level_to_var(var_to_level({v}) = {l}) = {v2}"), false));
        }
        if v >= new_vars.0 && v < new_vars.1 && l != v {
            return Err(("new_var_level", format!("new variable {v} was put at level {l}; documented: level number equals variable number"), false));
        }
    }
    for (v, &s) in model.iter().enumerate() {
        let got = m.var_name(v as u32);
        if got != nm(s as usize) {
            return Err(("var_name", format!("var_name({v}) = {got:?}, expected {:?} (model {:?})", nm(s as usize), names_of(model)), false));
        }
    }
    for s in 1..4u8 {
        let exp = model.iter().position(|&x| x == s).map(|p| p as u32);
        let got = m.name_to_var(nm(s as usize));
        if got != exp {
            return Err(("name_to_var", format!("name_to_var({:?}) = {got:?}, expected {exp:?} (model {:?})", nm(s as usize), names_of(model)), false));
        }
    }
    for s in ["", UNUSED] {
        if let Some(v) = m.name_to_var(s) {
            return Err(("name_to_var", format!("name_to_var({s:?}) = Some({v}), expected None"), false));
        }
    }
    Ok(())
}

/// Own interpreter over the raw structure for BDD/BCDD/MTBDD/TDD-like diagrams
/// (skipped level = don't care), n <= 8. A table over n variables of a kind with
/// `arity` children per node has arity^n entries; entry `a` is the value under
/// the assignment whose digit for variable v is (a / arity^v) % arity, and digit
/// d selects child number arity-1-d (binary: 1 = then = child 0, 0 = else;
/// ternary: 2 = true, 1 = unknown, 0 = false).
fn sem_table<M>(
    m: &M,
    e: &M::Edge,
    n: u32,
    arity: usize,
    above: Option<u32>,
    term: &dyn Fn(&M::Terminal) -> Result<i64, String>,
    complemented: &dyn Fn(&M::Edge) -> bool,
) -> Result<Sem, String>
where
    M: Manager,
    M::InnerNode: HasLevel,
{
    use std::borrow::Borrow;
    let size = arity.pow(n);
    let mut t = match m.get_node(e) {
        Node::Terminal(t) => vec![term(t.borrow())?; size],
        Node::Inner(node) => {
            let l = node.level();
            if l >= n {
                return Err(format!("node level {l} out of range (num_levels {n})"));
            }
            if let Some(a) = above {
                if l <= a {
                    return Err(format!("child level {l} not below parent level {a}"));
                }
            }
            let v = m.level_to_var(l);
            if v >= n {
                return Err(format!("level_to_var({l}) = {v} out of range"));
            }
            let mut ch = vec![];
            for c in node.children() {
                ch.push(sem_table(m, &*c, n, arity, Some(l), term, complemented)?);
            }
            if ch.len() != arity {
                return Err(format!("node with {} children in a diagram of arity {arity}", ch.len()));
            }
            let p = arity.pow(v);
            (0..size).map(|a| ch[arity - 1 - (a / p) % arity][a]).collect()
        }
    };
    if complemented(e) {
        for x in t.iter_mut() {
            *x = 1 - *x;
        }
    }
    Ok(t)
}

/// table -> diagram, bottom-up through reduce/then_insert (not through apply)
fn sem_build<M: Manager>(m: &M, t: &[i64], n: u32, arity: usize, level: u32, term_edge: &dyn Fn(&M, i64) -> AllocResult<M::Edge>) -> AllocResult<M::Edge> {
    if t.iter().all(|&x| x == t[0]) {
        return term_edge(m, t[0]);
    }
    assert!(level < n, "harness: table depends on a variable that has no level");
    let v = m.level_to_var(level);
    let p = arity.pow(v);
    // cofactor w.r.t. digit d of variable v, as a table over all n variables
    let cof = |d: usize| -> Vec<i64> { (0..t.len()).map(|a| t[a - ((a / p) % arity) * p + d * p]).collect() };
    let mut children: Vec<M::Edge> = vec![];
    for c in 0..arity {
        match sem_build(m, &cof(arity - 1 - c), n, arity, level + 1, term_edge) {
            Ok(e) => children.push(e),
            Err(err) => {
                for e in children {
                    m.drop_edge(e);
                }
                return Err(err);
            }
        }
    }
    <M::Rules as DiagramRules<_, _, _>>::reduce(m, level, children).then_insert(m, level)
}

/// extend a table over n0 variables to n >= n0 variables (independent of the new ones)
fn extend(t: &[i64], n: u32, arity: usize) -> Sem {
    (0..arity.pow(n)).map(|a| t[a % t.len()]).collect()
}

trait MKind {
    const NAME: &'static str;
    /// the property's function-preservation clause applies
    const PRESERVES: bool;
    /// children per inner node
    const ARITY: usize = 2;
    /// longest history run for this kind
    fn depth(tier: &str) -> usize {
        depth_b(tier)
    }
    type MR: ManagerRef + 'static;
    type F;
    fn new_manager() -> Self::MR;
    /// handle number `i` created when `n` variables exist (None: not created)
    fn seed(mr: &Self::MR, i: usize, n: u32) -> Option<(Self::F, Sem)>;
    fn table(f: &Self::F) -> Result<Sem, String>;
    fn binop(f: &Self::F, g: &Self::F) -> Self::F;
    fn model_binop(a: i64, b: i64) -> i64;
    const BINOP: &'static str;
}

fn bool_seed(i: usize, n: u32) -> Sem {
    // depends on the first and the last variable (top and bottom level), varies with i
    (0..1usize << n)
        .map(|a| {
            let x0 = a & 1;
            let xl = (a >> (n - 1)) & 1;
            let xm = (a >> (n / 2)) & 1;
            (match i % 3 {
                0 => x0 ^ xl,
                1 => (x0 & xl) | xm,
                _ => 1 - (x0 | (xl & xm)),
            }) as i64
        })
        .collect()
}

struct KBdd;
struct KBcdd;
struct KMtbdd;
struct KZbdd;

fn sem_to_tab(t: &[i64]) -> Tab {
    t.iter().enumerate().fold(0, |acc, (a, &x)| acc | ((x as u64 & 1) << a))
}

/// interpreter of dd.rs for n <= 6 (and cross-check with the wide one), wide one above
fn bool_table<K: BoolKind>(f: &K::F, wide: Result<Sem, String>, n: u32) -> Result<Sem, String> {
    let w = wide?;
    if n <= 6 {
        let t = K::table(f)?;
        if t != sem_to_tab(&w) {
            return Err(format!("harness: the two interpreters disagree ({t:#x} vs {:#x})", sem_to_tab(&w)));
        }
    }
    Ok(w)
}

impl MKind for KBdd {
    const NAME: &'static str = "bdd";
    const PRESERVES: bool = true;
    const BINOP: &'static str = "and";
    type MR = BDDManagerRef;
    type F = BDDFunction;
    fn new_manager() -> BDDManagerRef {
        oxidd::bdd::new_manager(96, 96, 1)
    }
    fn seed(mr: &BDDManagerRef, i: usize, n: u32) -> Option<(BDDFunction, Sem)> {
        let t = bool_seed(i, n);
        let f = mr.with_manager_shared(|m| {
            let e = sem_build(m, &t, n, 2, 0, &|m, v| m.get_terminal(if v == 1 { BDDTerminal::True } else { BDDTerminal::False })).expect("harness: out of memory");
            BDDFunction::from_edge(m, e)
        });
        Some((f, t))
    }
    fn table(f: &BDDFunction) -> Result<Sem, String> {
        let (w, n) = f.with_manager_shared(|m, e| {
            let n = m.num_levels();
            (sem_table(m, e, n, 2, None, &|t| Ok((*t == BDDTerminal::True) as i64), &|_| false), n)
        });
        bool_table::<dd::Bdd>(f, w, n)
    }
    fn binop(f: &BDDFunction, g: &BDDFunction) -> BDDFunction {
        f.and(g).expect("harness: out of memory")
    }
    fn model_binop(a: i64, b: i64) -> i64 {
        a & b
    }
}

impl MKind for KBcdd {
    const NAME: &'static str = "bcdd";
    const PRESERVES: bool = true;
    const BINOP: &'static str = "and";
    type MR = BCDDManagerRef;
    type F = BCDDFunction;
    fn new_manager() -> BCDDManagerRef {
        oxidd::bcdd::new_manager(96, 96, 1)
    }
    fn seed(mr: &BCDDManagerRef, i: usize, n: u32) -> Option<(BCDDFunction, Sem)> {
        let t = bool_seed(i, n);
        let f = mr.with_manager_shared(|m| {
            let e = sem_build(m, &t, n, 2, 0, &|m, v| {
                let e = m.get_terminal(BCDDTerminal)?;
                Ok(if v == 1 { e } else { e.with_tag_owned(BcTag::Complemented) })
            })
            .expect("harness: out of memory");
            BCDDFunction::from_edge(m, e)
        });
        Some((f, t))
    }
    fn table(f: &BCDDFunction) -> Result<Sem, String> {
        let (w, n) = f.with_manager_shared(|m, e| {
            let n = m.num_levels();
            (sem_table(m, e, n, 2, None, &|_| Ok(1), &|e| e.tag() == BcTag::Complemented), n)
        });
        bool_table::<dd::Bcdd>(f, w, n)
    }
    fn binop(f: &BCDDFunction, g: &BCDDFunction) -> BCDDFunction {
        f.and(g).expect("harness: out of memory")
    }
    fn model_binop(a: i64, b: i64) -> i64 {
        a & b
    }
}

impl MKind for KMtbdd {
    const NAME: &'static str = "mtbdd";
    const PRESERVES: bool = true;
    const BINOP: &'static str = "add";
    type MR = MTBDDManagerRef<I64>;
    type F = MTBDDFunction<I64>;
    fn new_manager() -> MTBDDManagerRef<I64> {
        oxidd::mtbdd::new_manager(96, 96, 96, 1)
    }
    fn seed(mr: &MTBDDManagerRef<I64>, i: usize, n: u32) -> Option<(MTBDDFunction<I64>, Sem)> {
        // 3 * x_0 + 5 * x_last + i * x_mid + i: depends on the top and the bottom variable
        let t: Sem = (0..1usize << n)
            .map(|a| (3 * (a & 1) + 5 * ((a >> (n - 1)) & 1) + i * ((a >> (n / 2)) & 1) + i) as i64)
            .collect();
        let f = mr.with_manager_shared(|m| {
            let e = sem_build(m, &t, n, 2, 0, &|m, v| m.get_terminal(I64::Num(v))).expect("harness: out of memory");
            MTBDDFunction::from_edge(m, e)
        });
        Some((f, t))
    }
    fn table(f: &MTBDDFunction<I64>) -> Result<Sem, String> {
        f.with_manager_shared(|m, e| {
            sem_table(
                m,
                e,
                m.num_levels(),
                2,
                None,
                &|t| match t {
                    I64::Num(k) => Ok(*k),
                    _ => Err("non-numeric terminal".to_string()),
                },
                &|_| false,
            )
        })
    }
    fn binop(f: &MTBDDFunction<I64>, g: &MTBDDFunction<I64>) -> MTBDDFunction<I64> {
        PseudoBooleanFunction::add(f, g).expect("harness: out of memory")
    }
    fn model_binop(a: i64, b: i64) -> i64 {
        a + b
    }
}

struct KTdd;

impl MKind for KTdd {
    const NAME: &'static str = "tdd";
    const PRESERVES: bool = true;
    const ARITY: usize = 3;
    const BINOP: &'static str = "and";
    type MR = TDDManagerRef;
    type F = TDDFunction;
    fn depth(_tier: &str) -> usize {
        // tables have 3^n entries: at most 6 variables
        3
    }
    fn new_manager() -> TDDManagerRef {
        oxidd::tdd::new_manager(96, 96, 1)
    }
    fn seed(mr: &TDDManagerRef, i: usize, n: u32) -> Option<(TDDFunction, Sem)> {
        // values 0 = false, 1 = unknown, 2 = true; depends on the first and the last variable
        let t: Sem = (0..3usize.pow(n))
            .map(|a| {
                let d = |v: u32| (a / 3usize.pow(v)) % 3;
                ((d(0) + 2 * d(n - 1) + i * d(n / 2) + i) % 3) as i64
            })
            .collect();
        let f = mr.with_manager_shared(|m| {
            let e = sem_build(m, &t, n, 3, 0, &|m, v| {
                m.get_terminal(match v {
                    0 => TDDTerminal::False,
                    1 => TDDTerminal::Unknown,
                    _ => TDDTerminal::True,
                })
            })
            .expect("harness: out of memory");
            TDDFunction::from_edge(m, e)
        });
        Some((f, t))
    }
    fn table(f: &TDDFunction) -> Result<Sem, String> {
        f.with_manager_shared(|m, e| {
            sem_table(
                m,
                e,
                m.num_levels(),
                3,
                None,
                &|t| {
                    Ok(match t {
                        TDDTerminal::False => 0,
                        TDDTerminal::Unknown => 1,
                        TDDTerminal::True => 2,
                    })
                },
                &|_| false,
            )
        })
    }
    fn binop(f: &TDDFunction, g: &TDDFunction) -> TDDFunction {
        TVLFunction::and(f, g).expect("harness: out of memory")
    }
    fn model_binop(a: i64, b: i64) -> i64 {
        // strong Kleene conjunction: minimum w.r.t. false < unknown < true
        a.min(b)
    }
}

impl MKind for KZbdd {
    const NAME: &'static str = "zbdd";
    const PRESERVES: bool = false;
    const BINOP: &'static str = "union";
    type MR = ZBDDManagerRef;
    type F = ZBDDFunction;
    fn new_manager() -> ZBDDManagerRef {
        oxidd::zbdd::new_manager(96, 96, 1)
    }
    fn seed(mr: &ZBDDManagerRef, i: usize, n: u32) -> Option<(ZBDDFunction, Sem)> {
        if n > 6 {
            return None;
        }
        // the family {{x_0}, {x_last}} (i even) resp. {{}, {x_0, x_last}} (i odd)
        let (s0, sl) = (1u64, 1u64 << (n - 1));
        let fam: Tab = if i % 2 == 0 { (1 << s0) | (1 << sl) } else { 1 | (1 << (s0 | sl)) };
        let f = <dd::Zbdd as BoolKind>::build(mr, fam).expect("harness: out of memory");
        Some((f, vec![]))
    }
    fn table(_f: &ZBDDFunction) -> Result<Sem, String> {
        Ok(vec![])
    }
    fn binop(f: &ZBDDFunction, g: &ZBDDFunction) -> ZBDDFunction {
        // the Boolean view needs the manager's family of all sets over the current variables
        let nf = f.not().expect("harness: out of memory");
        let all = f.with_manager_shared(|m, _| ZBDDFunction::t(m));
        assert!(nf.union(f).expect("harness: out of memory") == all, "zbdd: f | !f is not the family of all sets");
        f.union(g).expect("harness: out of memory")
    }
    fn model_binop(a: i64, _b: i64) -> i64 {
        a
    }
}

// Every manager owns two threads (worker pool, gc) that terminate asynchronously
// after the manager is dropped. Histories create managers at a high rate, so
// creation is throttled on the number of threads of this process; a failure to
// create a manager is an environment problem, never a verdict.
static CREATED: AtomicU64 = AtomicU64::new(0);
static LEAKED: AtomicU64 = AtomicU64::new(0);

fn threads_now() -> u64 {
    let Ok(s) = std::fs::read_to_string("/proc/self/stat") else { return 0 };
    let Some(p) = s.rfind(')') else { return 0 };
    s[p + 1..].split_whitespace().nth(17).and_then(|x| x.parse().ok()).unwrap_or(0)
}

fn fresh_manager<K: MKind>() -> K::MR {
    if CREATED.fetch_add(1, Relaxed) % 8 == 0 {
        // wait until the threads of retired managers are gone; threads that never go away
        // (leaked managers, see `retire`) raise the baseline instead of blocking forever
        let mut waited = 0;
        loop {
            let now = threads_now();
            let limit = THREAD_BASELINE.load(Relaxed) + 2 * LEAKED.load(Relaxed) + 2 * GRAVEYARD_LEN as u64 + 40;
            if now <= limit {
                break;
            }
            if waited >= 400 {
                if now > 6000 {
                    eprintln!("MACHINERY: {now} threads in this worker, managers do not terminate");
                    std::process::exit(3);
                }
                THREAD_BASELINE.store(now, Relaxed);
                break;
            }
            std::thread::sleep(std::time::Duration::from_micros(500));
            waited += 1;
        }
    }
    for attempt in 0..40u64 {
        match catch_unwind(|| K::new_manager()) {
            Ok(m) => return m,
            Err(_) => {
                let _ = take_panic();
                std::thread::sleep(std::time::Duration::from_millis(25 * (attempt + 1)));
            }
        }
    }
    eprintln!("MACHINERY: cannot create a manager (thread creation keeps failing)");
    std::process::exit(3);
}

static THREAD_BASELINE: AtomicU64 = AtomicU64::new(0);
const GRAVEYARD_LEN: usize = 24;

thread_local! {
    static GRAVEYARD: std::cell::RefCell<VecDeque<Box<dyn std::any::Any>>> = std::cell::RefCell::new(VecDeque::new());
}

/// Drop a manager, but not right away: the library's gc thread misses the quit
/// signal if the last ManagerRef is dropped before the thread has reached its
/// first wait (manager + 2 threads then live forever). Keeping the manager for
/// the duration of some further histories gives the thread time to start.
fn retire<T: 'static>(m: T) {
    let old = GRAVEYARD.with(|g| {
        let mut g = g.borrow_mut();
        g.push_back(Box::new(m));
        if g.len() > GRAVEYARD_LEN { g.pop_front() } else { None }
    });
    drop(old);
}

struct ManagerSubject<K: MKind> {
    /// (op kind, shape) of last calls that produced a UB-prone violation in this
    /// group, with the number of managers that had to be leaked for it
    poison: FxHashMap<(&'static str, &'static str), u32>,
    _k: std::marker::PhantomData<K>,
}

fn is_add(op: &Op) -> bool {
    matches!(op, Op::AddUnnamed(_) | Op::AddNamed(_) | Op::FromMap(_))
}

/// One history on a fresh real manager with the fixed interleaving. Checks are
/// made for the final call only (prefixes are histories of their own).
fn exec_b<K: MKind>(hist: &[Op], model_before: &[u8]) -> Result<(), Bad> {
    let r = catch_unwind(AssertUnwindSafe(|| -> Result<(), Bad> {
        // nothing is dropped implicitly: a manager with a corrupt name map must be leaked
        let mr = ManuallyDrop::new(fresh_manager::<K>());
        let mut handles: ManuallyDrop<Vec<(K::F, Sem)>> = ManuallyDrop::new(vec![]);
        let mut model: Vec<u8> = vec![];
        let bad = |class: &str, msg: String, ub: bool| Bad { class: class.into(), msg, ub_prone: ub, site: None };
        let mut verdict: Result<(), Bad> = Ok(());
        'run: for (i, op) in hist.iter().enumerate() {
            let last = i + 1 == hist.len();
            debug_assert!(!last || model == model_before);
            let pre = model.len() as u32;
            let got = mr.with_manager_exclusive(|m| mgr_step(m, op));
            let exp = model_step_b(&mut model, op);
            let n = model.len() as u32;
            if last {
                let mut b = ret_mismatch(op, &exp, &got).map(|(c, msg)| bad(c, msg, false));
                let new_vars = if is_add(op) { (pre, n) } else { (n, n) };
                if let Err((c, msg, ub)) = mr.with_manager_shared(|m| check_mgr(m, &model, new_vars)) {
                    b = Some(match b {
                        Some(mut r) => {
                            r.msg = format!("{}; state: {msg}", r.msg);
                            r.ub_prone |= ub;
                            r
                        }
                        None => bad(c, msg, ub),
                    });
                }
                if let Some(b) = b {
                    verdict = Err(b);
                    break 'run;
                }
                // pre-existing handles denote the same functions, independent of new variables
                if K::PRESERVES {
                    for (j, (f, t0)) in handles.iter().enumerate() {
                        match K::table(f) {
                            Err(e) => {
                                verdict = Err(bad("handle_malformed", format!("handle #{j} created before the call is malformed afterwards: {e}"), false));
                                break 'run;
                            }
                            Ok(t) => {
                                if t != extend(t0, n, K::ARITY) {
                                    verdict = Err(bad(
                                        if is_add(op) { "function_changed_by_adding_vars" } else { "function_changed" },
                                        format!("handle #{j} (table {t0:?} over its {} variables) denotes {t:?} over {n} variables after the call", (t0.len() as f64).log(K::ARITY as f64).round() as u32),
                                        false,
                                    ));
                                    break 'run;
                                }
                            }
                        }
                    }
                }
            }
            // fixed interleaving: new handle over the variables existing now, one apply, drop, gc
            if n >= 1 {
                if let Some((f, t)) = K::seed(&mr, i, n) {
                    if last && K::PRESERVES {
                        match K::table(&f) {
                            Ok(got) if got == t => {}
                            other => {
                                verdict = Err(bad("build_after_call", format!("a diagram built from table {t:?} after the call reads back as {other:?}"), false));
                                drop(f);
                                break 'run;
                            }
                        }
                    }
                    handles.push((f, t));
                }
                let k = handles.len();
                if k >= 2 {
                    let r = K::binop(&handles[k - 1].0, &handles[k - 2].0);
                    if last && K::PRESERVES {
                        let (a, b) = (extend(&handles[k - 1].1, n, K::ARITY), extend(&handles[k - 2].1, n, K::ARITY));
                        let exp: Sem = a.iter().zip(&b).map(|(&x, &y)| K::model_binop(x, y)).collect();
                        match K::table(&r) {
                            Ok(got) if got == exp => {}
                            other => {
                                verdict = Err(bad("apply_after_call", format!("{}(handle #{}, handle #{}) after the call: expected {exp:?}, got {other:?}", K::BINOP, k - 1, k - 2), false));
                                drop(r);
                                break 'run;
                            }
                        }
                    }
                    drop(r);
                }
                mr.with_manager_shared(|m| m.gc());
                if last && K::PRESERVES {
                    for (j, (f, t0)) in handles.iter().enumerate() {
                        match K::table(f) {
                            Ok(t) if t == extend(t0, n, K::ARITY) => {}
                            other => {
                                verdict = Err(bad("function_changed_by_gc", format!("handle #{j} denotes {other:?} after gc, expected {:?}", extend(t0, n, K::ARITY)), false));
                                break 'run;
                            }
                        }
                    }
                    if let Err((c, msg, ub)) = mr.with_manager_shared(|m| check_mgr(m, &model, (n, n))) {
                        verdict = Err(bad(c, format!("after gc: {msg}"), ub));
                        break 'run;
                    }
                }
            }
        }
        match &verdict {
            Err(b) if b.ub_prone => {
                // leak manager and handles
                LEAKED.fetch_add(1, Relaxed);
            }
            _ => {
                drop(ManuallyDrop::into_inner(handles));
                retire(ManuallyDrop::into_inner(mr));
            }
        }
        verdict
    }));
    match r {
        Ok(x) => x,
        Err(_) => {
            let (loc, msg) = take_panic();
            let site = short_site(&loc);
            let first = msg.lines().next().unwrap_or("").to_string();
            LEAKED.fetch_add(1, Relaxed);
            Err(Bad { class: "panic".into(), msg: format!("panic at {site}: {first}"), ub_prone: true, site: Some(site) })
        }
    }
}

impl<K: MKind> Subject for ManagerSubject<K> {
    const PART: &'static str = "manager";
    fn ops(len: u32) -> Vec<Op> {
        ops_b(len)
    }
    fn exec(&mut self, hist: &[Op], model_before: &[u8]) -> Result<(), Bad> {
        let r = exec_b::<K>(hist, model_before);
        if let (Err(b), Some(last)) = (&r, hist.last()) {
            if b.ub_prone {
                *self.poison.entry((last.kind_b(), shape(model_before, last))).or_default() += 1;
            }
        }
        r
    }
    fn skip(&self, model_before: &[u8], last: &Op) -> bool {
        // every UB-prone violation leaks a manager (two threads). After two of the same
        // root-cause signature in a group, further histories ending in the same kind of
        // call are not executed (and not extended); they are counted.
        self.poison.get(&(last.kind_b(), shape(model_before, last))).is_some_and(|&c| c >= 2)
    }
    fn extra_nontrivial(model_before: &[u8], op: &Op) -> bool {
        is_add(op) && !model_before.is_empty()
    }
    fn canonical_only(&self, len: usize) -> bool {
        // names are opaque to the library (hashed with a per-map random key, never inspected) and to
        // the oracle, so a history and its images under a permutation of {a,b,c} behave alike.
        // Length-4 histories: every renaming on bdd managers, one representative per renaming
        // class on the other kinds (VERIF_C16_FULL=1: every renaming everywhere).
        len >= 4 && std::env::var_os("VERIF_C16_FULL").is_none()
    }
    fn report(&self, ctx: &mut Ctx, hist: &[Op], model_before: &[u8], b: &Bad) {
        let last = hist.last().unwrap();
        let sh = shape(model_before, last);
        let mut a = attrs(&[("part", "manager"), ("kind", K::NAME), ("op", last.kind_b()), ("shape", sh), ("class", &b.class)]);
        if let Some(s) = &b.site {
            a.insert("panic".into(), "1".into());
            a.insert("site".into(), s.clone());
        }
        let mut model = model_before.to_vec();
        let exp = model_step_b(&mut model, last);
        ctx.viol(
            a,
            json!({"part": "manager", "kind": K::NAME, "history": show_hist_b(hist), "model_before_last": names_of(model_before),
                   "interleaving": "after every call (if a variable exists): build a handle over all variables, apply on the two newest handles, drop the result, gc",
                   "expected_return": format!("{exp:?}"), "expected_names": names_of(&model), "ub_prone": b.ub_prone}),
            &format!(
                "{} manager after {:?}: {}{}",
                K::NAME,
                show_hist_b(hist),
                b.msg,
                if b.ub_prone && b.site.is_none() { " [UB-prone: stale key in the name index; the manager was leaked instead of dropped]" } else { "" }
            ),
        );
    }
}

impl Op {
    fn kind_b(&self) -> &'static str {
        match self {
            Op::AddUnnamed(_) => "add_vars",
            Op::AddNamed(_) => "add_named_vars",
            o => o.kind(),
        }
    }
    fn show_b(&self) -> String {
        self.show().replace("add_unnamed", "add_vars").replace("add_named(", "add_named_vars(")
    }
}

fn show_hist_b(h: &[Op]) -> Vec<String> {
    h.iter().map(|o| o.show_b()).collect()
}

fn depth_b(tier: &str) -> usize {
    if tier == "thorough" { 4 } else { 3 }
}

fn run_b_shard<K: MKind>(ctx: &mut Ctx, first: usize) {
    let depth = K::depth(&ctx.tier);
    let op1 = ops_b(0)[first].clone();
    let mut m1 = vec![];
    model_step(&mut m1, &op1);
    let subj = || ManagerSubject::<K> { poison: FxHashMap::default(), _k: std::marker::PhantomData };
    ctx.group("len<=1", |ctx| {
        explore_from(ctx, &mut subj(), &[op1.clone()], 1);
        ctx.sample(|| json!({"part": "manager", "kind": K::NAME, "history": show_hist_b(&[op1.clone()])}));
    });
    for op2 in ops_b(m1.len() as u32) {
        let label = format!("{} ; {}", op1.show_b(), op2.show_b());
        ctx.group(&label, |ctx| {
            explore_from(ctx, &mut subj(), &[op1.clone(), op2.clone()], depth);
        });
    }
}

// ===========================================================================
// shards
// ===========================================================================

pub fn shards(tier: &str) -> Vec<String> {
    let _ = tier;
    let mut v = vec![];
    for i in 0..ops_a(0).len() {
        v.push(format!("a:{i}"));
    }
    v.push("a:graph".into());
    v.push("a:graphlong".into());
    v.push("a:clone".into());
    for k in ["bdd", "bcdd", "zbdd", "mtbdd", "tdd"] {
        for i in 0..ops_b(0).len() {
            v.push(format!("b:{k}:{i}"));
        }
    }
    v
}

pub fn run(ctx: &mut Ctx) {
    let shard = ctx.shard.clone();
    let parts: Vec<&str> = shard.split(':').collect();
    match (parts[0], parts[1]) {
        ("a", "graph") => run_a_graph(ctx),
        ("a", "graphlong") => {
            LONG.store(true, std::sync::atomic::Ordering::Relaxed);
            assert!(LONG_NAMES[1].len() > 64 && LONG_NAMES[1][..64] == LONG_NAMES[2][..64] && LONG_NAMES[1] != LONG_NAMES[2]);
            run_a_graph(ctx)
        }
        ("a", "clone") => run_a_clone(ctx),
        ("a", i) => run_a_shard(ctx, i.parse().expect("bad shard")),
        ("b", k) => {
            if std::env::var_os("OXIDD_STACK_SIZE").is_none() {
                // the library default is a 1 GiB stack per worker thread; the diagrams here have <= 8 levels
                // SAFETY: no other thread exists yet in this worker process
                unsafe { std::env::set_var("OXIDD_STACK_SIZE", (4usize << 20).to_string()) };
            }
            let i: usize = parts[2].parse().expect("bad shard");
            match k {
                "bdd" => run_b_shard::<KBdd>(ctx, i),
                "bcdd" => run_b_shard::<KBcdd>(ctx, i),
                "zbdd" => run_b_shard::<KZbdd>(ctx, i),
                "mtbdd" => run_b_shard::<KMtbdd>(ctx, i),
                "tdd" => run_b_shard::<KTdd>(ctx, i),
                _ => panic!("bad shard {shard}"),
            }
        }
        _ => panic!("bad shard {shard}"),
    }
}
